// gp-lrmcp: correspondence adapter + monitors for engine `lrmcp`
// (layers/rmcp.go, layers/asf.go, layers/ague_var0.go, layers/mdp.go: DecodeFromBytes, SerializeTo,
// NextLayerType, CanDecode, decodeRMCP/decodeASF/decodeAGUE/decodeMDP, and the DecodingLayerParser over
// RMCP, ASF and AGUEVar0).
//
// Properties served: C19 (no panics), C05 (no stale state / capacity independence / packet path =
// preallocated path / no write into earlier input buffers), C06 (round trip), C07 (serializer totality,
// buffer independence, idempotence).  None of the four layers exposes a flow (C17 has no instance here).
package main

import (
	"bytes"
	"errors"
	"fmt"
	"math"
	"net"
	"os"
	"runtime/debug"
	"sort"
	"strconv"
	"strings"

	"github.com/gopacket/gopacket"
	"github.com/gopacket/gopacket/layers"
	"verif/harness/lib"
)

// ---------------------------------------------------------------- state of one case

type codec interface {
	gopacket.DecodingLayer
	gopacket.SerializableLayer
}

var (
	cur     map[string]codec // objects re-used by `redec`
	pRmcp   *layers.RMCP     // objects owned by the DecodingLayerParsers
	pAsf    *layers.ASF
	pAgue   *layers.AGUEVar0
	parsers map[string]*gopacket.DecodingLayerParser
	// the buffers earlier decodes of this case were given (with their spare capacity): no later decode may write to them
	earlier []watched
)

type watched struct {
	back []byte // the whole backing array
	want []byte // its content when the decode returned
}

var kinds = []string{"rmcp", "asf", "ague", "mdp"}
var dlpKinds = []string{"rmcp", "asf", "ague"}

func newObj(kind string) codec {
	switch kind {
	case "rmcp":
		return &layers.RMCP{}
	case "asf":
		return &layers.ASF{}
	case "ague":
		return &layers.AGUEVar0{}
	case "mdp":
		return &layers.MDP{}
	}
	return nil
}

func layerTypeOf(kind string) gopacket.LayerType {
	switch kind {
	case "rmcp":
		return layers.LayerTypeRMCP
	case "asf":
		return layers.LayerTypeASF
	case "ague":
		return layers.LayerTypeAGUEVar0
	}
	return layers.LayerTypeMDP
}

func reset() {
	cur = map[string]codec{}
	for _, k := range kinds {
		cur[k] = newObj(k)
	}
	earlier = nil
	newParser()
}

func newParser() {
	pRmcp, pAsf, pAgue = &layers.RMCP{}, &layers.ASF{}, &layers.AGUEVar0{}
	parsers = map[string]*gopacket.DecodingLayerParser{}
	for _, k := range dlpKinds {
		p := gopacket.NewDecodingLayerParser(layerTypeOf(k), pRmcp, pAsf, pAgue)
		p.IgnorePanic = true // let panics through (C19: "a layer parser that lets panics through")
		parsers[k] = p
	}
}

type feedback struct{ truncated bool }

func (f *feedback) SetTruncated() { f.truncated = true }

func b01(b bool) string {
	if b {
		return "1"
	}
	return "0"
}

// ---------------------------------------------------------------- MDP: independent TLV walker (oracle)

type mdpSrc struct{ dev, net, lon, lat, t6, t7, ip, b13 []byte }

// mdpWalk re-reads the TLV list of an MDP frame (28-byte preamble, then type/length/value triples up to a
// type-255 TLV or the end of the frame) and returns the value bytes of the LAST TLV of each known type.
func mdpWalk(data []byte) (src mdpSrc, ok bool) {
	if len(data) < 28 {
		return src, false
	}
	for off := 28; off < len(data); {
		t := data[off]
		if t == 255 {
			break
		}
		if off+2 > len(data) || off+2+int(data[off+1]) > len(data) {
			return src, false
		}
		v := data[off+2 : off+2+int(data[off+1])]
		switch t {
		case 2:
			src.dev = v
		case 3:
			src.net = v
		case 4:
			src.lon = v
		case 5:
			src.lat = v
		case 6:
			src.t6 = v
		case 7:
			src.t7 = v
		case 11:
			src.ip = v
		case 13:
			src.b13 = v
		}
		off += 2 + len(v)
	}
	return src, true
}

func sameFloat(a, b float64) bool {
	return math.Float64bits(a) == math.Float64bits(b) || (math.IsNaN(a) && math.IsNaN(b))
}

// mdpArg renders a parsed field by the ARGUMENT of its parse call: the hex of `src` when the field's value is
// what the library function gives for string(src), a visible mismatch marker otherwise.
func mdpArg(src []byte, ok bool, val string) string {
	if ok {
		return lib.Hex(src)
	}
	return "MISMATCH(" + val + ")"
}

// ---------------------------------------------------------------- rendering

func nextOf(l interface{ NextLayerType() gopacket.LayerType }) (s string) {
	defer func() {
		if recover() != nil {
			s = "panic"
		}
	}()
	return strconv.Itoa(int(l.NextLayerType()))
}

func renderAgue(l *layers.AGUEVar0) string {
	return fmt.Sprintf("ver=%d c=%s proto=%d flags=%d ext=%s data=%s contents=%s next=%s",
		l.Version, b01(l.C), uint8(l.Protocol), l.Flags, lib.Hex(l.Extensions), lib.Hex(l.Data), lib.Hex(l.LayerContents()), nextOf(l))
}

// render; for MDP `src` (the walker's view of the input the object was decoded from) is needed for the parsed fields.
func render(l gopacket.Layer, src *mdpSrc) string {
	switch l := l.(type) {
	case *layers.RMCP:
		return fmt.Sprintf("ver=%d seq=%d ack=%s cls=%d contents=%s payload=%s next=%s",
			l.Version, l.Sequence, b01(l.Ack), uint8(l.Class), lib.Hex(l.Contents), lib.Hex(l.BaseLayer.Payload), nextOf(l))
	case *layers.ASF:
		return fmt.Sprintf("ent=%d type=%d tag=%d len=%d contents=%s payload=%s next=%s",
			l.Enterprise, l.Type, l.Tag, l.Length, lib.Hex(l.Contents), lib.Hex(l.Payload), nextOf(l))
	case *layers.AGUEVar0:
		return renderAgue(l)
	case layers.AGUEVar0:
		return renderAgue(&l)
	case *layers.MDP:
		s := mdpSrc{}
		if src != nil {
			s = *src
		}
		lon, _ := strconv.ParseFloat(string(s.lon), 64)
		lat, _ := strconv.ParseFloat(string(s.lat), 64)
		b13, _ := strconv.ParseBool(string(s.b13))
		ip := net.ParseIP(string(s.ip))
		return fmt.Sprintf("pre=%s dev=%s net=%s lon=%s lat=%s t6=%s t7=%s ip=%s b13=%s type=%d length=%d contents=%s payload=%s next=%s",
			lib.Hex(l.PreambleData), lib.Hex([]byte(l.DeviceInfo)), lib.Hex([]byte(l.NetworkInfo)),
			mdpArg(s.lon, sameFloat(l.Longitude, lon), fmt.Sprint(l.Longitude)), mdpArg(s.lat, sameFloat(l.Latitude, lat), fmt.Sprint(l.Latitude)),
			lib.Hex([]byte(l.Type6UUID)), lib.Hex([]byte(l.Type7UUID)),
			mdpArg(s.ip, bytes.Equal(l.IPAddress, ip) && (l.IPAddress == nil) == (ip == nil), l.IPAddress.String()),
			mdpArg(s.b13, l.Type13Bool == b13, fmt.Sprint(l.Type13Bool)),
			uint16(l.Type), l.Length, lib.Hex(l.Contents), lib.Hex(l.Payload), nextOf(l))
	}
	return "?"
}

// differingField names the first public field (incl. Contents/Payload) in which two layers differ.
func differingField(a, b gopacket.Layer) string {
	if v, ok := a.(layers.AGUEVar0); ok {
		a = &v
	}
	if v, ok := b.(layers.AGUEVar0); ok {
		b = &v
	}
	switch x := a.(type) {
	case *layers.RMCP:
		y, ok := b.(*layers.RMCP)
		switch {
		case !ok:
			return "type"
		case x.Version != y.Version:
			return "Version"
		case x.Sequence != y.Sequence:
			return "Sequence"
		case x.Ack != y.Ack:
			return "Ack"
		case x.Class != y.Class:
			return "Class"
		case !bytes.Equal(x.Contents, y.Contents):
			return "Contents"
		case !bytes.Equal(x.BaseLayer.Payload, y.BaseLayer.Payload):
			return "Payload"
		}
	case *layers.ASF:
		y, ok := b.(*layers.ASF)
		switch {
		case !ok:
			return "type"
		case x.Enterprise != y.Enterprise:
			return "Enterprise"
		case x.Type != y.Type:
			return "Type"
		case x.Tag != y.Tag:
			return "Tag"
		case x.Length != y.Length:
			return "Length"
		case !bytes.Equal(x.Contents, y.Contents):
			return "Contents"
		case !bytes.Equal(x.Payload, y.Payload):
			return "Payload"
		}
	case *layers.AGUEVar0:
		y, ok := b.(*layers.AGUEVar0)
		switch {
		case !ok:
			return "type"
		case x.Version != y.Version:
			return "Version"
		case x.C != y.C:
			return "C"
		case x.Protocol != y.Protocol:
			return "Protocol"
		case x.Flags != y.Flags:
			return "Flags"
		case !bytes.Equal(x.Extensions, y.Extensions):
			return "Extensions"
		case !bytes.Equal(x.Data, y.Data):
			return "Data"
		}
	case *layers.MDP:
		y, ok := b.(*layers.MDP)
		switch {
		case !ok:
			return "type"
		case !bytes.Equal(x.PreambleData, y.PreambleData):
			return "PreambleData"
		case x.DeviceInfo != y.DeviceInfo:
			return "DeviceInfo"
		case x.NetworkInfo != y.NetworkInfo:
			return "NetworkInfo"
		case !sameFloat(x.Longitude, y.Longitude):
			return "Longitude"
		case !sameFloat(x.Latitude, y.Latitude):
			return "Latitude"
		case x.Type6UUID != y.Type6UUID:
			return "Type6UUID"
		case x.Type7UUID != y.Type7UUID:
			return "Type7UUID"
		case !bytes.Equal(x.IPAddress, y.IPAddress):
			return "IPAddress"
		case x.Type13Bool != y.Type13Bool:
			return "Type13Bool"
		case x.Type != y.Type:
			return "Type"
		case x.Length != y.Length:
			return "Length"
		case !bytes.Equal(x.Contents, y.Contents):
			return "Contents"
		case !bytes.Equal(x.Payload, y.Payload):
			return "Payload"
		}
	default:
		return "type"
	}
	return ""
}

// inBuf places data at the start of a backing array with `len(foreign)` spare bytes of capacity holding
// the foreign bytes, and returns the slice data[:len] with cap = len + len(foreign).
func inBuf(data, foreign []byte) []byte {
	back := make([]byte, len(data)+len(foreign))
	copy(back, data)
	copy(back[len(data):], foreign)
	return back[:len(data)]
}

func exact(data []byte) []byte { // cap == len
	c := make([]byte, len(data))
	copy(c, data)
	return c[:len(data):len(data)]
}

func watch(in []byte) {
	back := in[:cap(in)]
	earlier = append(earlier, watched{back, append([]byte(nil), back...)})
	if len(earlier) > 8 {
		earlier = earlier[1:]
	}
}

// checkEarlier: C05/C02 oracle — no decode may have written into a buffer handed to an earlier decode
// (neither its visible bytes nor the spare capacity behind them, where the caller may keep the next packet).
func checkEarlier(what string) {
	for _, w := range earlier {
		if !bytes.Equal(w.back, w.want) {
			lib.Finding("C05", "lrmcp:foreign-write", what+" wrote into the buffer of an earlier packet")
			copy(w.want, w.back)
		}
	}
}

func isOurSite(site string) bool {
	for _, f := range []string{"layers/rmcp.go", "layers/asf.go", "layers/ague_var0.go", "layers/mdp.go", "layers/base.go"} {
		if strings.HasPrefix(site, f) {
			return true
		}
	}
	return false
}

// protect is lib.Protect with a panic-site extraction that also works when the repository under test
// is a scratch tree (VERIF_REPO): the site is the top-most stack frame inside the repository.
var lastSite, lastMsg string

func protect(f func() string) (reply string, panicked bool) {
	defer func() {
		if v := recover(); v != nil {
			lastMsg = fmt.Sprint(v)
			lastSite = siteOf(string(debug.Stack()))
			reply = "panic " + lib.PanicKind(v)
			panicked = true
		}
	}()
	return f(), false
}

func siteOf(stack string) string {
	root := os.Getenv("VERIF_REPO")
	if root == "" {
		root = "/repo"
	}
	root = strings.TrimRight(root, "/") + "/"
	for _, l := range strings.Split(stack, "\n") {
		l = strings.TrimSpace(l)
		if !strings.Contains(l, ".go:") {
			continue
		}
		f := strings.Fields(l)[0]
		if strings.HasPrefix(f, root) {
			return f[len(root):]
		}
		if j := strings.LastIndex(f, "gopacket/"); j >= 0 && !strings.Contains(f, "/verif/") {
			return f[j+len("gopacket/"):]
		}
	}
	return "?"
}

// guarded runs f; a panic is reported as a C19 finding with its site and returned as "panic <kind>".
func guarded(what string, f func() string) string {
	reply, panicked := protect(f)
	if panicked {
		lib.Finding("C19", "lrmcp:panic:"+lastSite, what+" panicked: "+lastMsg)
		lib.Stat("panic")
	}
	return reply
}

// ---------------------------------------------------------------- decode ops

// decInto: DecodeFromBytes into obj; the reply renders the receiver on an error too (what the failed call left).
func decInto(obj codec, data []byte) (string, error, bool) {
	fb := &feedback{}
	err := obj.DecodeFromBytes(data, fb)
	var src *mdpSrc
	if _, ok := obj.(*layers.MDP); ok && err == nil {
		if s, wok := mdpWalk(data); wok {
			src = &s
		} else {
			lib.Finding("C05", "lrmcp:mdp-walk", "MDP decode accepts a TLV list the independent walker rejects")
		}
	}
	if err != nil {
		if _, ok := obj.(*layers.MDP); ok {
			// what a failed MDP decode leaves in the parsed fields is not under correspondence (half a TLV list)
			return "err trunc=" + b01(fb.truncated), err, fb.truncated
		}
		return "err trunc=" + b01(fb.truncated) + " | " + render(obj.(gopacket.Layer), nil), err, fb.truncated
	}
	return "ok " + render(obj.(gopacket.Layer), src) + " trunc=" + b01(fb.truncated), nil, fb.truncated
}

func statDec(kind string, obj codec, err error) {
	if err != nil {
		lib.Stat(kind + ":dec:err")
		return
	}
	lib.Stat(kind + ":dec:ok")
	lib.Nontrivial()
	switch l := obj.(type) {
	case *layers.RMCP:
		lib.Stat(fmt.Sprintf("rmcp:dec:class=%d", uint8(l.Class)))
		if l.Ack {
			lib.Stat("rmcp:dec:ack")
		}
	case *layers.ASF:
		if l.NextLayerType() == layers.LayerTypeASFPresencePong {
			lib.Stat("asf:dec:presence-pong")
		}
		if int(l.Length) != len(l.Payload) {
			lib.Stat("asf:dec:length-field-disagrees")
		}
	case *layers.AGUEVar0:
		if len(l.Extensions) > 0 {
			lib.Stat("ague:dec:with-extensions")
		}
		if l.C {
			lib.Stat("ague:dec:C")
		}
		if l.NextLayerType() != gopacket.LayerTypeZero {
			lib.Stat("ague:dec:known-protocol")
		}
	case *layers.MDP:
		n := 0
		for _, s := range []string{l.DeviceInfo, l.NetworkInfo, l.Type6UUID, l.Type7UUID} {
			if s != "" {
				n++
			}
		}
		lib.Stat(fmt.Sprintf("mdp:dec:string-fields=%d", n))
		if l.Longitude != 0 || l.Latitude != 0 {
			lib.Stat("mdp:dec:float")
		}
		if l.IPAddress != nil {
			lib.Stat("mdp:dec:ip")
		}
		if l.Type13Bool {
			lib.Stat("mdp:dec:bool")
		}
	}
}

func opDec(kind string, extra int, foreign, data []byte) string {
	if len(foreign) != extra || newObj(kind) == nil {
		return "bad-op"
	}
	return guarded(kind+".DecodeFromBytes", func() string {
		obj := newObj(kind)
		cur[kind] = obj
		in := inBuf(data, foreign)
		reply, err, _ := decInto(obj, in)
		statDec(kind, obj, err)
		checkEarlier(kind + ".DecodeFromBytes")
		if !bytes.Equal(in[:cap(in)], append(append([]byte(nil), data...), foreign...)) {
			lib.Finding("C05", "lrmcp:input-write", kind+" decode wrote into its own input buffer")
		}
		watch(in)
		if got := obj.CanDecode(); got != gopacket.LayerClass(layerTypeOf(kind)) {
			lib.Finding("C05", "lrmcp:candecode:"+kind, "CanDecode is not the layer's own type")
		}
		// C05/C04 oracle: the same bytes in a buffer with cap == len
		ref := newObj(kind)
		refReply, _, _ := decInto(ref, exact(data))
		if reply != refReply {
			lib.Finding("C05", "lrmcp:cap-dependent", kind+" decode depends on spare capacity / foreign bytes: "+reply+" vs "+refReply)
		}
		if extra > 0 {
			lib.Stat(kind + ":dec:spare-cap")
		}
		return reply
	})
}

func opRedec(kind string, data []byte) string {
	if newObj(kind) == nil {
		return "bad-op"
	}
	return guarded(kind+".DecodeFromBytes", func() string {
		obj := cur[kind]
		in := exact(data)
		reply, err, tr := decInto(obj, in)
		statDec(kind, obj, err)
		lib.Stat(kind + ":redec")
		checkEarlier(kind + ".DecodeFromBytes (reused object)")
		watch(in)
		fresh := newObj(kind)
		fb := &feedback{}
		ferr := fresh.DecodeFromBytes(exact(data), fb)
		if (ferr != nil) != (err != nil) {
			lib.Finding("C05", "lrmcp:stale:error", kind+": reused object and fresh object disagree on the error")
		} else {
			if err == nil {
				if f := differingField(obj.(gopacket.Layer), fresh.(gopacket.Layer)); f != "" {
					lib.Finding("C05", "lrmcp:stale:"+f, kind+"."+f+" differs between a reused and a fresh object")
				}
			}
			if fb.truncated != tr {
				lib.Finding("C05", "lrmcp:stale:Truncated", kind+": truncation flag differs between a reused and a fresh object")
			}
		}
		return reply
	})
}

// ---------------------------------------------------------------- serialize ops

func mkBuffer(hist string) (gopacket.SerializeBuffer, bool) {
	switch {
	case hist == "fresh":
		return gopacket.NewSerializeBuffer(), true
	case strings.HasPrefix(hist, "dirty"):
		v, ok := lib.Atoi(hist[5:])
		if !ok || v < 0 || v > 255 {
			return nil, false
		}
		b := gopacket.NewSerializeBuffer()
		s, _ := b.AppendBytes(64)
		for i := range s {
			s[i] = byte(v)
		}
		s, _ = b.PrependBytes(64)
		for i := range s {
			s[i] = byte(v)
		}
		b.Clear()
		return b, true
	case strings.HasPrefix(hist, "sized"):
		n, ok := lib.Atoi(hist[5:])
		if !ok || n < 0 || n >= 100000 {
			return nil, false
		}
		return gopacket.NewSerializeBufferExpectedSize(n, n), true
	}
	return nil, false
}

func parsePayload(s string) ([]byte, bool) {
	if strings.HasPrefix(s, "z") {
		parts := strings.Split(s[1:], "x")
		if len(parts) != 2 {
			return nil, false
		}
		n, ok := lib.Atoi(parts[0])
		v, ok2 := lib.UnHex(parts[1])
		if !ok || !ok2 || len(v) != 1 || n < 0 || n > 200000 {
			return nil, false
		}
		return bytes.Repeat(v, n), true
	}
	return lib.UnHex(s)
}

func parseBool(s string) (bool, bool) {
	switch s {
	case "1":
		return true, true
	case "0":
		return false, true
	}
	return false, false
}

func atoiBelow(s string, bound int64) (int64, bool) {
	n, ok := lib.Atou(s)
	if !ok || int64(n) < 0 || int64(n) >= bound {
		return 0, false
	}
	return int64(n), true
}

func putPayload(b gopacket.SerializeBuffer, p []byte) {
	gopacket.Payload(p).SerializeTo(b, gopacket.SerializeOptions{})
}

// serOnce serialises layer l over payload p into buffer b; returns (bytes, error?) and converts a
// panic into a C07 finding.
func serOnce(l gopacket.SerializableLayer, b gopacket.SerializeBuffer, p []byte, opts gopacket.SerializeOptions) (out []byte, failed bool, panicked bool) {
	reply, pk := protect(func() string {
		putPayload(b, p)
		if err := l.SerializeTo(b, opts); err != nil {
			return "err"
		}
		return "ok"
	})
	if pk {
		lib.Finding("C07", "lrmcp:ser-panic:"+lastSite, "SerializeTo panicked: "+lastMsg)
		return nil, false, true
	}
	if reply == "err" {
		return nil, true, false
	}
	return append([]byte(nil), b.Bytes()...), false, false
}

// serMonitors: the C07 oracles on the real code for one (layer, payload, options).
// mk must return a NEW layer object with the same public field values on every call.
func serMonitors(name string, mk func() gopacket.SerializableLayer, p []byte, opts gopacket.SerializeOptions, got []byte, gotErr bool) {
	// (a) buffer independence: fresh, dirty 0xA5 / 0x5A, pre-sized
	for _, h := range []string{"fresh", "dirty165", "dirty90", "sized7", "sized2000"} {
		b, _ := mkBuffer(h)
		out, failed, pk := serOnce(mk(), b, p, opts)
		if pk {
			return
		}
		if failed != gotErr || (!failed && !bytes.Equal(out, got)) {
			lib.Finding("C07", "lrmcp:dirty-buffer", name+": output differs between buffer histories ("+h+")")
			return
		}
	}
	// (b) idempotence: the same (mutated) object again over the same payload
	l := mk()
	o1, f1, pk := serOnce(l, gopacket.NewSerializeBuffer(), p, opts)
	if pk {
		return
	}
	o2, f2, pk := serOnce(l, gopacket.NewSerializeBuffer(), p, opts)
	if pk {
		return
	}
	if f1 != f2 || !bytes.Equal(o1, o2) {
		what := "bytes differ"
		if f1 != f2 {
			what = fmt.Sprintf("first call error=%v, second call error=%v", f1, f2)
		}
		lib.Finding("C07", "lrmcp:not-idempotent", name+": serialising the same layer twice differs: "+what)
	}
}

// parseRmcp: ver seq ack cls
func parseRmcp(a []string) (func() *layers.RMCP, bool) {
	if len(a) != 4 {
		return nil, false
	}
	ver, ok1 := atoiBelow(a[0], 256)
	seq, ok2 := atoiBelow(a[1], 256)
	ack, ok3 := parseBool(a[2])
	cls, ok4 := atoiBelow(a[3], 256)
	if !(ok1 && ok2 && ok3 && ok4) {
		return nil, false
	}
	return func() *layers.RMCP {
		return &layers.RMCP{Version: uint8(ver), Sequence: uint8(seq), Ack: ack, Class: layers.RMCPClass(cls)}
	}, true
}

// parseAsf: ent type tag len
func parseAsf(a []string) (func() *layers.ASF, bool) {
	if len(a) != 4 {
		return nil, false
	}
	ent, ok1 := atoiBelow(a[0], 1<<32)
	typ, ok2 := atoiBelow(a[1], 256)
	tag, ok3 := atoiBelow(a[2], 256)
	ln, ok4 := atoiBelow(a[3], 256)
	if !(ok1 && ok2 && ok3 && ok4) {
		return nil, false
	}
	return func() *layers.ASF {
		return &layers.ASF{ASFDataIdentifier: layers.ASFDataIdentifier{Enterprise: uint32(ent), Type: uint8(typ)}, Tag: uint8(tag), Length: uint8(ln)}
	}, true
}

// parseAgue: ver c proto flags ext
func parseAgue(a []string) (func() *layers.AGUEVar0, bool) {
	if len(a) != 5 {
		return nil, false
	}
	ver, ok1 := atoiBelow(a[0], 256)
	c, ok2 := parseBool(a[1])
	proto, ok3 := atoiBelow(a[2], 256)
	flags, ok4 := atoiBelow(a[3], 65536)
	ext, ok5 := lib.UnHex(a[4])
	if !(ok1 && ok2 && ok3 && ok4 && ok5) {
		return nil, false
	}
	return func() *layers.AGUEVar0 {
		return &layers.AGUEVar0{Version: uint8(ver), C: c, Protocol: layers.IPProtocol(proto), Flags: uint16(flags), Extensions: append([]byte{}, ext...)}
	}, true
}

func mkLayer(kind string, fields []string) (func() codec, bool) {
	switch kind {
	case "rmcp":
		f, ok := parseRmcp(fields)
		if !ok {
			return nil, false
		}
		return func() codec { return f() }, true
	case "asf":
		f, ok := parseAsf(fields)
		if !ok {
			return nil, false
		}
		return func() codec { return f() }, true
	case "ague":
		f, ok := parseAgue(fields)
		if !ok {
			return nil, false
		}
		return func() codec { return f() }, true
	case "mdp":
		if len(fields) != 0 {
			return nil, false
		}
		return func() codec { return &layers.MDP{DeviceInfo: "x", Longitude: 1.5} }, true
	}
	return nil, false
}

func opSer(kind string, a []string) string {
	// fix csum hist <fields…> payload
	if len(a) < 4 {
		return "bad-op"
	}
	fix, ok1 := parseBool(a[0])
	csum, ok2 := parseBool(a[1])
	b, ok3 := mkBuffer(a[2])
	p, ok4 := parsePayload(a[len(a)-1])
	if !(ok1 && ok2 && ok3 && ok4) {
		return "bad-op"
	}
	mkc, ok := mkLayer(kind, a[3:len(a)-1])
	if !ok {
		return "bad-op"
	}
	mk := func() gopacket.SerializableLayer { return mkc() }
	opts := gopacket.SerializeOptions{FixLengths: fix, ComputeChecksums: csum}
	l := mk()
	out, failed, pk := serOnce(l, b, p, opts)
	if pk {
		return "panic " + lib.PanicKind(lastMsg)
	}
	serMonitors(kind, mk, p, opts, out, failed)
	if a[2] != "fresh" {
		lib.Stat("ser:buf:" + strings.TrimRight(a[2], "0123456789"))
	}
	lib.Stat(fmt.Sprintf("ser:opts:fix%s-csum%s", a[0], a[1]))
	tail := ""
	if asf, ok := l.(*layers.ASF); ok {
		// the receiver after the call (FixLengths mutates it)
		tail = fmt.Sprintf(" len=%d", asf.Length)
	}
	if failed {
		lib.Stat(kind + ":ser:err")
		return "err" + tail
	}
	lib.Stat(kind + ":ser:ok")
	lib.Nontrivial()
	return "ok bytes=" + lib.Hex(out) + tail
}

// ---------------------------------------------------------------- round trip

var rtOpts = gopacket.SerializeOptions{FixLengths: true, ComputeChecksums: true}

func copyLayer(l codec) codec {
	switch x := l.(type) {
	case *layers.RMCP:
		c := *x
		return &c
	case *layers.ASF:
		c := *x
		return &c
	case *layers.AGUEVar0:
		c := *x
		c.Extensions = append([]byte{}, x.Extensions...)
		return &c
	}
	return nil
}

// wfExpect: is the layer inside the round-trip claim, and what must come back (the layer after FixLengths).
func wfExpect(l codec, p []byte) (bool, codec) {
	w := copyLayer(l)
	switch x := w.(type) {
	case *layers.RMCP:
		return x.Class < 16, x
	case *layers.ASF:
		x.Length = uint8(len(p))
		return true, x
	case *layers.AGUEVar0:
		return x.Version < 4 && len(x.Extensions) < 32, x
	}
	return false, nil
}

// publicDiff compares the public protocol fields only (≈ of the property: Contents/Payload are ignored).
func publicDiff(a, b codec) string {
	ca, cb := copyLayer(a), copyLayer(b)
	clear := func(c codec) {
		switch x := c.(type) {
		case *layers.RMCP:
			x.BaseLayer = layers.BaseLayer{}
		case *layers.ASF:
			x.BaseLayer = layers.BaseLayer{}
		case *layers.AGUEVar0:
			x.Data = nil
		}
	}
	clear(ca)
	clear(cb)
	return differingField(ca.(gopacket.Layer), cb.(gopacket.Layer))
}

// rt: SerializeLayers(layer, payload) with fix+csum, decode, serialise the decoded layer again.
func rt(kind string, l codec, p []byte, decoded bool) string {
	wf, want := wfExpect(l, p)
	buf := gopacket.NewSerializeBuffer()
	if err := gopacket.SerializeLayers(buf, rtOpts, l, gopacket.Payload(p)); err != nil {
		lib.Stat(kind + ":rt:ser-err")
		if wf {
			lib.Finding("C06", "lrmcp:roundtrip:ser-error", kind+": serialising a well-formed layer fails")
		}
		return "ser-err"
	}
	out := append([]byte(nil), buf.Bytes()...)
	d := newObj(kind)
	dreply, derr, dtr := decInto(d, exact(out))
	again := "none"
	if derr == nil {
		buf2 := gopacket.NewSerializeBuffer()
		pl := d.(gopacket.Layer).LayerPayload()
		if err := gopacket.SerializeLayers(buf2, rtOpts, d, gopacket.Payload(pl)); err != nil {
			again = "err"
		} else if bytes.Equal(buf2.Bytes(), out) {
			again = "same"
		} else {
			again = "diff"
		}
	}
	// C06 oracle (independent statement of the property for this layer)
	if wf {
		lib.Stat(kind + ":rt:wf")
		lib.Nontrivial()
		switch {
		case derr != nil:
			lib.Finding("C06", "lrmcp:roundtrip:error", kind+": decoding the serialised well-formed layer fails")
		case dtr:
			lib.Finding("C06", "lrmcp:roundtrip:Truncated", kind+": truncation flag set on a round trip")
		case publicDiff(d, want) != "":
			lib.Finding("C06", "lrmcp:roundtrip:"+publicDiff(d, want), kind+"."+publicDiff(d, want)+" changed on a round trip")
		case !bytes.Equal(d.(gopacket.Layer).LayerPayload(), p):
			lib.Finding("C06", "lrmcp:roundtrip:Payload", kind+": payload changed on a round trip")
		case again != "same":
			lib.Finding("C06", "lrmcp:roundtrip:reserialize", kind+": serialising the decoded layer again gives "+again)
		}
	} else if decoded {
		// every decoded layer must be inside the claim
		lib.Finding("C06", "lrmcp:roundtrip:decoded-not-wf", kind+": a decoded layer is outside the well-formedness predicate")
	} else {
		lib.Stat(kind + ":rt:not-wf")
	}
	return "ok bytes=" + lib.Hex(out) + " | " + dreply + " | again=" + again
}

func opRt(kind string, a []string) string {
	if len(a) < 2 || kind == "mdp" {
		return "bad-op"
	}
	p, ok := parsePayload(a[len(a)-1])
	if !ok {
		return "bad-op"
	}
	mk, ok := mkLayer(kind, a[:len(a)-1])
	if !ok {
		return "bad-op"
	}
	r, pk := protect(func() string { return rt(kind, mk(), p, false) })
	if pk {
		lib.Finding("C07", "lrmcp:ser-panic:"+lastSite, "round trip panicked: "+lastMsg)
	}
	return r
}

// opRtDecMdp: MDP has a SerializeTo (so it counts as "can be both written and read"), but it writes nothing.
func opRtDecMdp(data []byte) string {
	return guarded("decode+round trip", func() string {
		m := &layers.MDP{}
		if err := m.DecodeFromBytes(exact(data), &feedback{}); err != nil {
			return "dec-err"
		}
		lib.Stat("mdp:rtdec")
		buf := gopacket.NewSerializeBuffer()
		if err := gopacket.SerializeLayers(buf, rtOpts, m); err != nil {
			lib.Finding("C06", "lrmcp:roundtrip:ser-error", "mdp: serialising a decoded layer fails")
			return "ser-err"
		}
		out := append([]byte(nil), buf.Bytes()...)
		if !bytes.Equal(out, data) {
			lib.Finding("C06", "lrmcp:roundtrip:mdp-serialize-noop", fmt.Sprintf("MDP: a decoded %d-byte frame is written back as %d bytes", len(data), len(out)))
		}
		lib.Nontrivial()
		return "ok bytes=" + lib.Hex(out)
	})
}

func opRtDec(kind string, data []byte) string {
	if kind == "mdp" {
		return opRtDecMdp(data)
	}
	if newObj(kind) == nil {
		return "bad-op"
	}
	return guarded("decode+round trip", func() string {
		l := newObj(kind)
		if err := l.DecodeFromBytes(exact(data), &feedback{}); err != nil {
			return "dec-err"
		}
		lib.Stat(kind + ":rtdec")
		return rt(kind, l, l.(gopacket.Layer).LayerPayload(), true)
	})
}

// ---------------------------------------------------------------- tracing PacketBuilder

type tracer struct {
	acts  []string
	tail  string
	added gopacket.Layer
}

func (t *tracer) SetTruncated() { t.acts = append(t.acts, "trunc") }
func (t *tracer) AddLayer(l gopacket.Layer) {
	t.acts = append(t.acts, fmt.Sprintf("add:%d", int(l.LayerType())))
	t.added = l
}
func (t *tracer) SetLinkLayer(gopacket.LinkLayer)               { t.acts = append(t.acts, "link") }
func (t *tracer) SetNetworkLayer(gopacket.NetworkLayer)         { t.acts = append(t.acts, "net") }
func (t *tracer) SetTransportLayer(gopacket.TransportLayer)     { t.acts = append(t.acts, "transport") }
func (t *tracer) SetApplicationLayer(gopacket.ApplicationLayer) { t.acts = append(t.acts, "app") }
func (t *tracer) SetErrorLayer(gopacket.ErrorLayer)             { t.acts = append(t.acts, "errlayer") }
func (t *tracer) DumpPacketData()                               {}
func (t *tracer) DecodeOptions() *gopacket.DecodeOptions        { return &gopacket.DecodeOptions{} }
func (t *tracer) NextDecoder(next gopacket.Decoder) error {
	switch d := next.(type) {
	case gopacket.LayerType:
		t.tail = fmt.Sprintf("lt:%d", int(d))
	case nil:
		t.tail = "nil"
	default:
		t.tail = "other"
	}
	return nil
}

func opPb(kind string, data []byte) string {
	if newObj(kind) == nil {
		return "bad-op"
	}
	dec := layerTypeOf(kind)
	return guarded("decode function of "+kind, func() string {
		t := &tracer{}
		in := exact(data)
		err := dec.Decode(in, t)
		if kind == "ague" && len(data) > 0 && data[0]>>6 == 1 {
			// decodeAGUE hands variant 1 to decodeAGUEVar1 (ague_var1.go, not this engine): observed as `var1` when
			// what happened is what decodeAGUEVar1 does (an AGUEVar1 layer was added, or an error without any action)
			if (t.added == nil && len(t.acts) == 0 && err != nil) || (t.added != nil && t.added.LayerType() == layers.LayerTypeAGUEVar1) {
				lib.Stat("pb:ague:var1")
				return "acts=- tail=var1"
			}
		}
		tail := t.tail
		if err != nil {
			tail = "fail"
		} else if tail == "" {
			tail = "done"
		}
		acts := "-"
		if len(t.acts) > 0 {
			acts = strings.Join(t.acts, ",")
		}
		lib.Stat("pb:" + kind + ":" + strings.SplitN(tail, ":", 2)[0])
		s := "acts=" + acts + " tail=" + tail
		if t.added != nil {
			var src *mdpSrc
			if ws, ok := mdpWalk(data); ok {
				src = &ws
			}
			s += " | " + render(t.added, src)
			// C05 oracle: the layer added to the packet = a direct fresh DecodeFromBytes (also when that fails: RMCP
			// adds its layer before looking at the error)
			ref := newObj(kind)
			rerr := ref.DecodeFromBytes(exact(data), &feedback{})
			if (rerr != nil) != (err != nil) || differingField(t.added, ref.(gopacket.Layer)) != "" {
				lib.Finding("C05", "lrmcp:pkt-differs", kind+": layer added by the registered decoder differs from a direct fresh DecodeFromBytes")
			}
			if err == nil {
				lib.Nontrivial()
			}
		}
		return s
	})
}

// ---------------------------------------------------------------- NewPacket / DecodingLayerParser

func opPkt(kind, mode string, extra int, foreign, data []byte) string {
	if len(foreign) != extra || (mode != "copy" && mode != "nocopy" && mode != "lazy") || newObj(kind) == nil {
		return "bad-op"
	}
	first := layerTypeOf(kind)
	if len(data) == 0 {
		return "empty"
	}
	build := func(skipRecovery bool) (gopacket.Packet, []gopacket.Layer) {
		opts := gopacket.DecodeOptions{SkipDecodeRecovery: skipRecovery}
		in := exact(data)
		switch mode {
		case "nocopy":
			opts.NoCopy = true
			in = inBuf(data, foreign)
		case "lazy":
			opts.Lazy = true
		}
		p := gopacket.NewPacket(in, first, opts)
		return p, p.Layers()
	}
	var p gopacket.Packet
	var ls []gopacket.Layer
	_, panicked := protect(func() string { p, ls = build(true); return "" })
	if panicked {
		if isOurSite(lastSite) {
			lib.Finding("C19", "lrmcp:panic:"+lastSite, "NewPacket(SkipDecodeRecovery) panicked in this layer: "+lastMsg)
			return "panic " + lib.PanicKind(lastMsg)
		}
		// a decoder of a LATER layer panicked (other engines' business): observe this layer with recovery on
		lib.Stat("pkt:later-layer-panic:" + lastSite)
		p, ls = build(false)
	}
	lib.Stat("pkt:" + kind + ":" + mode)
	if len(ls) == 0 || ls[0].LayerType() != first {
		return "fail"
	}
	// read-only uses of the packet must not panic either (C01 glue for these layers; reported as C19 panics of this engine)
	if _, pk := protect(func() string { _ = p.String(); _ = p.Dump(); return "" }); pk {
		lib.Finding("C19", "lrmcp:render-panic:"+lastSite, "Packet.String/Dump panicked: "+lastMsg)
	} else {
		lib.Stat("pkt:render-ok")
	}
	// oracle: the first layer equals a direct fresh decode
	ref := newObj(kind)
	rerr := ref.DecodeFromBytes(exact(data), &feedback{})
	if (rerr != nil && kind != "rmcp") || differingField(ls[0], ref.(gopacket.Layer)) != "" {
		lib.Finding("C05", "lrmcp:pkt-differs", "first layer built by NewPacket("+mode+") differs from a direct fresh DecodeFromBytes")
	}
	if rerr == nil {
		lib.Nontrivial()
	}
	var src *mdpSrc
	if ws, ok := mdpWalk(data); ok {
		src = &ws
	}
	return "ok " + render(ls[0], src)
}

func opDlp(re bool, kind string, data []byte) string {
	if newObj(kind) == nil || kind == "mdp" {
		return "bad-op"
	}
	if !re {
		newParser()
	}
	parser := parsers[kind]
	first := layerTypeOf(kind)
	return guarded("DecodingLayerParser.DecodeLayers", func() string {
		var decoded []gopacket.LayerType
		in := exact(data)
		err := parser.DecodeLayers(in, &decoded)
		checkEarlier("DecodingLayerParser.DecodeLayers")
		watch(in)
		code := 0
		var unsup gopacket.UnsupportedLayerType
		if errors.As(err, &unsup) {
			code = 2
		} else if err != nil {
			code = 1
		}
		ds := make([]string, len(decoded))
		for i, t := range decoded {
			ds[i] = lib.Itoa(int(t))
		}
		dec := "-"
		if len(ds) > 0 {
			dec = strings.Join(ds, ",")
		}
		lib.Stat(fmt.Sprintf("dlp:%s:layers=%d:code=%d", kind, len(decoded), code))
		if len(decoded) >= 1 {
			lib.Nontrivial()
		}
		// C05 oracle: the run equals the leading run of NewPacket's layers with equal fields
		if len(data) > 0 && !(kind == "ague" && data[0]>>6 == 1) {
			var pl []gopacket.Layer
			var ptr bool
			_, pk := protect(func() string {
				pk := gopacket.NewPacket(exact(data), first, gopacket.DecodeOptions{})
				pl = pk.Layers()
				ptr = pk.Metadata().Truncated
				return ""
			})
			if !pk {
				objs := map[gopacket.LayerType]gopacket.Layer{layers.LayerTypeRMCP: pRmcp, layers.LayerTypeASF: pAsf, layers.LayerTypeAGUEVar0: pAgue}
				for i, t := range decoded {
					if i >= len(pl) || pl[i].LayerType() != t {
						lib.Finding("C05", "lrmcp:dlp-differs", "parser run is not a prefix of the packet's layers")
						break
					}
					if f := differingField(pl[i], objs[t]); f != "" {
						lib.Finding("C05", "lrmcp:dlp-differs", "parser's layer differs from the packet's: "+f)
					}
				}
				// these layers set the truncation flag only together with an error, and a packet accumulates flags of
				// later layers too, so only "parser truncated => packet truncated" is demanded
				if parser.Truncated && !ptr {
					lib.Finding("C05", "lrmcp:dlp-differs", "parser reports truncation, the packet does not")
				}
			}
		}
		return fmt.Sprintf("code=%d decoded=%s trunc=%s | %s | %s | %s", code, dec, b01(parser.Truncated), render(pRmcp, nil), render(pAsf, nil), render(pAgue, nil))
	})
}

// ---------------------------------------------------------------- tables

func opClassTab() string {
	var rows []string
	for c := 0; c < 16; c++ {
		lt := layers.RMCPClass(c).LayerType()
		if lt != gopacket.LayerTypePayload {
			rows = append(rows, fmt.Sprintf("%d:%d", c, int(lt)))
		}
	}
	at := func(c int) (s string) {
		defer func() {
			if recover() != nil {
				s = "panic"
			}
		}()
		return strconv.Itoa(int(layers.RMCPClass(c).LayerType()))
	}
	lib.Stat("classtab")
	return "ok " + strings.Join(rows, ",") + " 16=" + at(16) + " 255=" + at(255)
}

func opAsfTab(ent, typ int64) string {
	lib.Stat("asftab")
	return fmt.Sprintf("ok %d", int(layers.ASFDataIdentifier{Enterprise: uint32(ent), Type: uint8(typ)}.LayerType()))
}

func opIpTab() string {
	type row struct{ k, v int }
	var rs []row
	for i := 0; i < 256; i++ {
		if lt := layers.IPProtocol(i).LayerType(); lt != gopacket.LayerTypeZero {
			rs = append(rs, row{i, int(lt)})
		}
	}
	sort.Slice(rs, func(a, b int) bool { return rs[a].k < rs[b].k })
	var rows []string
	for _, r := range rs {
		rows = append(rows, fmt.Sprintf("%d:%d", r.k, r.v))
	}
	lib.Stat("iptab")
	return "ok " + strings.Join(rows, ",")
}

// ---------------------------------------------------------------- dispatcher

func exec(a []string) string {
	if len(a) < 2 || a[0] != "lrmcp" {
		return "bad-op"
	}
	switch a[1] {
	case "dec":
		if len(a) != 6 {
			return "bad-op"
		}
		extra, ok1 := lib.Atoi(a[3])
		foreign, ok2 := lib.UnHex(a[4])
		data, ok3 := lib.UnHex(a[5])
		if !ok1 || !ok2 || !ok3 || extra < 0 {
			return "bad-op"
		}
		return opDec(a[2], extra, foreign, data)
	case "redec":
		if len(a) != 4 {
			return "bad-op"
		}
		data, ok := lib.UnHex(a[3])
		if !ok {
			return "bad-op"
		}
		return opRedec(a[2], data)
	case "ser":
		if len(a) < 4 {
			return "bad-op"
		}
		return opSer(a[2], a[3:])
	case "rt":
		if len(a) < 4 {
			return "bad-op"
		}
		return opRt(a[2], a[3:])
	case "rtdec":
		if len(a) != 4 {
			return "bad-op"
		}
		data, ok := lib.UnHex(a[3])
		if !ok {
			return "bad-op"
		}
		return opRtDec(a[2], data)
	case "pb":
		if len(a) != 4 {
			return "bad-op"
		}
		data, ok := lib.UnHex(a[3])
		if !ok {
			return "bad-op"
		}
		return opPb(a[2], data)
	case "pkt":
		if len(a) != 7 {
			return "bad-op"
		}
		extra, ok1 := lib.Atoi(a[4])
		foreign, ok2 := lib.UnHex(a[5])
		data, ok3 := lib.UnHex(a[6])
		if !ok1 || !ok2 || !ok3 || extra < 0 {
			return "bad-op"
		}
		return opPkt(a[2], a[3], extra, foreign, data)
	case "dlp", "redlp":
		if len(a) != 4 {
			return "bad-op"
		}
		data, ok := lib.UnHex(a[3])
		if !ok {
			return "bad-op"
		}
		return opDlp(a[1] == "redlp", a[2], data)
	case "classtab":
		if len(a) != 2 {
			return "bad-op"
		}
		return opClassTab()
	case "asftab":
		if len(a) != 4 {
			return "bad-op"
		}
		ent, ok1 := atoiBelow(a[2], 1<<32)
		typ, ok2 := atoiBelow(a[3], 256)
		if !ok1 || !ok2 {
			return "bad-op"
		}
		return opAsfTab(ent, typ)
	case "iptab":
		if len(a) != 2 {
			return "bad-op"
		}
		return opIpTab()
	}
	return "bad-op"
}

func main() {
	reset()
	lib.Main(lib.Engine{Name: "lrmcp", Gen: gen, Reset: reset, Exec: exec})
}
