package main

import (
	"fmt"
	"go/ast"
	goparser "go/parser"
	"go/token"
	"net"
	"os"
	"path/filepath"
	"sort"
	"strconv"

	"github.com/gopacket/gopacket"
	"github.com/gopacket/gopacket/layers"
	"verif/harness/lib"
)

// ---------------------------------------------------------------- fixtures

// literals collects every `[]byte{…}` literal (all elements literal) from the repository's own
// layers/*_test.go files.
func literals() [][]byte {
	repo := os.Getenv("VERIF_REPO")
	if repo == "" {
		repo = "/repo"
	}
	files, _ := filepath.Glob(filepath.Join(repo, "layers", "*_test.go"))
	sort.Strings(files)
	var out [][]byte
	fset := token.NewFileSet()
	for _, fn := range files {
		f, err := goparser.ParseFile(fset, fn, nil, 0)
		if err != nil {
			continue
		}
		ast.Inspect(f, func(n ast.Node) bool {
			cl, ok := n.(*ast.CompositeLit)
			if !ok {
				return true
			}
			at, ok := cl.Type.(*ast.ArrayType)
			if !ok || at.Len != nil {
				return true
			}
			id, ok := at.Elt.(*ast.Ident)
			if !ok || (id.Name != "byte" && id.Name != "uint8") {
				return true
			}
			b := make([]byte, 0, len(cl.Elts))
			for _, e := range cl.Elts {
				bl, ok := e.(*ast.BasicLit)
				if !ok {
					return true
				}
				switch bl.Kind {
				case token.INT:
					v, err := strconv.ParseUint(bl.Value, 0, 8)
					if err != nil {
						return true
					}
					b = append(b, byte(v))
				case token.CHAR:
					s, err := strconv.Unquote(bl.Value)
					if err != nil || len(s) != 1 {
						return true
					}
					b = append(b, s[0])
				default:
					return true
				}
			}
			if len(b) >= 4 && len(b) <= 1600 {
				out = append(out, b)
			}
			return true
		})
	}
	return out
}

type fixtures struct{ m map[string][][]byte }

func (f *fixtures) of(kind string) [][]byte { return f.m[kind] }
func (f *fixtures) add(kind string, b []byte) {
	if b != nil {
		f.m[kind] = append(f.m[kind], b)
	}
}

// harvest decodes every test literal of the repository with several first decoders (recovery on) and
// keeps the bytes (contents ++ payload) of every RMCP / ASF / AGUEVar0 / MDP layer found in them.
func harvest(fx *fixtures) {
	seen := map[string]bool{}
	add := func(kind string, b []byte) {
		if len(b) > 600 {
			b = b[:600]
		}
		k := kind + string(b)
		if !seen[k] {
			seen[k] = true
			fx.add(kind, append([]byte(nil), b...))
		}
	}
	firsts := []gopacket.Decoder{layers.LayerTypeEthernet, layers.LayerTypeRadioTap, layers.LayerTypeIPv4, layers.LayerTypeUDP, layers.LayerTypeLLC,
		layers.LayerTypeRMCP, layers.LayerTypeASF, layers.LayerTypeAGUEVar0, layers.LayerTypeMDP}
	for _, lit := range literals() {
		for _, first := range firsts {
			func() {
				defer func() { recover() }()
				p := gopacket.NewPacket(lit, first, gopacket.DecodeOptions{})
				if p.ErrorLayer() != nil && (first == layers.LayerTypeRMCP || first == layers.LayerTypeASF || first == layers.LayerTypeAGUEVar0 || first == layers.LayerTypeMDP) {
					return // arbitrary bytes read as one of our types: only keep clean decodes
				}
				for _, l := range p.Layers() {
					all := append(append([]byte(nil), l.LayerContents()...), l.LayerPayload()...)
					switch l.LayerType() {
					case layers.LayerTypeRMCP:
						add("rmcp", all)
					case layers.LayerTypeASF:
						add("asf", all)
					case layers.LayerTypeAGUEVar0:
						add("ague", all)
					case layers.LayerTypeMDP:
						add("mdp", l.LayerContents())
					}
				}
			}()
		}
	}
}

func tlv(t byte, v string) []byte { return append([]byte{t, byte(len(v))}, v...) }

var floatStrs = []string{"37.7749", "-122.4194", "0", "-0", "1e5", "1E-3", "abc", "", "nan", "NaN", "inf", "-Inf", "+Infinity", "0x1p-2", "1_000.5", "1e400", "4.9e-324",
	"179.99999999999997", ".5", "5.", "--1", "1.7976931348623157e308", "00012.50"}
var ipStrs = []string{"10.0.0.1", "192.168.1.254", "255.255.255.255", "0.0.0.0", "1.2.3", "1.2.3.4.5", "256.1.1.1", "01.2.3.4", "fe80::1", "::", "::ffff:1.2.3.4", "2001:db8::8:800:200c:417a",
	"fe80::1%eth0", "", "x", "1.2.3.4 "}
var boolStrs = []string{"true", "false", "1", "0", "t", "f", "T", "F", "TRUE", "FALSE", "True", "False", "yes", "", "tRuE", "2"}
var textStrs = []string{"MR18", "Meraki MR42 Cloud Managed AP", "office-net", "", "00000000-0000-0000-0000-000000000000", "a", "\x00\xff"}

func pickS(r *lib.Rand, xs []string) string { return xs[r.Intn(len(xs))] }

// mdpFrame: a 28-byte preamble followed by a random TLV list (well-formed unless `bad`).
func mdpFrame(r *lib.Rand, n int, bad bool) []byte {
	f := r.Bytes(28)
	for i := 0; i < n; i++ {
		switch r.Intn(12) {
		case 0:
			f = append(f, tlv(2, pickS(r, textStrs))...)
		case 1:
			f = append(f, tlv(3, pickS(r, textStrs))...)
		case 2:
			f = append(f, tlv(4, pickS(r, floatStrs))...)
		case 3:
			f = append(f, tlv(5, pickS(r, floatStrs))...)
		case 4:
			f = append(f, tlv(6, pickS(r, textStrs))...)
		case 5:
			f = append(f, tlv(7, pickS(r, textStrs))...)
		case 6:
			f = append(f, tlv(11, pickS(r, ipStrs))...)
		case 7:
			f = append(f, tlv(13, pickS(r, boolStrs))...)
		case 8:
			f = append(f, tlv(byte(r.Pick([]int{0, 1, 8, 9, 10, 12, 14, 200, 254})), string(r.Bytes(r.Intn(6))))...)
		case 9:
			f = append(f, tlv(byte(r.Pick([]int{2, 3, 4, 5, 6, 7, 11, 13})), string(r.Bytes(r.Intn(5))))...)
		case 10:
			if r.Chance(30) {
				f = append(f, 255)
				f = append(f, r.Bytes(r.Intn(4))...) // junk behind the end marker is never looked at
				return f
			}
			f = append(f, tlv(4, strconv.FormatFloat(float64(r.Intn(360000))/1000-180, 'f', -1, 64))...)
		case 11:
			f = append(f, tlv(11, net.IP(r.Bytes(4)).String())...)
		}
	}
	if bad {
		switch r.Intn(4) {
		case 0:
			f = append(f, byte(r.Pick([]int{2, 4, 11, 13, 0, 77}))) // type byte only
		case 1:
			f = append(f, byte(r.Pick([]int{2, 5, 11, 13, 1})), byte(1+r.Intn(255))) // length beyond the end
		case 2:
			v := r.Bytes(1 + r.Intn(6))
			f = append(append(f, byte(r.Pick([]int{3, 4, 7, 99})), byte(len(v)+1+r.Intn(3))), v...) // value cut short
		case 3:
			f = append(f, byte(r.Pick([]int{2, 13})), 0) // zero-length value at the very end (well-formed)
		}
	} else if r.Chance(50) {
		f = append(f, 255)
	}
	return f
}

// built fixtures: packets produced by the repository's own serializers (+ hand-made variants).
func built(r *lib.Rand, fx *fixtures) {
	ser := func(ls ...gopacket.SerializableLayer) (out []byte) {
		defer func() { // a panicking serializer must not kill the generator: the executor's monitors report it
			if recover() != nil {
				out = nil
			}
		}()
		b := gopacket.NewSerializeBuffer()
		if err := gopacket.SerializeLayers(b, gopacket.SerializeOptions{FixLengths: true, ComputeChecksums: true}, ls...); err != nil {
			return nil
		}
		return append([]byte(nil), b.Bytes()...)
	}
	ping := &layers.ASF{ASFDataIdentifier: layers.ASFDataIdentifierPresencePing, Tag: 7}
	pong := &layers.ASF{ASFDataIdentifier: layers.ASFDataIdentifierPresencePong, Tag: 7}
	for _, n := range []int{0, 1, 16, 33} {
		fx.add("rmcp", ser(&layers.RMCP{Version: layers.RMCPVersion1, Sequence: 1, Class: layers.RMCPClassASF}, ping, gopacket.Payload(r.Bytes(n))))
		fx.add("rmcp", ser(&layers.RMCP{Version: layers.RMCPVersion1, Sequence: 0xff, Class: layers.RMCPClassASF}, pong, gopacket.Payload(r.Bytes(n))))
		fx.add("rmcp", ser(&layers.RMCP{Version: layers.RMCPVersion1, Sequence: 2, Ack: true, Class: layers.RMCPClassASF}, gopacket.Payload(r.Bytes(n))))
		fx.add("rmcp", ser(&layers.RMCP{Version: layers.RMCPVersion1, Sequence: 3, Class: layers.RMCPClassIPMI}, gopacket.Payload(r.Bytes(n))))
		fx.add("rmcp", ser(&layers.RMCP{Version: 5, Sequence: 4, Ack: true, Class: layers.RMCPClassOEM}, gopacket.Payload(r.Bytes(n))))
		fx.add("rmcp", ser(&layers.RMCP{Version: 0xff, Sequence: 0xfe, Ack: true, Class: 15}, gopacket.Payload(r.Bytes(n))))
		fx.add("asf", ser(ping, gopacket.Payload(r.Bytes(n))))
		fx.add("asf", ser(pong, gopacket.Payload(r.Bytes(n))))
		fx.add("asf", ser(&layers.ASF{ASFDataIdentifier: layers.ASFDataIdentifier{Enterprise: 0xffffffff, Type: 0x40}, Tag: 0xff}, gopacket.Payload(r.Bytes(n))))
		fx.add("asf", ser(&layers.ASF{ASFDataIdentifier: layers.ASFDataIdentifier{Enterprise: 4542, Type: 0x12}, Tag: 0}, gopacket.Payload(r.Bytes(n))))
	}
	// a full Presence Pong (16 data bytes)
	fx.add("rmcp", ser(&layers.RMCP{Version: layers.RMCPVersion1, Sequence: 0xff, Class: layers.RMCPClassASF}, pong,
		gopacket.Payload([]byte{0, 0, 0x11, 0xbe, 0, 0, 0, 0, 0x81, 0, 0, 0, 0, 0, 0, 0})))
	fx.add("asf", ser(pong, gopacket.Payload(r.Bytes(255))))
	fx.add("asf", ser(pong, gopacket.Payload(r.Bytes(256))))
	fx.add("asf", ser(pong, gopacket.Payload(r.Bytes(300))))

	ip4 := &layers.IPv4{Version: 4, IHL: 5, TTL: 64, Protocol: layers.IPProtocolUDP, SrcIP: net.IP{10, 0, 0, 1}, DstIP: net.IP{10, 0, 0, 2}}
	udp4 := &layers.UDP{SrcPort: 1000, DstPort: 2000}
	udp4.SetNetworkLayerForChecksum(ip4)
	ip6 := &layers.IPv6{Version: 6, HopLimit: 64, NextHeader: layers.IPProtocolUDP, SrcIP: net.ParseIP("fe80::1"), DstIP: net.ParseIP("fe80::2")}
	udp6 := &layers.UDP{SrcPort: 1000, DstPort: 2000}
	udp6.SetNetworkLayerForChecksum(ip6)
	for _, n := range []int{0, 1, 17} {
		for _, el := range []int{0, 1, 4, 8, 31} {
			fx.add("ague", ser(&layers.AGUEVar0{Version: 0, Protocol: layers.IPProtocolIPv4, Extensions: r.Bytes(el)}, ip4, udp4, gopacket.Payload(r.Bytes(n))))
			fx.add("ague", ser(&layers.AGUEVar0{Version: 0, C: true, Protocol: layers.IPProtocolIPv6, Flags: 0x8001, Extensions: r.Bytes(el)}, ip6, udp6, gopacket.Payload(r.Bytes(n))))
			fx.add("ague", ser(&layers.AGUEVar0{Version: uint8(r.Pick([]int{0, 2, 3})), Protocol: layers.IPProtocol(r.Intn(256)), Flags: uint16(r.Intn(65536)), Extensions: r.Bytes(el)}, gopacket.Payload(r.Bytes(n))))
		}
	}
	fx.add("ague", []byte{0x40, 0x45, 0, 0}) // variant 1
	fx.add("ague", []byte{0x60, 0x45, 0, 0}) // variant 1, IP version 6

	for i := 0; i < 40; i++ {
		fx.add("mdp", mdpFrame(r, r.Intn(7), false))
	}
	fx.add("mdp", r.Bytes(28))
	fx.add("mdp", append(r.Bytes(28), 255))
	fx.add("mdp", append(append(r.Bytes(28), tlv(2, "MR18")...), tlv(4, "37.7749")...))
}

func hx(b []byte) string { return lib.Hex(b) }

func setByte(b []byte, off int, v int) []byte {
	c := append([]byte(nil), b...)
	if off < len(c) {
		c[off] = byte(v)
	}
	return c
}

// ---------------------------------------------------------------- generator

func gen(r *lib.Rand, tier string, emit func(string)) {
	thorough := tier == "thorough"
	emit("reset")
	emit("lrmcp classtab")
	emit("lrmcp iptab")
	for _, e := range []int{4542, 0, 1, 4541, 4543, 0xffffffff} {
		for _, t := range []int{0x40, 0x80, 0, 0x41, 0x3f, 0xff} {
			emit(fmt.Sprintf("lrmcp asftab %d %d", e, t))
		}
	}

	fx := &fixtures{m: map[string][][]byte{}}
	built(r, fx)
	harvest(fx)
	for _, k := range kinds { // never leave a kind empty (the serializers under test may be broken)
		var keep [][]byte
		for _, f := range fx.of(k) {
			if len(f) >= 4 {
				keep = append(keep, f)
			}
		}
		if len(keep) == 0 {
			keep = [][]byte{append([]byte{6, 0, 1, 6, 0, 0, 0x11, 0xbe, 0x80, 7, 0, 0}, make([]byte, 20)...)}
		}
		fx.m[k] = keep
	}
	foreignOf := func(n int) []byte { return r.Bytes(n) }
	for _, k := range kinds {
		fs := fx.of(k)
		for i := len(fs) - 1; i > 0; i-- { // seeded shuffle: different seeds favour different fixtures
			j := r.Intn(i + 1)
			fs[i], fs[j] = fs[j], fs[i]
		}
	}
	lim := func(n, quick int) int {
		if !thorough && n > quick {
			return quick
		}
		return n
	}
	isDlp := func(k string) bool { return k != "mdp" }

	// A. every fixture through every decode path
	for _, k := range kinds {
		fs := fx.of(k)
		for i := 0; i < lim(len(fs), 50); i++ {
			f := fs[i]
			emit("reset")
			emit(fmt.Sprintf("lrmcp dec %s 0 - %s", k, hx(f)))
			n := 1 + r.Intn(40)
			emit(fmt.Sprintf("lrmcp dec %s %d %s %s", k, n, hx(foreignOf(n)), hx(f)))
			emit(fmt.Sprintf("lrmcp pb %s %s", k, hx(f)))
			emit(fmt.Sprintf("lrmcp pkt %s copy 0 - %s", k, hx(f)))
			emit(fmt.Sprintf("lrmcp pkt %s nocopy %d %s %s", k, n, hx(foreignOf(n)), hx(f)))
			emit(fmt.Sprintf("lrmcp pkt %s lazy 0 - %s", k, hx(f)))
			if isDlp(k) {
				emit(fmt.Sprintf("lrmcp dlp %s %s", k, hx(f)))
			}
			emit(fmt.Sprintf("lrmcp rtdec %s %s", k, hx(f)))
			// the same bytes as every other type of this engine
			for _, k2 := range kinds {
				if k2 != k {
					emit(fmt.Sprintf("lrmcp dec %s %d %s %s", k2, n, hx(foreignOf(n)), hx(f)))
					if isDlp(k2) {
						emit(fmt.Sprintf("lrmcp rtdec %s %s", k2, hx(f)))
					}
				}
			}
		}
	}

	// B. truncations 0…len of each fixture (all for short ones, head and tail otherwise), with spare capacity
	for _, k := range kinds {
		fs := fx.of(k)
		for i := 0; i < lim(len(fs), 30); i++ {
			f := fs[i]
			emit("reset")
			for n := 0; n <= len(f); n++ {
				if !(n <= 64 || n >= len(f)-2 || (thorough && len(f) <= 600) || r.Chance(3)) {
					continue
				}
				t := f[:n]
				c := r.Intn(12)
				emit(fmt.Sprintf("lrmcp dec %s %d %s %s", k, c, hx(foreignOf(c)), hx(t)))
				if n <= 12 || r.Chance(25) {
					emit(fmt.Sprintf("lrmcp pb %s %s", k, hx(t)))
					emit(fmt.Sprintf("lrmcp pkt %s nocopy %d %s %s", k, c, hx(foreignOf(c)), hx(t)))
					if isDlp(k) {
						emit(fmt.Sprintf("lrmcp redlp %s %s", k, hx(t)))
					}
					emit(fmt.Sprintf("lrmcp redec %s %s", k, hx(t)))
				}
			}
		}
	}

	// C. single-field mutations to boundary values
	// RMCP: every value of the class/ack byte and of the version byte, over an ASF ping and over junk
	for _, bg := range [][]byte{{6, 0, 1, 6, 0, 0, 0x11, 0xbe, 0x80, 7, 0, 0}, {6, 0xff, 0xff, 0, 0xde, 0xad}, append([]byte{0, 0, 0, 0}, r.Bytes(9)...)} {
		emit("reset")
		for v := 0; v < 256; v++ {
			m := setByte(bg, 3, v)
			emit("lrmcp redec rmcp " + hx(m))
			if v%8 == 6 || v < 17 || thorough {
				emit("lrmcp rtdec rmcp " + hx(m))
				emit("lrmcp pb rmcp " + hx(m))
				emit("lrmcp redlp rmcp " + hx(m))
			}
			if v%5 == 0 || thorough {
				emit("lrmcp redec rmcp " + hx(setByte(bg, 0, v)))
				emit("lrmcp redec rmcp " + hx(setByte(bg, 1, v)))
				emit("lrmcp rtdec rmcp " + hx(setByte(bg, 2, v)))
			}
		}
	}
	// ASF: the identifier bytes around (4542, 0x40), every length byte
	for _, bg := range [][]byte{{0, 0, 0x11, 0xbe, 0x40, 7, 0, 16, 0, 0, 0x11, 0xbe, 0, 0, 0, 0, 0x81, 0, 0, 0, 0, 0, 0, 0}, {0, 0, 0x11, 0xbe, 0x80, 0xff, 0, 0}, r.Bytes(13)} {
		emit("reset")
		for off := 0; off < 8; off++ {
			for v := 0; v < 256; v++ {
				if !thorough && !(v < 3 || v > 252 || v&(v-1) == 0 || v == 0x11 || v == 0xbe || v == 0x40 || v == 0x80 || r.Chance(8)) {
					continue
				}
				m := setByte(bg, off, v)
				emit("lrmcp redec asf " + hx(m))
				if thorough || r.Chance(30) {
					emit("lrmcp rtdec asf " + hx(m))
					emit("lrmcp pb asf " + hx(m))
					emit("lrmcp redlp asf " + hx(m))
				}
			}
		}
	}
	// AGUEVar0: every value of the first byte (version, C, hlen) against inputs of every length 0…40
	{
		base := append([]byte{0, 4, 0x12, 0x34}, r.Bytes(40)...)
		for v := 0; v < 256; v++ {
			emit("reset")
			for n := 0; n <= len(base); n++ {
				if !thorough && !(n <= 5 || n == 4+(v&0x1f)-1 || n == 4+(v&0x1f) || n == 4+(v&0x1f)+1 || r.Chance(6)) {
					continue
				}
				m := setByte(base[:n], 0, v)
				c := r.Intn(40)
				emit(fmt.Sprintf("lrmcp dec ague %d %s %s", c, hx(foreignOf(c)), hx(m)))
				if r.Chance(35) {
					emit("lrmcp redec ague " + hx(m))
					emit("lrmcp rtdec ague " + hx(m))
					emit("lrmcp pb ague " + hx(m))
					emit("lrmcp redlp ague " + hx(m))
					emit(fmt.Sprintf("lrmcp pkt ague nocopy %d %s %s", c, hx(foreignOf(c)), hx(m)))
				}
			}
		}
		emit("reset")
		for v := 0; v < 256; v++ { // every protocol number
			emit("lrmcp redec ague " + hx([]byte{0, byte(v), 0, 0, 0x45}))
			if v%7 == 4 || thorough {
				emit("lrmcp pb ague " + hx([]byte{0, byte(v), 0, 0, 0x45}))
			}
		}
	}
	// MDP: TLV lists of every kind incl. malformed lengths
	nm := 300
	if thorough {
		nm = 8000
	}
	for c := 0; c < nm; c++ {
		emit("reset")
		f := mdpFrame(r, r.Intn(8), r.Chance(35))
		sp := r.Intn(30)
		emit(fmt.Sprintf("lrmcp dec mdp %d %s %s", sp, hx(foreignOf(sp)), hx(f)))
		emit("lrmcp redec mdp " + hx(mdpFrame(r, r.Intn(5), r.Chance(25))))
		emit("lrmcp redec mdp " + hx(f))
		if r.Chance(40) {
			emit("lrmcp pb mdp " + hx(f))
			emit(fmt.Sprintf("lrmcp pkt mdp nocopy %d %s %s", sp, hx(foreignOf(sp)), hx(f)))
		}
		if len(f) > 30 && r.Chance(50) { // one length byte changed
			off := 28
			for k := r.Intn(4); k > 0 && off+1 < len(f) && f[off] != 255 && off+2+int(f[off+1])+1 < len(f); k-- {
				off += 2 + int(f[off+1])
			}
			if off+1 < len(f) {
				m := setByte(f, off+1, r.Pick([]int{0, 1, int(f[off+1]) + 1, len(f) - off - 2, len(f) - off - 1, 255}))
				emit("lrmcp redec mdp " + hx(m))
				emit(fmt.Sprintf("lrmcp dec mdp %d %s %s", sp, hx(foreignOf(sp)), hx(m)))
			}
		}
	}

	// D. stale-state sequences: ordered pairs…quintuples into the same objects (direct and via the parser)
	nseq := 150
	if thorough {
		nseq = 3000
	}
	pick := func(k string) []byte {
		fs := fx.of(k)
		f := fs[r.Intn(len(fs))]
		switch r.Intn(8) {
		case 0:
			return f[:r.Intn(len(f)+1)] // truncated (maybe an error)
		case 1:
			if len(f) >= 8 {
				return setByte(f, r.Intn(8), r.Intn(256))
			}
			return f[:r.Intn(len(f)+1)]
		case 2:
			return f[:r.Intn(4)] // always an error
		case 3:
			return r.Bytes(r.Intn(40))
		case 4:
			if k == "mdp" {
				return mdpFrame(r, r.Intn(6), r.Chance(30))
			}
		}
		return f
	}
	for c := 0; c < nseq; c++ {
		emit("reset")
		n := 2 + r.Intn(4)
		for i := 0; i < n; i++ {
			k := kinds[r.Intn(len(kinds))]
			f := pick(k)
			if len(f) > 400 {
				f = f[:400]
			}
			if r.Chance(30) {
				sp := 1 + r.Intn(60) // an earlier packet in a buffer with room behind it (where the next packet may live)
				emit(fmt.Sprintf("lrmcp dec %s %d %s %s", k, sp, hx(foreignOf(sp)), hx(f)))
				f = pick(k)
			}
			emit(fmt.Sprintf("lrmcp redec %s %s", k, hx(f)))
			if isDlp(k) {
				emit(fmt.Sprintf("lrmcp redlp %s %s", k, hx(f)))
			}
		}
	}

	// E. serialisation: in-range and out-of-range layer values, all four option sets, buffer histories
	psizes := []int{0, 1, 2, 3, 17, 18, 19, 101, 255, 256, 257, 1480, 1499, 1500, 1501, 1520}
	hists := []string{"fresh", "dirty165", "dirty90", "dirty255", "sized0", "sized8", "sized60", "sized3000"}
	nser := 400
	if thorough {
		nser = 12000
	}
	payloadTok := func(n int) string {
		if n > 200 && r.Chance(70) {
			return fmt.Sprintf("z%dx%02x", n, r.Intn(256))
		}
		return hx(r.Bytes(n))
	}
	rmcpFields := func() string {
		cls := r.Pick([]int{6, 7, 8, 0, 15, r.Intn(16)})
		if r.Chance(20) { // out of range: spills into the reserved bits / the Ack bit
			cls = r.Pick([]int{16, 17, 0x7f, 0x80, 0x86, 0xff, 16 + r.Intn(240)})
		}
		return fmt.Sprintf("%d %d %d %d", r.Pick([]int{6, 0, 5, 255, r.Intn(256)}), r.Pick([]int{0, 1, 254, 255, r.Intn(256)}), r.Intn(2), cls)
	}
	asfFields := func() string {
		ent := r.Pick([]int{4542, 0, 1, 0xffffffff, 0x12345678, r.Intn(1 << 32)})
		return fmt.Sprintf("%d %d %d %d", ent, r.Pick([]int{0x40, 0x80, 0x12, 0, 255, r.Intn(256)}), r.Intn(256), r.Pick([]int{0, 16, 255, r.Intn(256)}))
	}
	agueFields := func() string {
		ver := r.Pick([]int{0, 0, 2, 3})
		el := r.Pick([]int{0, 0, 1, 4, 8, 30, 31, r.Intn(32)})
		if r.Chance(20) { // out of range
			switch r.Intn(2) {
			case 0:
				ver = r.Pick([]int{1, 4, 5, 7, 255, r.Intn(256)}) // 1 = the other variant's number; ≥ 4 does not fit two bits
			case 1:
				el = r.Pick([]int{32, 33, 63, 64, 255, 256, 257, 300}) // does not fit five bits / uint8
			}
		}
		return fmt.Sprintf("%d %d %d %d %s", ver, r.Intn(2), r.Pick([]int{4, 41, 17, 0, 255, r.Intn(256)}), r.Pick([]int{0, 1, 0x8000, 0xffff, r.Intn(65536)}), hx(r.Bytes(el)))
	}
	for c := 0; c < nser; c++ {
		emit("reset")
		n := r.Pick(psizes)
		if r.Chance(25) {
			n = r.Intn(1600)
		}
		rf := rmcpFields()
		emit(fmt.Sprintf("lrmcp ser rmcp %d %d %s %s %s", r.Intn(2), r.Intn(2), hists[r.Intn(len(hists))], rf, payloadTok(n)))
		if r.Chance(70) {
			emit(fmt.Sprintf("lrmcp rt rmcp %s %s", rf, payloadTok(n)))
		}
		af := asfFields()
		n = r.Pick(psizes)
		emit(fmt.Sprintf("lrmcp ser asf %d %d %s %s %s", r.Intn(2), r.Intn(2), hists[r.Intn(len(hists))], af, payloadTok(n)))
		if r.Chance(70) {
			emit(fmt.Sprintf("lrmcp rt asf %s %s", af, payloadTok(r.Pick(psizes))))
		}
		gf := agueFields()
		emit(fmt.Sprintf("lrmcp ser ague %d %d %s %s %s", r.Intn(2), r.Intn(2), hists[r.Intn(len(hists))], gf, payloadTok(r.Pick(psizes))))
		if r.Chance(70) {
			emit(fmt.Sprintf("lrmcp rt ague %s %s", gf, payloadTok(r.Pick(psizes))))
		}
		if r.Chance(10) {
			emit(fmt.Sprintf("lrmcp ser mdp %d %d %s %s", r.Intn(2), r.Intn(2), hists[r.Intn(len(hists))], payloadTok(r.Pick(psizes))))
		}
	}
	// every RMCP class value x ack, every AGUE version/C/extension-length triple in range
	emit("reset")
	for v := 0; v < 256; v++ {
		emit(fmt.Sprintf("lrmcp rt rmcp 6 %d %d %d %s", v, v&1, v, hx(r.Bytes(r.Intn(4)))))
	}
	emit("reset")
	for ver := 0; ver < 4; ver++ {
		for cbit := 0; cbit < 2; cbit++ {
			for el := 0; el < 34; el++ {
				if thorough || el < 3 || el > 29 || r.Chance(20) {
					emit(fmt.Sprintf("lrmcp rt ague %d %d 4 %d %s %s", ver, cbit, r.Intn(65536), hx(r.Bytes(el)), hx(r.Bytes(r.Intn(4)))))
				}
			}
		}
	}
	// every {fix,csum} x every history on fixed shapes
	for _, n := range []int{0, 5, 255, 256, 1500} {
		for fix := 0; fix < 2; fix++ {
			for cs := 0; cs < 2; cs++ {
				emit("reset")
				for _, h := range hists {
					emit(fmt.Sprintf("lrmcp ser rmcp %d %d %s 6 255 1 6 %s", fix, cs, h, payloadTok(n)))
					emit(fmt.Sprintf("lrmcp ser asf %d %d %s 4542 128 7 99 %s", fix, cs, h, payloadTok(n)))
					emit(fmt.Sprintf("lrmcp ser ague %d %d %s 0 1 4 32769 0a0b0c0d %s", fix, cs, h, payloadTok(n)))
					emit(fmt.Sprintf("lrmcp ser mdp %d %d %s %s", fix, cs, h, payloadTok(n)))
				}
			}
		}
	}
	// payloads beyond 64 KiB (none of the headers limits the payload; ASF's one-byte Length wraps)
	big := []int{65535, 65536, 65537, 70000}
	if !thorough {
		big = []int{65537}
	}
	for _, n := range big {
		emit("reset")
		emit(fmt.Sprintf("lrmcp ser asf 1 1 dirty165 4542 128 7 0 z%dx5a", n))
		emit(fmt.Sprintf("lrmcp rt rmcp 6 1 0 6 z%dx5a", n))
		emit(fmt.Sprintf("lrmcp rt asf 4542 64 7 0 z%dx5a", n))
		emit(fmt.Sprintf("lrmcp rt ague 0 0 4 0 0102 z%dx5a", n))
	}

	// F. malformed stream: random bytes of every small length, as every type
	nmal := 250
	if thorough {
		nmal = 8000
	}
	for c := 0; c < nmal; c++ {
		emit("reset")
		n := r.Intn(48)
		if r.Chance(10) {
			n = r.Intn(1100)
		}
		d := r.Bytes(n)
		if n >= 4 && r.Chance(50) { // plausible RMCP / AGUE first bytes
			d[0], d[3] = byte(r.Pick([]int{6, 0, 0x20, 0x1f, 0x9f, 0x41})), byte(r.Pick([]int{6, 0x86, 7, 0x0f, 0xff}))
		}
		if n >= 30 && r.Chance(40) { // a plausible first MDP TLV
			d[28], d[29] = byte(r.Pick([]int{2, 4, 11, 13, 255, 9})), byte(r.Intn(n-29))
		}
		sp := r.Intn(20)
		for _, k := range kinds {
			emit(fmt.Sprintf("lrmcp dec %s %d %s %s", k, sp, hx(foreignOf(sp)), hx(d)))
			if isDlp(k) {
				emit(fmt.Sprintf("lrmcp dlp %s %s", k, hx(d)))
				emit(fmt.Sprintf("lrmcp rtdec %s %s", k, hx(d)))
			}
			if r.Chance(30) {
				emit(fmt.Sprintf("lrmcp pkt %s nocopy %d %s %s", k, sp, hx(foreignOf(sp)), hx(d)))
				emit(fmt.Sprintf("lrmcp pb %s %s", k, hx(d)))
			}
		}
	}
	// unparseable ops: both sides answer bad-op
	emit("reset")
	emit("lrmcp dec rmcp x - 00")
	emit("lrmcp dec fddi 0 - 00")
	emit("lrmcp ser rmcp 1 1 fresh 1 2 3")
	emit("lrmcp rt mdp -")
	emit("lrmcp nonsense")
}
