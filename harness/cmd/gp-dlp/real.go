package main

// (b) REAL layers of the common stack: DecodingLayerParser over every subset of the stack's decoding
// layers and every container kind, compared with gopacket.NewPacket (monitor-only ops, no model).

import (
	"errors"
	"fmt"
	"reflect"
	"strings"

	"github.com/gopacket/gopacket"
	"github.com/gopacket/gopacket/layers"
	"verif/harness/lib"
)

type stackEnt struct {
	name string
	typ  gopacket.LayerType
	mk   func() gopacket.DecodingLayer
}

var stack = []stackEnt{
	{"Ethernet", layers.LayerTypeEthernet, func() gopacket.DecodingLayer { return &layers.Ethernet{} }},
	{"Dot1Q", layers.LayerTypeDot1Q, func() gopacket.DecodingLayer { return &layers.Dot1Q{} }},
	{"IPv4", layers.LayerTypeIPv4, func() gopacket.DecodingLayer { return &layers.IPv4{} }},
	{"IPv6", layers.LayerTypeIPv6, func() gopacket.DecodingLayer { return &layers.IPv6{} }},
	{"TCP", layers.LayerTypeTCP, func() gopacket.DecodingLayer { return &layers.TCP{} }},
	{"UDP", layers.LayerTypeUDP, func() gopacket.DecodingLayer { return &layers.UDP{} }},
	{"DNS", layers.LayerTypeDNS, func() gopacket.DecodingLayer { return &layers.DNS{} }},
	{"Payload", gopacket.LayerTypePayload, func() gopacket.DecodingLayer { p := gopacket.Payload(nil); return &p }},
}

const fullMask = 1<<8 - 1

func stackIdx(t gopacket.LayerType) int {
	for i, e := range stack {
		if e.typ == t {
			return i
		}
	}
	return -1
}

func typeName(t gopacket.LayerType) string {
	if i := stackIdx(t); i >= 0 {
		return stack[i].name
	}
	s := t.String()
	s = strings.Map(func(r rune) rune {
		if r == ' ' || r == ':' || r == '*' {
			return '_'
		}
		return r
	}, s)
	return s
}

var firsts = map[string]gopacket.LayerType{
	"eth": layers.LayerTypeEthernet, "ip4": layers.LayerTypeIPv4, "ip6": layers.LayerTypeIPv6,
}

var kinds = []string{"m", "s", "a", "c", "n"}

type recFeedback struct{ trunc bool }

func (f *recFeedback) SetTruncated() { f.trunc = true }

// contribution decodes data into a FRESH object of stack type t: did it fail, did it call SetTruncated
func contribution(t gopacket.LayerType, data []byte) (failed, trunc bool) {
	i := stackIdx(t)
	if i < 0 {
		return false, false
	}
	var fb recFeedback
	func() {
		defer func() {
			if recover() != nil {
				failed = true
			}
		}()
		failed = stack[i].mk().DecodeFromBytes(data, &fb) != nil
	}()
	return failed, fb.trunc
}

// ---------------------------------------------------------------- deep equality of exported fields

// diffExported returns the path of the first exported field in which a and b differ ("" if none).
// nil and empty slices are the same value; unexported fields are ignored.
func diffExported(a, b reflect.Value) string {
	if a.IsValid() != b.IsValid() {
		return "?"
	}
	if !a.IsValid() {
		return ""
	}
	if a.Type() != b.Type() {
		return "(type)"
	}
	switch a.Kind() {
	case reflect.Struct:
		t := a.Type()
		for i := 0; i < t.NumField(); i++ {
			f := t.Field(i)
			if f.PkgPath != "" {
				continue
			}
			if d := diffExported(a.Field(i), b.Field(i)); d != "" {
				if f.Anonymous {
					return d
				}
				if d == "." {
					return f.Name
				}
				return f.Name + "." + strings.TrimPrefix(d, ".")
			}
		}
		return ""
	case reflect.Slice:
		if a.Len() != b.Len() {
			return "."
		}
		for i := 0; i < a.Len(); i++ {
			if d := diffExported(a.Index(i), b.Index(i)); d != "" {
				return "."
			}
		}
		return ""
	case reflect.Array:
		for i := 0; i < a.Len(); i++ {
			if d := diffExported(a.Index(i), b.Index(i)); d != "" {
				return "."
			}
		}
		return ""
	case reflect.Ptr, reflect.Interface:
		if a.IsNil() || b.IsNil() {
			if a.IsNil() == b.IsNil() {
				return ""
			}
			return "."
		}
		d := diffExported(a.Elem(), b.Elem())
		if d == "" {
			return ""
		}
		return d
	case reflect.Map:
		if a.Len() != b.Len() {
			return "."
		}
		for _, k := range a.MapKeys() {
			bv := b.MapIndex(k)
			if !bv.IsValid() || diffExported(a.MapIndex(k), bv) != "" {
				return "."
			}
		}
		return ""
	case reflect.Func, reflect.Chan, reflect.UnsafePointer:
		return ""
	case reflect.Bool:
		if a.Bool() != b.Bool() {
			return "."
		}
	case reflect.Int, reflect.Int8, reflect.Int16, reflect.Int32, reflect.Int64:
		if a.Int() != b.Int() {
			return "."
		}
	case reflect.Uint, reflect.Uint8, reflect.Uint16, reflect.Uint32, reflect.Uint64, reflect.Uintptr:
		if a.Uint() != b.Uint() {
			return "."
		}
	case reflect.Float32, reflect.Float64:
		if a.Float() != b.Float() {
			return "."
		}
	case reflect.String:
		if a.String() != b.String() {
			return "."
		}
	}
	return ""
}

func diffLayers(a, b interface{}) string {
	d := diffExported(reflect.ValueOf(a), reflect.ValueOf(b))
	if d == "." {
		return "(value)"
	}
	return d
}

// ---------------------------------------------------------------- the packet's view

type pktView struct {
	first  gopacket.LayerType
	data   []byte
	trunc  bool
	ls     []gopacket.Layer // Layers() without IPv6 hop-by-hop layers embedded in the preceding IPv6 layer
	hbh    bool             // such a layer was present
	hbhAt  int              // index in ls of the IPv6 layer that embeds it
	inData [][]byte         // inData[k] = bytes layer k was decoded from; inData[len(ls)] = what comes after
	half   []bool           // layer k is a half-filled layer kept by a decodeX that failed
	fail   []bool           // layer k is a *DecodeFailure
}

func viewOf(first gopacket.LayerType, data []byte) *pktView {
	pk := gopacket.NewPacket(data, first, gopacket.DecodeOptions{DecodeStreamsAsDatagrams: true})
	v := &pktView{first: first, data: pk.Data(), trunc: pk.Metadata().Truncated}
	all := pk.Layers()
	for i, l := range all {
		if h, ok := l.(*layers.IPv6HopByHop); ok && i > 0 {
			if ip6, ok := all[i-1].(*layers.IPv6); ok && ip6.HopByHop == h {
				v.hbh = true
				v.hbhAt = len(v.ls) - 1
				continue
			}
		}
		v.ls = append(v.ls, l)
	}
	n := len(v.ls)
	v.inData = make([][]byte, n+1)
	v.half = make([]bool, n)
	v.fail = make([]bool, n)
	cur := v.data
	for k, l := range v.ls {
		v.inData[k] = cur
		if _, isF := l.(*gopacket.DecodeFailure); isF {
			v.fail[k] = true
			continue
		}
		if k == n-2 {
			if _, isF := v.ls[n-1].(*gopacket.DecodeFailure); isF {
				if failed, _ := contribution(l.LayerType(), cur); failed {
					v.half[k] = true
					// the DecodeFailure after a half-filled layer reports the previous payload
					v.inData[k+1] = cur
					continue
				}
			}
		}
		cur = l.LayerPayload()
	}
	v.inData[n] = cur
	return v
}

// nextTypeAt: the LayerType packet decoding moved on to after layer k-1 (k = 0: first)
func (v *pktView) nextTypeAt(k int) (gopacket.LayerType, bool) {
	if k == 0 {
		return v.first, true
	}
	if nl, ok := v.ls[k-1].(interface{ NextLayerType() gopacket.LayerType }); ok {
		return nl.NextLayerType(), true
	}
	return 0, false
}

// ---------------------------------------------------------------- one parser run

type cmpDL struct {
	inner gopacket.DecodingLayer
	run   *runCtx
}

type runCtx struct {
	v    *pktView
	deep bool
	k    int
	mism []string // "<Type>.<Field>" mismatches against the packet's layers
}

func (w *cmpDL) CanDecode() gopacket.LayerClass    { return w.inner.CanDecode() }
func (w *cmpDL) NextLayerType() gopacket.LayerType { return w.inner.NextLayerType() }
func (w *cmpDL) LayerPayload() []byte              { return w.inner.LayerPayload() }
func (w *cmpDL) DecodeFromBytes(data []byte, df gopacket.DecodeFeedback) error {
	err := w.inner.DecodeFromBytes(data, df)
	if err == nil {
		r := w.run
		if r.deep && r.k < len(r.v.ls) && !r.v.fail[r.k] && !r.v.half[r.k] {
			pl := r.v.ls[r.k]
			if reflect.TypeOf(pl) == reflect.TypeOf(w.inner) {
				if d := diffLayers(w.inner, pl); d != "" {
					r.mism = append(r.mism, typeName(pl.LayerType())+"."+d)
				}
			}
		}
		r.k++
	}
	return err
}

type runRes struct {
	decoded []gopacket.LayerType
	ret     string // nil | unsup:<T> | err | panic
	trunc   bool
	objs    []gopacket.DecodingLayer
	mism    []string
}

func containerOf(kind string) gopacket.DecodingLayerContainer {
	switch kind {
	case "s":
		return gopacket.DecodingLayerSparse(nil)
	case "a":
		return gopacket.DecodingLayerArray(nil)
	case "c":
		return &customC{}
	}
	return gopacket.DecodingLayerMap(nil)
}

func newRealParser(kind string, first gopacket.LayerType, dls []gopacket.DecodingLayer) *gopacket.DecodingLayerParser {
	if kind == "n" {
		return gopacket.NewDecodingLayerParser(first, dls...)
	}
	c := containerOf(kind)
	for _, d := range dls {
		c = c.Put(d)
	}
	p := gopacket.NewDecodingLayerParser(first)
	p.SetDecodingLayerContainer(c)
	return p
}

func realRet(err error) string {
	var u gopacket.UnsupportedLayerType
	switch {
	case err == nil:
		return "nil"
	case errors.As(err, &u):
		return fmt.Sprintf("unsup:%d", int64(u))
	default:
		return "err"
	}
}

func runParser(v *pktView, mask int, kind string, deep bool) runRes {
	ctx := &runCtx{v: v, deep: deep}
	var dls []gopacket.DecodingLayer
	var objs []gopacket.DecodingLayer
	for i, e := range stack {
		if mask&(1<<i) != 0 {
			o := e.mk()
			objs = append(objs, o)
			dls = append(dls, &cmpDL{o, ctx})
		} else {
			objs = append(objs, nil)
		}
	}
	p := newRealParser(kind, v.first, dls)
	res := runRes{objs: objs}
	func() {
		defer func() {
			if x := recover(); x != nil {
				res.ret = "panic"
				lib.Finding(prop, "dlp:panic-leak", "a panic left DecodeLayers although IgnorePanic is false: "+fmt.Sprint(x))
			}
		}()
		res.ret = realRet(p.DecodeLayers(v.data, &res.decoded))
	}()
	res.trunc = p.Truncated
	res.mism = ctx.mism
	return res
}

func inMask(mask int, t gopacket.LayerType) bool {
	i := stackIdx(t)
	return i >= 0 && mask&(1<<i) != 0
}

// checkRun compares one parser run with the packet (the property's first sentence).
func checkRun(v *pktView, mask int, r runRes) {
	// expected leading run
	k := 0
	for k < len(v.ls) && !v.fail[k] && !v.half[k] && inMask(mask, v.ls[k].LayerType()) {
		k++
	}
	lib.Stat(fmt.Sprintf("real:run:%d", k))
	for i := 0; i < k || i < len(r.decoded); i++ {
		var want, got gopacket.LayerType = -1, -1
		if i < k {
			want = v.ls[i].LayerType()
		}
		if i < len(r.decoded) {
			got = r.decoded[i]
		}
		if want != got {
			t := want
			if i >= k {
				t = got
			}
			lib.Finding(prop, "dlp:prefix-mismatch:"+typeName(t),
				fmt.Sprintf("subset %08b: layer %d: packet decoding has %s, the parser reports %s (-1: none)", mask, i, typeName(want), typeName(got)))
			return
		}
	}
	if v.hbh && k > v.hbhAt {
		lib.Finding(prop, "dlp:prefix-mismatch:IPv6HopByHop", fmt.Sprintf("subset %08b: packet decoding reports the hop-by-hop header as a layer of its own after IPv6, the parser's IPv6 layer swallows it and `decoded` has no entry for it", mask))
	}
	for _, m := range r.mism {
		lib.Finding(prop, "dlp:prefix-mismatch:"+m, fmt.Sprintf("subset %08b: field %s differs between the parser's layer and the packet's", mask, m))
	}
	// how the run ends
	next, known := v.nextTypeAt(k)
	wantTr := false
	for i := 0; i < k; i++ {
		_, tr := contribution(v.ls[i].LayerType(), v.inData[i])
		wantTr = wantTr || tr
	}
	trKnown := true
	switch {
	case k == len(v.ls):
		// packet decoding ended cleanly after the run
		lib.Stat("real:end:clean")
		if r.ret != "nil" {
			lib.Finding(prop, "dlp:prefix-mismatch:end", fmt.Sprintf("subset %08b: packet decoding ended cleanly after %d layers, DecodeLayers returned %s", mask, k, r.ret))
		}
	case !known:
		trKnown = false
	case inMask(mask, next):
		// the next decoder is in the set, so it must be the one that failed
		lib.Stat("real:end:error")
		failed, tr := contribution(next, v.inData[k])
		wantTr = wantTr || tr
		if !failed {
			trKnown = false // packet decoding failed for another reason (e.g. a panic recovered later)
		}
		if r.ret != "err" {
			lib.Finding(prop, "dlp:prefix-mismatch:"+typeName(next), fmt.Sprintf("subset %08b: packet decoding failed in layer %d (%s), DecodeLayers returned %s", mask, k, typeName(next), r.ret))
		}
	case next == gopacket.LayerTypeZero:
		lib.Stat("real:end:zero")
		if r.ret != "nil" {
			lib.Finding(prop, "dlp:prefix-mismatch:end", fmt.Sprintf("subset %08b: next type is LayerTypeZero, DecodeLayers returned %s", mask, r.ret))
		}
	default:
		lib.Stat("real:end:unsupported")
		if k > 0 && len(v.inData[k]) == 0 {
			// nothing left to decode: both stop
			if r.ret != "nil" {
				lib.Finding(prop, "dlp:prefix-mismatch:end", fmt.Sprintf("subset %08b: empty payload, DecodeLayers returned %s", mask, r.ret))
			}
		} else if want := fmt.Sprintf("unsup:%d", int64(next)); r.ret != want {
			lib.Finding(prop, "dlp:prefix-mismatch:"+typeName(next), fmt.Sprintf("subset %08b: the run ends at %s outside the set: want %s got %s", mask, typeName(next), want, r.ret))
		}
	}
	if trKnown && r.trunc != wantTr {
		lib.Finding(prop, "dlp:truncated-flag", fmt.Sprintf("subset %08b: Truncated=%v, the layers of the run reported %v", mask, r.trunc, wantTr))
	}
	// when the run covers everything packet decoding did, the packet's own flag is the reference
	if k == len(v.ls) && r.trunc != v.trunc && !v.hbh {
		lib.Finding(prop, "dlp:truncated-flag", fmt.Sprintf("subset %08b: Truncated=%v, packet metadata says %v", mask, r.trunc, v.trunc))
	}
}

func sameBytes(a, b []byte) bool { return string(a) == string(b) }

// checkKinds: whichever container is used, the result is the same
func checkKinds(mask int, ref runRes, kind string, r runRes) {
	bad := ""
	switch {
	case r.ret != ref.ret:
		bad = "returned " + r.ret + " vs " + ref.ret
	case r.trunc != ref.trunc:
		bad = "Truncated differs"
	case len(r.decoded) != len(ref.decoded):
		bad = "decoded differs"
	}
	if bad == "" {
		for i := range r.decoded {
			if r.decoded[i] != ref.decoded[i] {
				bad = "decoded differs"
			}
		}
	}
	if bad == "" {
		for i := range r.objs {
			if r.objs[i] == nil {
				continue
			}
			if !sameBytes(r.objs[i].LayerPayload(), ref.objs[i].LayerPayload()) || r.objs[i].NextLayerType() != ref.objs[i].NextLayerType() {
				bad = stack[i].name + " object differs"
			}
		}
	}
	if bad != "" {
		name := map[string]string{"s": "sparse", "a": "array", "c": "custom", "n": "default"}[kind]
		lib.Finding(prop, "dlp:container-disagree:"+name, fmt.Sprintf("subset %08b: %s (map container as reference)", mask, bad))
	}
}

func realSubset(v *pktView, mask int) {
	ref := runParser(v, mask, "m", true)
	checkRun(v, mask, ref)
	for _, kind := range kinds[1:] {
		checkKinds(mask, ref, kind, runParser(v, mask, kind, false))
	}
	if len(ref.decoded) >= 2 {
		lib.Nontrivial()
	}
}

// ---------------------------------------------------------------- stale state

func runSeq(first gopacket.LayerType, pkts [][]byte) {
	mkAll := func() []gopacket.DecodingLayer {
		out := make([]gopacket.DecodingLayer, len(stack))
		for i, e := range stack {
			out[i] = e.mk()
		}
		return out
	}
	decode := func(p *gopacket.DecodingLayerParser, data []byte, dec *[]gopacket.LayerType) (ret string) {
		defer func() {
			if x := recover(); x != nil {
				ret = "panic"
				lib.Finding(prop, "dlp:panic-leak", "a panic left DecodeLayers although IgnorePanic is false: "+fmt.Sprint(x))
			}
		}()
		return realRet(p.DecodeLayers(data, dec))
	}
	for _, kind := range []string{"n", "s", "a"} {
		shared := mkAll()
		ps := newRealParser(kind, first, shared)
		var decS []gopacket.LayerType
		for n, data := range pkts {
			data = append([]byte(nil), data...)
			retS := decode(ps, data, &decS)
			trS := ps.Truncated
			fresh := mkAll()
			pf := newRealParser(kind, first, fresh)
			var decF []gopacket.LayerType
			retF := decode(pf, data, &decF)
			if n == 0 {
				continue
			}
			lib.Stat("real:stale-checked")
			if retS != retF || trS != pf.Truncated || fmt.Sprint(decS) != fmt.Sprint(decF) {
				lib.Finding(prop, "dlp:stale:result", fmt.Sprintf("packet %d of the sequence: reused objects give %s %v trunc=%v, fresh objects %s %v trunc=%v", n, retS, decS, trS, retF, decF, pf.Truncated))
				continue
			}
			if len(decS) >= 2 {
				lib.Nontrivial()
			}
			for _, t := range decS {
				i := stackIdx(t)
				if i < 0 {
					continue
				}
				if d := diffLayers(shared[i], fresh[i]); d != "" {
					lib.Finding(prop, "dlp:stale:"+stack[i].name+"."+d, fmt.Sprintf("packet %d of the sequence: %s.%s differs between the reused object and a fresh one", n, stack[i].name, d))
				}
			}
		}
	}
}

// ---------------------------------------------------------------- ops

func execReal(args []string) string {
	if len(args) < 3 {
		return "bad-op"
	}
	first, ok := firsts[args[1]]
	if !ok {
		return "bad-op"
	}
	switch args[0] {
	case "pkt":
		if len(args) != 3 {
			return "bad-op"
		}
		data, ok := lib.UnHex(args[2])
		if !ok {
			return "bad-op"
		}
		v := viewOf(first, data)
		lib.Stat(fmt.Sprintf("real:pkt-layers:%d", len(v.ls)))
		for mask := 0; mask <= fullMask; mask++ {
			realSubset(v, mask)
		}
		return "ok"
	case "sub":
		if len(args) != 4 {
			return "bad-op"
		}
		mask, ok1 := lib.Atoi(args[2])
		data, ok2 := lib.UnHex(args[3])
		if !ok1 || !ok2 || mask < 0 || mask > fullMask {
			return "bad-op"
		}
		realSubset(viewOf(first, data), mask)
		return "ok"
	case "seq":
		var pkts [][]byte
		for _, h := range args[2:] {
			d, ok := lib.UnHex(h)
			if !ok {
				return "bad-op"
			}
			pkts = append(pkts, d)
		}
		if len(pkts) < 2 || len(pkts) > 4 {
			return "bad-op"
		}
		runSeq(first, pkts)
		return "ok"
	}
	return "bad-op"
}
