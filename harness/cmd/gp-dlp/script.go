package main

// SCRIPTED DecodingLayers: an implementation of gopacket.DecodingLayer (and gopacket.Layer) whose
// behaviour is dictated by the first byte of the data it is asked to decode.  Mirrored statement by
// statement in lean/Gp/Model/ParserScript.lean (sDecode).

import (
	"errors"

	"github.com/gopacket/gopacket"
)

var errScripted = errors.New("scripted decode error")

var nextTable = [8]gopacket.LayerType{0, 1900, 1901, 1902, 1903, 1950, 3000, -7}

type sLayer struct {
	id     int
	sticky bool
	types  []gopacket.LayerType
	class  gopacket.LayerClass
	own    gopacket.LayerType // LayerType() of the object (packet decoding: the registered type)

	Val      int
	Extra    int
	Next     gopacket.LayerType
	Contents []byte
	Payload  []byte

	// bookkeeping for the monitors (not part of the modelled state)
	lastOK    bool
	lastTrunc bool
}

// snapshot of what one DecodeFromBytes call produced
type snap struct {
	id       int
	val      int
	extra    int
	next     gopacket.LayerType
	contents string
	payload  string
	ok       bool
	trunc    bool
}

var trace []snap // every scripted DecodeFromBytes call since the trace was last cleared

func newSLayer(id int, sticky bool, types []gopacket.LayerType) *sLayer {
	l := &sLayer{id: id, sticky: sticky, types: types}
	switch {
	case len(types) == 1:
		l.class = types[0]
		l.own = types[0]
	default:
		neg := false
		for _, t := range types {
			if t < 0 {
				neg = true
			}
		}
		if neg {
			l.class = gopacket.NewLayerClassMap(types) // NewLayerClassSlice would index a slice with the negative type
		} else {
			l.class = gopacket.NewLayerClass(types)
		}
		if len(types) > 0 {
			l.own = types[0]
		}
	}
	return l
}

func (l *sLayer) LayerType() gopacket.LayerType     { return l.own }
func (l *sLayer) LayerContents() []byte             { return l.Contents }
func (l *sLayer) LayerPayload() []byte              { return l.Payload }
func (l *sLayer) CanDecode() gopacket.LayerClass    { return l.class }
func (l *sLayer) NextLayerType() gopacket.LayerType { return l.Next }

func (l *sLayer) record(ok, trunc bool) {
	l.lastOK, l.lastTrunc = ok, trunc
	if len(trace) < 4096 {
		trace = append(trace, snap{l.id, l.Val, l.Extra, l.Next, string(l.Contents), string(l.Payload), ok, trunc})
	}
}

func (l *sLayer) DecodeFromBytes(data []byte, df gopacket.DecodeFeedback) error {
	if !l.sticky {
		l.Extra = 0
	}
	if len(data) == 0 {
		df.SetTruncated()
		l.record(false, true)
		return errScripted
	}
	b := int(data[0])
	l.Val = b
	tr := (b/4)%2 == 1
	if tr {
		df.SetTruncated()
	}
	switch b % 4 {
	case 2:
		l.record(false, tr)
		return errScripted
	case 3:
		l.record(false, tr)
		var none []byte
		_ = none[b] // index out of range
	case 1:
		l.Extra = b
	}
	front := 1 + (b/64)%2
	if front > len(data) {
		front = len(data)
	}
	stop := len(data) - (b/128)%2
	if stop < front {
		stop = front
	}
	l.Contents = data[:front]
	l.Payload = data[front:stop]
	l.Next = nextTable[(b/8)%8]
	l.record(true, tr)
	return nil
}

// The two shapes of decode function the layers package registers for NewPacket.

// wrapA is a verbatim copy of layers/base.go decodingLayerDecoder (which is not exported).
func wrapA(d *sLayer, data []byte, p gopacket.PacketBuilder) error {
	err := d.DecodeFromBytes(data, p)
	if err != nil {
		return err
	}
	p.AddLayer(d)
	next := d.NextLayerType()
	if next == gopacket.LayerTypeZero {
		return nil
	}
	return p.NextDecoder(next)
}

// wrapB has the shape of decodeIPv4 / decodeUDP / decodeTCP(DecodeStreamsAsDatagrams): the layer is
// added before the error is looked at, and LayerTypeZero is not special.
func wrapB(d *sLayer, data []byte, p gopacket.PacketBuilder) error {
	err := d.DecodeFromBytes(data, p)
	p.AddLayer(d)
	if err != nil {
		return err
	}
	return p.NextDecoder(d.NextLayerType())
}

type regEnt struct {
	typ      gopacket.LayerType
	sticky   bool
	addOnErr bool // wrapB
}

// must equal Gp.Parser.Script.regTable
var regTable = []regEnt{
	{1900, false, false},
	{1901, false, true},
	{1902, true, false},
	{1903, false, true},
	{3000, false, false},
	{-7, false, false},
}

func regOf(t gopacket.LayerType) *regEnt {
	for i := range regTable {
		if regTable[i].typ == t {
			return &regTable[i]
		}
	}
	return nil
}

func init() {
	for _, e := range regTable {
		e := e
		gopacket.RegisterLayerType(int(e.typ), gopacket.LayerTypeMetadata{
			Name: "Scripted" + itoa(int(e.typ)),
			Decoder: gopacket.DecodeFunc(func(data []byte, p gopacket.PacketBuilder) error {
				d := newSLayer(-1, e.sticky, []gopacket.LayerType{e.typ})
				if e.addOnErr {
					return wrapB(d, data, p)
				}
				return wrapA(d, data, p)
			}),
		})
	}
}

// customC is a user-defined DecodingLayerContainer ("a custom one"): two parallel slices scanned from
// the end (so the last Put of a type wins, like the three provided containers).  Its LayersDecoder
// goes through the generic fourth copy of the loop in layers_decoder.go.
type customC struct {
	typs []gopacket.LayerType
	decs []gopacket.DecodingLayer
}

func (c *customC) Put(d gopacket.DecodingLayer) gopacket.DecodingLayerContainer {
	for _, t := range d.CanDecode().LayerTypes() {
		c.typs = append(c.typs, t)
		c.decs = append(c.decs, d)
	}
	return c
}

func (c *customC) Decoder(t gopacket.LayerType) (gopacket.DecodingLayer, bool) {
	for i := len(c.typs) - 1; i >= 0; i-- {
		if c.typs[i] == t {
			return c.decs[i], true
		}
	}
	return nil, false
}

func (c *customC) LayersDecoder(first gopacket.LayerType, df gopacket.DecodeFeedback) gopacket.DecodingLayerFunc {
	return gopacket.LayersDecoder(c, first, df)
}
