package main

// Generator of the ops file (seeded; every random choice comes from *lib.Rand).

import (
	"fmt"
	"net"
	"strings"

	"github.com/gopacket/gopacket"
	"github.com/gopacket/gopacket/layers"
	"verif/harness/lib"
)

// ---------------------------------------------------------------- scripted part

type poolObj struct {
	sticky int
	types  string
}

// objects a table is built from
var pool = []poolObj{
	{0, "1900"},      // 0
	{0, "1901"},      // 1
	{1, "1902"},      // 2 keeps stale state
	{0, "1903"},      // 3
	{0, "1900,1901"}, // 4 one object for two types
	{0, "3000"},      // 5 beyond maxLayerType
	{0, "-7"},        // 6 negative type
	{0, "0"},         // 7 a decoder for LayerTypeZero
	{1, "1900"},      // 8 stale-state object under a type whose packet decoder resets
	{0, "1902,1950"}, // 9
}

var universe = []int{0, 1, 1900, 1901, 1902, 1903, 1950, 3000, 3001, -7, -1, 5000}

// instruction byte of the scripted layer
func ins(kind, trunc, nextSel, hdr2, trim int) byte {
	return byte(kind | trunc<<2 | nextSel<<3 | hdr2<<6 | trim<<7)
}

func randChain(r *lib.Rand, n int) []byte {
	out := make([]byte, 0, n+2)
	for i := 0; i < n; i++ {
		kind := 0
		switch x := r.Intn(20); {
		case x < 4:
			kind = 1
		case x == 4:
			kind = 2
		case x == 5:
			kind = 3
		}
		trunc := 0
		if r.Chance(15) {
			trunc = 1
		}
		next := 1 + r.Intn(4) // mostly the registered types 1900..1903
		if r.Chance(25) {
			next = r.Intn(8)
		}
		hdr2, trim := 0, 0
		if r.Chance(20) {
			hdr2 = 1
		}
		if r.Chance(10) {
			trim = 1
		}
		out = append(out, ins(kind, trunc, next, hdr2, trim))
		if hdr2 == 1 {
			out = append(out, byte(r.U64()))
		}
	}
	if r.Chance(30) {
		out = append(out, r.Bytes(1+r.Intn(2))...)
	}
	return out
}

func emitTable(emit func(string), ids []int) {
	seen := map[int]bool{}
	for _, id := range ids {
		if !seen[id] {
			emit(fmt.Sprintf("dlp obj %d %d %s", id, pool[id].sticky, pool[id].types))
			seen[id] = true
		}
	}
	for _, id := range ids {
		emit(fmt.Sprintf("dlp put %d", id))
	}
}

func genLookups(emit func(string)) {
	// every Put sequence of length <= 3 over objects with overlapping / negative / large types
	objs := []int{0, 1, 4, 9, 5, 6}
	var seqs [][]int
	for _, a := range objs {
		seqs = append(seqs, []int{a})
		for _, b := range objs {
			seqs = append(seqs, []int{a, b})
			for _, c := range objs {
				seqs = append(seqs, []int{a, b, c})
			}
		}
	}
	for _, s := range seqs {
		// a negative type kills the sparse container: keep it last so the other lookups stay comparable
		emit("reset")
		emitTable(emit, s)
		for _, t := range universe {
			emit(fmt.Sprintf("dlp look %d", t))
		}
	}
}

var tables = [][]int{
	{}, {0}, {1}, {2}, {3}, {0, 1}, {0, 2}, {0, 3}, {1, 2}, {1, 3}, {2, 3}, {0, 1, 2}, {0, 1, 3}, {0, 2, 3}, {1, 2, 3}, {0, 1, 2, 3},
	{4}, {0, 4}, {4, 0}, {5, 0, 1}, {0, 1, 6}, {7, 0, 1}, {8, 1}, {9, 0}, {0, 1, 3, 5},
}

func genParserCase(r *lib.Rand, emit func(string), table []int, kind string, first int, ip, iu int, ndata int, exhaustiveFirstByte bool) {
	emit("reset")
	late := -1
	tb := table
	if len(table) >= 2 && r.Chance(25) { // the last object arrives through AddDecodingLayer
		late = table[len(table)-1]
		tb = table[:len(table)-1]
	}
	emitTable(emit, tb)
	emit(fmt.Sprintf("dlp parser %s %d %d %d", kind, first, ip, iu))
	if late >= 0 {
		emit(fmt.Sprintf("dlp obj %d %d %s", late, pool[late].sticky, pool[late].types))
		emit(fmt.Sprintf("dlp add %d", late))
	}
	if exhaustiveFirstByte {
		for b := 0; b < 256; b++ {
			emit("dlp dec " + lib.Hex([]byte{byte(b), ins(0, 0, 2, 0, 0), ins(1, 1, 0, 0, 0), 0x55}))
		}
		return
	}
	emit("dlp dec -")
	for i := 0; i < ndata; i++ {
		d := randChain(r, 1+r.Intn(5))
		if r.Chance(20) {
			emit(fmt.Sprintf("dlp seed %s", []string{"7,8,9", "1900", "-", "1901,1901"}[r.Intn(4)]))
		}
		if r.Chance(20) {
			emit(fmt.Sprintf("dlp settr %d", r.Intn(2)))
		}
		emit("dlp dec " + lib.Hex(d))
		if r.Chance(50) {
			emit(fmt.Sprintf("dlp pkt %d %d %s", first, r.Intn(2)*r.Intn(2), lib.Hex(d)))
		}
	}
}

func genScripted(r *lib.Rand, tier string, emit func(string)) {
	genLookups(emit)
	firsts := []int{1900, 1901, 1902, 0, 1950, -7}
	kinds := []string{"s", "a", "m", "c", "n"}
	if tier == "thorough" {
		for _, tb := range tables {
			for _, k := range kinds {
				for _, f := range firsts {
					for o := 0; o < 4; o++ {
						genParserCase(r, emit, tb, k, f, o&1, o>>1, 14, false)
					}
				}
			}
		}
	} else {
		for _, tb := range tables {
			for _, k := range kinds {
				for j := 0; j < 3; j++ {
					f := firsts[r.Intn(3)]
					if r.Chance(25) {
						f = firsts[r.Intn(len(firsts))]
					}
					genParserCase(r, emit, tb, k, f, r.Intn(2), r.Intn(2), 8, false)
				}
			}
		}
	}
	// every first instruction byte, one table per container kind
	for _, k := range kinds {
		genParserCase(r, emit, []int{0, 1, 2, 3}, k, 1900, 0, 0, 0, true)
	}
	genParserCase(r, emit, []int{0, 1, 2, 3}, "m", 1900, 1, 1, 0, true)
	// packet decoding alone over the scripted registry
	n := 150
	if tier == "thorough" {
		n = 3000
	}
	for i := 0; i < n; i++ {
		emit("reset")
		for j := 0; j < 4; j++ {
			emit(fmt.Sprintf("dlp pkt %d %d %s", firsts[r.Intn(len(firsts))], r.Intn(2), lib.Hex(randChain(r, 1+r.Intn(6)))))
		}
	}
}

// ---------------------------------------------------------------- real packets

func ser(ls ...gopacket.SerializableLayer) []byte {
	buf := gopacket.NewSerializeBuffer()
	if err := gopacket.SerializeLayers(buf, gopacket.SerializeOptions{FixLengths: true, ComputeChecksums: true}, ls...); err != nil {
		panic(err)
	}
	return append([]byte(nil), buf.Bytes()...)
}

func eth(t layers.EthernetType) *layers.Ethernet {
	return &layers.Ethernet{SrcMAC: net.HardwareAddr{2, 0, 0, 0, 0, 1}, DstMAC: net.HardwareAddr{2, 0, 0, 0, 0, 2}, EthernetType: t}
}

func ip4(p layers.IPProtocol) *layers.IPv4 {
	return &layers.IPv4{Version: 4, IHL: 5, TTL: 64, Id: 7, Protocol: p, SrcIP: net.IP{10, 0, 0, 1}, DstIP: net.IP{10, 0, 0, 2}}
}

func ip6(p layers.IPProtocol) *layers.IPv6 {
	return &layers.IPv6{Version: 6, HopLimit: 64, NextHeader: p, SrcIP: net.ParseIP("fe80::1"), DstIP: net.ParseIP("fe80::2")}
}

type fixture struct {
	first string
	name  string
	data  []byte
}

func dnsQuery() *layers.DNS {
	return &layers.DNS{ID: 0x1234, RD: true, OpCode: layers.DNSOpCodeQuery, QDCount: 1,
		Questions: []layers.DNSQuestion{{Name: []byte("example.com"), Type: layers.DNSTypeA, Class: layers.DNSClassIN}}}
}

func dnsAnswer() *layers.DNS {
	return &layers.DNS{ID: 0x1234, QR: true, RD: true, RA: true, QDCount: 1, ANCount: 2,
		Questions: []layers.DNSQuestion{{Name: []byte("example.com"), Type: layers.DNSTypeA, Class: layers.DNSClassIN}},
		Answers: []layers.DNSResourceRecord{
			{Name: []byte("example.com"), Type: layers.DNSTypeA, Class: layers.DNSClassIN, TTL: 60, IP: net.IP{93, 184, 216, 34}},
			{Name: []byte("example.com"), Type: layers.DNSTypeTXT, Class: layers.DNSClassIN, TTL: 60, TXTs: [][]byte{[]byte("hello")}},
		}}
}

func fixtures() []fixture {
	var fx []fixture
	add := func(first, name string, d []byte) { fx = append(fx, fixture{first, name, d}) }
	pay := gopacket.Payload([]byte("hello, world"))

	// Ethernet / IPv4 / TCP / payload
	{
		ip := ip4(layers.IPProtocolTCP)
		tcp := &layers.TCP{SrcPort: 40000, DstPort: 8080, Seq: 1, Ack: 2, ACK: true, PSH: true, Window: 512}
		tcp.SetNetworkLayerForChecksum(ip)
		add("eth", "eth-ip4-tcp", ser(eth(layers.EthernetTypeIPv4), ip, tcp, pay))
	}
	// TCP with options, no payload
	{
		ip := ip4(layers.IPProtocolTCP)
		tcp := &layers.TCP{SrcPort: 40000, DstPort: 8080, Seq: 1, SYN: true, Window: 512, Options: []layers.TCPOption{
			{OptionType: layers.TCPOptionKindMSS, OptionLength: 4, OptionData: []byte{5, 0xb4}},
			{OptionType: layers.TCPOptionKindSACKPermitted, OptionLength: 2},
			{OptionType: layers.TCPOptionKindTimestamps, OptionLength: 10, OptionData: []byte{0, 0, 0, 1, 0, 0, 0, 0}},
			{OptionType: layers.TCPOptionKindNop},
			{OptionType: layers.TCPOptionKindWindowScale, OptionLength: 3, OptionData: []byte{7}},
		}}
		tcp.SetNetworkLayerForChecksum(ip)
		add("eth", "eth-ip4-tcp-opts", ser(eth(layers.EthernetTypeIPv4), ip, tcp))
	}
	// TCP with an MPTCP option (kind 30, MP_CAPABLE) and end-of-list padding
	{
		ip := ip4(layers.IPProtocolTCP)
		tcp := &layers.TCP{SrcPort: 40000, DstPort: 8080, Seq: 1, SYN: true, Window: 512, Options: []layers.TCPOption{
			{OptionType: 30, OptionLength: 12, OptionData: []byte{0x00, 0x81, 1, 2, 3, 4, 5, 6, 7, 8}},
			{OptionType: layers.TCPOptionKindEndList},
		}}
		tcp.SetNetworkLayerForChecksum(ip)
		add("eth", "eth-ip4-tcp-mptcp", ser(eth(layers.EthernetTypeIPv4), ip, tcp, pay))
	}
	// IPv4 with options ending in end-of-list + padding / UDP
	{
		ip := ip4(layers.IPProtocolUDP)
		ip.IHL = 7
		ip.Options = []layers.IPv4Option{{OptionType: 1, OptionLength: 1}, {OptionType: 7, OptionLength: 3, OptionData: []byte{4}}, {OptionType: 0, OptionLength: 1}}
		ip.Padding = []byte{0, 0, 0}
		udp := &layers.UDP{SrcPort: 5000, DstPort: 6000}
		udp.SetNetworkLayerForChecksum(ip)
		add("eth", "eth-ip4opts-udp", ser(eth(layers.EthernetTypeIPv4), ip, udp, pay))
	}
	// DNS over UDP: query and answer
	for i, d := range []*layers.DNS{dnsQuery(), dnsAnswer()} {
		ip := ip4(layers.IPProtocolUDP)
		udp := &layers.UDP{SrcPort: 5353, DstPort: 53}
		if i == 1 {
			udp = &layers.UDP{SrcPort: 53, DstPort: 5353}
		}
		udp.SetNetworkLayerForChecksum(ip)
		add("eth", fmt.Sprintf("eth-ip4-udp-dns%d", i), ser(eth(layers.EthernetTypeIPv4), ip, udp, d))
	}
	// VLAN, QinQ
	{
		ip := ip4(layers.IPProtocolUDP)
		udp := &layers.UDP{SrcPort: 5000, DstPort: 6000}
		udp.SetNetworkLayerForChecksum(ip)
		add("eth", "eth-vlan-ip4-udp", ser(eth(layers.EthernetTypeDot1Q), &layers.Dot1Q{Priority: 3, VLANIdentifier: 100, Type: layers.EthernetTypeIPv4}, ip, udp, pay))
		i6 := ip6(layers.IPProtocolTCP)
		tcp := &layers.TCP{SrcPort: 40000, DstPort: 8080, Seq: 9, ACK: true, Window: 100}
		tcp.SetNetworkLayerForChecksum(i6)
		add("eth", "eth-qinq-ip6-tcp", ser(eth(layers.EthernetTypeDot1Q), &layers.Dot1Q{VLANIdentifier: 10, Type: layers.EthernetTypeDot1Q},
			&layers.Dot1Q{VLANIdentifier: 20, DropEligible: true, Type: layers.EthernetTypeIPv6}, i6, tcp, pay))
	}
	// IPv6 / UDP / DNS
	{
		i6 := ip6(layers.IPProtocolUDP)
		udp := &layers.UDP{SrcPort: 5353, DstPort: 53}
		udp.SetNetworkLayerForChecksum(i6)
		add("eth", "eth-ip6-udp-dns", ser(eth(layers.EthernetTypeIPv6), i6, udp, dnsQuery()))
	}
	// IPv6 with a hop-by-hop header (hand-built) / TCP
	{
		i6 := ip6(layers.IPProtocolTCP)
		tcp := &layers.TCP{SrcPort: 40000, DstPort: 8080, Seq: 9, ACK: true, Window: 100}
		tcp.SetNetworkLayerForChecksum(i6)
		plain := ser(eth(layers.EthernetTypeIPv6), i6, tcp, pay)
		hbh := []byte{6, 0, 1, 4, 0, 0, 0, 0} // next=TCP, len=0, PadN(4)
		d := append([]byte(nil), plain[:14+40]...)
		d = append(d, hbh...)
		d = append(d, plain[14+40:]...)
		d[14+6] = 0 // NextHeader = hop-by-hop
		plen := int(d[14+4])<<8 | int(d[14+5])
		plen += len(hbh)
		d[14+4], d[14+5] = byte(plen>>8), byte(plen)
		add("eth", "eth-ip6-hbh-tcp", d)
	}
	// IP in IP
	{
		outer := ip4(layers.IPProtocolIPv4)
		inner := ip4(layers.IPProtocolUDP)
		inner.SrcIP, inner.DstIP, inner.TTL = net.IP{192, 168, 0, 1}, net.IP{192, 168, 0, 2}, 9
		udp := &layers.UDP{SrcPort: 1, DstPort: 2}
		udp.SetNetworkLayerForChecksum(inner)
		add("eth", "eth-ip4-ip4-udp", ser(eth(layers.EthernetTypeIPv4), outer, inner, udp, pay))
	}
	// fragment, ICMP, ARP, LLC, unknown EtherType, unknown IP protocol
	{
		ip := ip4(layers.IPProtocolUDP)
		ip.Flags = layers.IPv4MoreFragments
		add("eth", "eth-ip4-frag", ser(eth(layers.EthernetTypeIPv4), ip, pay))
		add("eth", "eth-ip4-icmp", ser(eth(layers.EthernetTypeIPv4), ip4(layers.IPProtocolICMPv4), &layers.ICMPv4{TypeCode: layers.CreateICMPv4TypeCode(8, 0), Id: 1, Seq: 1}, pay))
		add("eth", "eth-arp", ser(eth(layers.EthernetTypeARP), &layers.ARP{AddrType: layers.LinkTypeEthernet, Protocol: layers.EthernetTypeIPv4, HwAddressSize: 6, ProtAddressSize: 4, Operation: 1,
			SourceHwAddress: []byte{2, 0, 0, 0, 0, 1}, SourceProtAddress: []byte{10, 0, 0, 1}, DstHwAddress: []byte{0, 0, 0, 0, 0, 0}, DstProtAddress: []byte{10, 0, 0, 2}}))
		d := ser(eth(layers.EthernetTypeIPv4), ip4(layers.IPProtocolUDP), pay)
		d[12], d[13] = 0, 40 // length field: LLC
		add("eth", "eth-llc", d)
		d = ser(eth(layers.EthernetTypeIPv4), ip4(layers.IPProtocolUDP), pay)
		d[12], d[13] = 0x12, 0x34
		add("eth", "eth-unknown", d)
		add("eth", "eth-ip4-unknownproto", ser(eth(layers.EthernetTypeIPv4), ip4(layers.IPProtocol(253)), pay))
	}
	// UDP without payload; TCP on the DNS port
	{
		ip := ip4(layers.IPProtocolUDP)
		udp := &layers.UDP{SrcPort: 5000, DstPort: 6000}
		udp.SetNetworkLayerForChecksum(ip)
		add("eth", "eth-ip4-udp-empty", ser(eth(layers.EthernetTypeIPv4), ip, udp)[:14+20+8])
		ipt := ip4(layers.IPProtocolTCP)
		tcp := &layers.TCP{SrcPort: 40000, DstPort: 53, Seq: 1, ACK: true, Window: 512}
		tcp.SetNetworkLayerForChecksum(ipt)
		add("eth", "eth-ip4-tcp-dns", ser(eth(layers.EthernetTypeIPv4), ipt, tcp, dnsQuery()))
	}
	// raw IP first layers
	{
		ip := ip4(layers.IPProtocolUDP)
		udp := &layers.UDP{SrcPort: 5000, DstPort: 6000}
		udp.SetNetworkLayerForChecksum(ip)
		add("ip4", "ip4-udp", ser(ip, udp, pay))
		i6 := ip6(layers.IPProtocolTCP)
		tcp := &layers.TCP{SrcPort: 40000, DstPort: 8080, Seq: 9, ACK: true, Window: 100}
		tcp.SetNetworkLayerForChecksum(i6)
		add("ip6", "ip6-tcp", ser(i6, tcp, pay))
	}
	return fx
}

func mutations(r *lib.Rand, f fixture, tier string) [][]byte {
	var out [][]byte
	d := f.data
	lim := len(d)
	if lim > 110 {
		lim = 110
	}
	step := 3
	if tier == "thorough" {
		step = 1
	}
	for n := 0; n < lim; n += step {
		out = append(out, d[:n])
	}
	for pos := 0; pos < lim; pos += step {
		for _, v := range []byte{0x00, 0xff, d[pos] ^ 0x80, d[pos] + 1, d[pos] ^ 0x01} {
			if v == d[pos] {
				continue
			}
			if tier != "thorough" && !r.Chance(40) {
				continue
			}
			m := append([]byte(nil), d...)
			m[pos] = v
			out = append(out, m)
		}
	}
	n := 10
	if tier == "thorough" {
		n = 200
	}
	for i := 0; i < n; i++ { // a few multi-byte mutations
		m := append([]byte(nil), d...)
		for j := 0; j < 2+r.Intn(3); j++ {
			m[r.Intn(lim)] = byte(r.U64())
		}
		if r.Chance(30) {
			m = m[:r.Intn(len(m)+1)]
		}
		out = append(out, m)
	}
	return out
}

func genReal(r *lib.Rand, tier string, emit func(string)) {
	fx := fixtures()
	for _, f := range fx {
		emit("reset")
		emit("# fixture " + f.name)
		emit(fmt.Sprintf("dlp real pkt %s %s", f.first, lib.Hex(f.data)))
	}
	var muts []fixture
	for _, f := range fx {
		for _, m := range mutations(r, f, tier) {
			muts = append(muts, fixture{f.first, f.name, m})
			emit("reset")
			if tier == "thorough" || r.Chance(12) {
				emit(fmt.Sprintf("dlp real pkt %s %s", f.first, lib.Hex(m)))
			} else {
				// the full set, the set without one layer, and random subsets
				masks := []int{fullMask, fullMask &^ (1 << r.Intn(8)), r.Intn(256), r.Intn(256)}
				for _, mk := range masks {
					emit(fmt.Sprintf("dlp real sub %s %d %s", f.first, mk, lib.Hex(m)))
				}
			}
		}
	}
	// ordered pairs of fixtures, then pairs / triples mixing mutations
	for _, a := range fx {
		for _, b := range fx {
			if a.first != b.first {
				continue
			}
			emit("reset")
			emit(fmt.Sprintf("dlp real seq %s %s %s", a.first, lib.Hex(a.data), lib.Hex(b.data)))
		}
	}
	n := 300
	if tier == "thorough" {
		n = 6000
	}
	pick := func(first string) []byte {
		for {
			var f fixture
			if r.Chance(50) {
				f = fx[r.Intn(len(fx))]
			} else {
				f = muts[r.Intn(len(muts))]
			}
			if f.first == first {
				return f.data
			}
		}
	}
	for i := 0; i < n; i++ {
		first := "eth"
		if r.Chance(10) {
			first = []string{"ip4", "ip6"}[r.Intn(2)]
		}
		parts := []string{lib.Hex(pick(first)), lib.Hex(pick(first))}
		if r.Chance(50) {
			parts = append(parts, lib.Hex(pick(first)))
		}
		emit("reset")
		emit(fmt.Sprintf("dlp real seq %s %s", first, strings.Join(parts, " ")))
	}
}

func gen(r *lib.Rand, tier string, emit func(string)) {
	genScripted(r.Fork(), tier, emit)
	genReal(r.Fork(), tier, emit)
}
