// gp-dlp: correspondence adapter + monitors for engine `dlp` (property C05, parser part):
// parser.go (DecodingLayerSparse/Array/Map, DecodingLayerParser), layers_decoder.go (LayersDecoder),
// layers/base.go decodingLayerDecoder and the eager packet chain for the same table.
//
// (a) table level, SCRIPTED DecodingLayers (script.go) — the identical ops file is fed to lean/Driver/Dlp.lean:
//
//	dlp obj <id> <sticky 0|1> <t,t,..|->      define scripted object <id> (fresh state) able to decode the given types
//	dlp put <id>                              Put the object into a sparse, an array, a map and a custom container
//	dlp look <t>                              Decoder(t) of the four containers
//	dlp parser <s|a|m|c|n> <first> <ip> <iu>  new DecodingLayerParser over a container of that kind rebuilt from the Put
//	                                          history (n: NewDecodingLayerParser(first, objs...)); IgnorePanic, IgnoreUnsupported
//	dlp add <id>                              parser.AddDecodingLayer(obj)
//	dlp seed <t,t,..|->                       contents of the caller's `decoded` slice before the next call
//	dlp settr <0|1>                           parser.Truncated before the next call
//	dlp dec <hex>                             parser.DecodeLayers(data, &decoded)
//	dlp pkt <first> <skipRecovery> <hex>      gopacket.NewPacket(data, LayerType(first), …) over the scripted registry
//
// (b) REAL layers of the common stack (real.go) — monitor-only ops, both sides answer `ok`:
//
//	dlp real pkt <first> <hex>                all subsets of {Ethernet,Dot1Q,IPv4,IPv6,TCP,UDP,DNS,Payload} x every
//	                                          container kind: DecodeLayers vs NewPacket(DecodeStreamsAsDatagrams)
//	dlp real sub <first> <mask> <hex>         the same for one subset
//	dlp real seq <first> <hex> <hex> [<hex>]  the packets decoded into the SAME layer objects vs fresh ones
package main

import (
	"errors"
	"fmt"
	"sort"
	"strconv"
	"strings"
	"time"

	"github.com/gopacket/gopacket"
	"verif/harness/lib"
)

const prop = "C05"

func itoa(n int) string { return strconv.Itoa(n) }

// ---------------------------------------------------------------- state of one case

type state struct {
	objs    map[int]*sLayer
	puts    []int
	sparse  gopacket.DecodingLayerContainer // nil: dead (a Put panicked)
	arr     gopacket.DecodingLayerContainer
	mp      gopacket.DecodingLayerContainer
	cust    gopacket.DecodingLayerContainer
	parser  *gopacket.DecodingLayerParser
	pkind   string
	pputs   []int
	pfirst  gopacket.LayerType
	pip     bool
	piu     bool
	decoded []gopacket.LayerType
}

var st *state

func reset() {
	st = &state{
		objs:   map[int]*sLayer{},
		sparse: gopacket.DecodingLayerSparse(nil),
		arr:    gopacket.DecodingLayerArray(nil),
		mp:     gopacket.DecodingLayerMap(nil),
		cust:   &customC{},
	}
	trace = trace[:0]
}

// guard runs f with a watchdog; a panic inside f is re-raised in the caller.
func guard(f func() string) string {
	type res struct {
		s string
		p interface{}
	}
	ch := make(chan res, 1)
	go func() {
		defer func() {
			if v := recover(); v != nil {
				ch <- res{"", v}
			}
		}()
		ch <- res{f(), nil}
	}()
	select {
	case r := <-ch:
		if r.p != nil {
			panic(r.p)
		}
		return r.s
	case <-time.After(20 * time.Second):
		lib.Finding(prop, "dlp:hang", "operation did not finish within 20 s")
		return "timeout"
	}
}

func parseTypes(s string) ([]gopacket.LayerType, bool) {
	if s == "-" {
		return nil, true
	}
	var out []gopacket.LayerType
	for _, w := range strings.Split(s, ",") {
		n, err := strconv.ParseInt(w, 10, 64)
		if err != nil {
			return nil, false
		}
		if n > 1<<16 || n < -(1<<16) { // the sparse container allocates max(type)+1 entries
			return nil, false
		}
		out = append(out, gopacket.LayerType(n))
	}
	return out, true
}

func showTypes(ts []gopacket.LayerType) string {
	if len(ts) == 0 {
		return "-"
	}
	p := make([]string, len(ts))
	for i, t := range ts {
		p[i] = strconv.FormatInt(int64(t), 10)
	}
	return strings.Join(p, ",")
}

func bit(s string) (bool, bool) { return s == "1", s == "0" || s == "1" }

func b01(b bool) string {
	if b {
		return "1"
	}
	return "0"
}

func showSL(l *sLayer) string {
	return fmt.Sprintf("%d:%d:%d:%s:%s", l.Val, l.Extra, int64(l.Next), lib.Hex(l.Contents), lib.Hex(l.Payload))
}

func showObjs() string {
	if len(st.objs) == 0 {
		return "-"
	}
	ids := make([]int, 0, len(st.objs))
	for id := range st.objs {
		ids = append(ids, id)
	}
	sort.Ints(ids)
	p := make([]string, len(ids))
	for i, id := range ids {
		p[i] = itoa(id) + ":" + showSL(st.objs[id])
	}
	return strings.Join(p, ";")
}

// lookup through the interface, with panic capture
func lookStr(c gopacket.DecodingLayerContainer, t gopacket.LayerType) (s string) {
	if c == nil {
		return "dead"
	}
	defer func() {
		if v := recover(); v != nil {
			s = "panic:" + lib.PanicKind(v)
		}
	}()
	d, ok := c.Decoder(t)
	if !ok {
		return "-"
	}
	if sl, isS := d.(*sLayer); isS {
		return itoa(sl.id)
	}
	return "?"
}

func putSafe(c gopacket.DecodingLayerContainer, d gopacket.DecodingLayer) (out gopacket.DecodingLayerContainer, msg string) {
	defer func() {
		if v := recover(); v != nil {
			out, msg = nil, "panic:"+lib.PanicKind(v)
		}
	}()
	return c.Put(d), "ok"
}

// buildParser makes a fresh container of the kind from the Put history and a parser over it.
func buildParser(kind string, puts []int, first gopacket.LayerType, ip, iu bool) string {
	st.parser = nil
	st.pkind, st.pputs, st.pfirst, st.pip, st.piu = kind, append([]int(nil), puts...), first, ip, iu
	var p *gopacket.DecodingLayerParser
	if kind == "n" {
		ds := make([]gopacket.DecodingLayer, len(puts))
		for i, id := range puts {
			ds[i] = st.objs[id]
		}
		p = gopacket.NewDecodingLayerParser(first, ds...)
	} else {
		var c gopacket.DecodingLayerContainer
		switch kind {
		case "s":
			c = gopacket.DecodingLayerSparse(nil)
		case "a":
			c = gopacket.DecodingLayerArray(nil)
		case "m":
			c = gopacket.DecodingLayerMap(nil)
		case "c":
			c = &customC{}
		default:
			return "bad-op"
		}
		for _, id := range puts {
			c = c.Put(st.objs[id]) // may panic (sparse, negative type): reported as `panic index`
		}
		p = gopacket.NewDecodingLayerParser(first)
		p.SetDecodingLayerContainer(c) // may panic (sparse, negative first)
	}
	p.IgnorePanic, p.IgnoreUnsupported = ip, iu
	st.parser = p
	return "ok"
}

var errUnsup gopacket.UnsupportedLayerType

func retStr(err error) string {
	switch {
	case err == nil:
		return "nil"
	case err == errScripted:
		return "err"
	case errors.As(err, &errUnsup):
		return "unsup:" + strconv.FormatInt(int64(errUnsup), 10)
	default:
		return "perr" // only panicToError builds any other error
	}
}

func exec(args []string) string {
	if len(args) < 2 || args[0] != "dlp" {
		return "bad-op"
	}
	switch args[1] {
	case "obj":
		if len(args) != 5 {
			return "bad-op"
		}
		id, ok1 := lib.Atoi(args[2])
		sticky, ok2 := bit(args[3])
		ts, ok3 := parseTypes(args[4])
		if !ok1 || !ok2 || !ok3 || id < 0 {
			return "bad-op"
		}
		st.objs[id] = newSLayer(id, sticky, ts)
		return "ok"
	case "put":
		if len(args) != 3 {
			return "bad-op"
		}
		id, ok := lib.Atoi(args[2])
		o := st.objs[id]
		if !ok || o == nil {
			return "bad-op"
		}
		msg := "dead"
		if st.sparse != nil {
			st.sparse, msg = putSafe(st.sparse, o)
		}
		st.arr = st.arr.Put(o)
		st.mp = st.mp.Put(o)
		st.cust = st.cust.Put(o)
		st.puts = append(st.puts, id)
		lib.Stat("put:sparse:" + msg)
		return "ok s=" + msg
	case "look":
		if len(args) != 3 {
			return "bad-op"
		}
		ts, ok := parseTypes(args[2])
		if !ok || len(ts) != 1 {
			return "bad-op"
		}
		t := ts[0]
		s, a, m, c := lookStr(st.sparse, t), lookStr(st.arr, t), lookStr(st.mp, t), lookStr(st.cust, t)
		monLook(t, s, a, m, c)
		return fmt.Sprintf("ok s=%s a=%s m=%s c=%s", s, a, m, c)
	case "parser":
		if len(args) != 6 {
			return "bad-op"
		}
		ts, ok1 := parseTypes(args[3])
		ip, ok2 := bit(args[4])
		iu, ok3 := bit(args[5])
		if !ok1 || len(ts) != 1 || !ok2 || !ok3 || !strings.Contains("samcn", args[2]) || len(args[2]) != 1 {
			return "bad-op"
		}
		lib.Stat("parser:" + args[2])
		return buildParser(args[2], st.puts, ts[0], ip, iu)
	case "add":
		if len(args) != 3 {
			return "bad-op"
		}
		id, ok := lib.Atoi(args[2])
		if !ok {
			return "bad-op"
		}
		if st.parser == nil {
			return "noparser"
		}
		o := st.objs[id]
		if o == nil {
			return "bad-op"
		}
		p := st.parser
		st.parser = nil // a panic below leaves the case without a parser (as the model does)
		st.pputs = append(st.pputs, id)
		p.AddDecodingLayer(o)
		st.parser = p
		return "ok"
	case "seed":
		if len(args) != 3 {
			return "bad-op"
		}
		ts, ok := parseTypes(args[2])
		if !ok {
			return "bad-op"
		}
		st.decoded = append([]gopacket.LayerType{}, ts...)
		return "ok"
	case "settr":
		if len(args) != 3 {
			return "bad-op"
		}
		b, ok := bit(args[2])
		if !ok {
			return "bad-op"
		}
		if st.parser != nil {
			st.parser.Truncated = b
		}
		return "ok"
	case "dec":
		if len(args) != 3 {
			return "bad-op"
		}
		data, ok := lib.UnHex(args[2])
		if !ok {
			return "bad-op"
		}
		if st.parser == nil {
			return "noparser"
		}
		return guard(func() string { return execDec(data) })
	case "pkt":
		if len(args) != 5 {
			return "bad-op"
		}
		ts, ok1 := parseTypes(args[2])
		skip, ok2 := bit(args[3])
		data, ok3 := lib.UnHex(args[4])
		if !ok1 || len(ts) != 1 || !ok2 || !ok3 {
			return "bad-op"
		}
		return guard(func() string { return execPkt(ts[0], skip, data) })
	case "real":
		// monitor-only: the reply is the constant `ok` (the Lean driver answers `ok` to every `dlp real …` line)
		if guard(func() string { execReal(args[2:]); return "ok" }) == "timeout" {
			return "timeout"
		}
		return "ok"
	}
	return "bad-op"
}

func execDec(data []byte) string {
	p := st.parser
	trace = trace[:0]
	hadSeed := len(st.decoded)
	ret := ""
	func() {
		defer func() {
			if v := recover(); v != nil {
				ret = "panic:" + lib.PanicKind(v)
				if !p.IgnorePanic {
					lib.Finding(prop, "dlp:panic-leak", "a panic left DecodeLayers although IgnorePanic is false: "+fmt.Sprint(v))
				}
			}
		}()
		ret = retStr(p.DecodeLayers(data, &st.decoded))
	}()
	lib.Stat("dec:ret:" + strings.SplitN(ret, ":", 2)[0])
	lib.Stat("dec:layers:" + itoa(len(st.decoded)))
	if len(st.decoded) >= 2 {
		lib.Nontrivial()
	}
	monDec(data, ret, hadSeed)
	return fmt.Sprintf("ret=%s dec=%s tr=%s objs=%s", ret, showTypes(st.decoded), b01(p.Truncated), showObjs())
}

func execPkt(first gopacket.LayerType, skip bool, data []byte) string {
	pk := gopacket.NewPacket(data, first, gopacket.DecodeOptions{SkipDecodeRecovery: skip}) // a panic is reported by the runner
	var parts []string
	for _, l := range pk.Layers() {
		switch v := l.(type) {
		case *sLayer:
			parts = append(parts, strconv.FormatInt(int64(v.own), 10)+":"+showSL(v))
		case *gopacket.DecodeFailure:
			parts = append(parts, "F")
		default:
			parts = append(parts, "?")
		}
	}
	ls := "-"
	if len(parts) > 0 {
		ls = strings.Join(parts, ",")
	}
	lib.Stat("pkt:layers:" + itoa(len(parts)))
	return fmt.Sprintf("layers=%s tr=%s", ls, b01(pk.Metadata().Truncated))
}

// ---------------------------------------------------------------- monitors of the scripted part

// monLook: the three provided containers (and the custom one) must give the same decoder for a
// non-negative type.  Negative types are outside the property (sparse indexes a slice with them).
func monLook(t gopacket.LayerType, s, a, m, c string) {
	if a != m {
		lib.Finding(prop, "dlp:container-disagree:array", fmt.Sprintf("Decoder(%d): array=%s map=%s", t, a, m))
	}
	if c != m {
		lib.Finding(prop, "dlp:container-disagree:custom", fmt.Sprintf("Decoder(%d): custom=%s map=%s", t, c, m))
	}
	if t >= 0 && s != "dead" && s != m {
		lib.Finding(prop, "dlp:container-disagree:sparse", fmt.Sprintf("Decoder(%d): sparse=%s map=%s", t, s, m))
	}
	if t < 0 {
		lib.Stat("look:negative")
	} else if m != "-" {
		lib.Stat("look:found")
	} else {
		lib.Stat("look:missing")
	}
}

// inSet: does the parser's container know type t (last Put wins), and with which object
func inSet(t gopacket.LayerType) *sLayer {
	for i := len(st.pputs) - 1; i >= 0; i-- {
		o := st.objs[st.pputs[i]]
		for _, x := range o.types {
			if x == t {
				return o
			}
		}
	}
	return nil
}

// monDec checks one DecodeLayers call against the property, with simple independent code:
// framework obligations always; the comparison with NewPacket when the table satisfies the contract
// (every layer resets; the packet decoder registered for each type of the set is the wrapper around
// the same implementation; no decoder for LayerTypeZero; no negative type with the sparse container).
func monDec(data []byte, ret string, hadSeed int) {
	p := st.parser
	run := append([]snap(nil), trace...)
	// decoded lists exactly the completed layers of THIS call
	nOK := 0
	for _, s := range run {
		if s.ok {
			nOK++
		}
	}
	if len(st.decoded) != nOK {
		sig := "dlp:decoded-mismatch"
		if len(run) == 0 && len(st.decoded) == hadSeed && hadSeed > 0 {
			sig = "dlp:decoded-not-reset"
		}
		lib.Finding(prop, sig, fmt.Sprintf("decoded has %d entries, %d layers were decoded by this call", len(st.decoded), nOK))
	}
	// Truncated is exactly "some layer of this call said so"
	tr := false
	for _, s := range run {
		tr = tr || s.trunc
	}
	if p.Truncated != tr {
		lib.Finding(prop, "dlp:truncated-flag", fmt.Sprintf("Truncated=%v but the layers decoded by this call reported %v", p.Truncated, tr))
	}
	// contract of the table
	for _, id := range st.pputs {
		o := st.objs[id]
		for _, t := range o.types {
			r := regOf(t)
			if o.sticky || r == nil || r.sticky || t == 0 {
				lib.Stat("dec:contract:no")
				return
			}
		}
	}
	if st.pkind == "s" {
		// negative types with the sparse container are outside the property (Decoder indexes a slice with them)
		for _, s := range run {
			if s.ok && s.next < 0 {
				lib.Stat("dec:contract:sparse-negative")
				return
			}
		}
	}
	lib.Stat("dec:contract:yes")
	saved := trace
	trace = nil
	var pk gopacket.Packet
	func() {
		defer func() { recover() }()
		pk = gopacket.NewPacket(data, st.pfirst, gopacket.DecodeOptions{})
	}()
	trace = saved
	if pk == nil {
		return
	}
	ls := pk.Layers()
	// the leading run of the packet's layers whose types are in the set and that decoded
	k := 0
	for k < len(ls) {
		sl, isS := ls[k].(*sLayer)
		if !isS || !sl.lastOK || inSet(sl.own) == nil {
			break
		}
		if k >= len(st.decoded) {
			lib.Finding(prop, "dlp:prefix-mismatch:script", fmt.Sprintf("parser stopped after %d layers, packet decoding has layer %d of type %d in the set", len(st.decoded), k, sl.own))
			return
		}
		sn := run[k]
		if st.decoded[k] != sl.own || sn.val != sl.Val || sn.extra != sl.Extra || sn.next != sl.Next ||
			sn.contents != string(sl.Contents) || sn.payload != string(sl.Payload) {
			lib.Finding(prop, "dlp:prefix-mismatch:script", fmt.Sprintf("layer %d differs between parser and packet", k))
			return
		}
		k++
	}
	if len(st.decoded) != k {
		lib.Finding(prop, "dlp:prefix-mismatch:script", fmt.Sprintf("parser reports %d layers, the leading run of the packet has %d", len(st.decoded), k))
		return
	}
	// how it ended
	switch {
	case k < len(ls):
		switch v := ls[k].(type) {
		case *sLayer:
			if inSet(v.own) == nil { // type outside the set (whether or not its own decode worked)
				want := "unsup:" + strconv.FormatInt(int64(v.own), 10)
				if p.IgnoreUnsupported || v.own == 0 {
					want = "nil"
				}
				if ret != want {
					lib.Finding(prop, "dlp:prefix-mismatch:script", "run ends at a type outside the set: want "+want+" got "+ret)
				}
			} else if ret != "err" { // half-filled layer kept by packet decoding
				lib.Finding(prop, "dlp:prefix-mismatch:script", "run ends at a failing layer: want err got "+ret)
			}
		case *gopacket.DecodeFailure:
			// failed layer inside the set (err / perr), or a type without any decoder (unsup / nil)
			if ret == "nil" && !p.IgnoreUnsupported && len(run) > k {
				lib.Finding(prop, "dlp:prefix-mismatch:script", "packet decoding failed inside the set but the parser returned nil")
			}
		}
	default:
		if ret != "nil" {
			lib.Finding(prop, "dlp:prefix-mismatch:script", "packet decoding ended cleanly, parser returned "+ret)
		}
	}
}

func main() {
	reset()
	lib.Main(lib.Engine{Name: "dlp", Gen: gen, Reset: reset, Exec: exec})
}
