// gp-lmod: correspondence adapter + monitors for engine `lmod`
// (layers/modbustcp.go, layers/lcm.go, layers/pflog.go: DecodeFromBytes, NextLayerType, CanDecode,
// decodeModbusTCP / decodeLCM / decodePFLog and the DecodingLayerParser over these layers;
// layers/fddi.go: the registered decoder function decodeFDDI and LinkFlow).
//
// None of the four layers has a SerializeTo method: there is nothing to drive for C06 / C07.
// Properties served: C19 (no panics), C05 (no stale state / capacity independence / packet path =
// preallocated path; for FDDI, which has no DecodeFromBytes: no hidden state between calls),
// C17 (LinkFlow of decoded FDDI layers).
package main

import (
	"bytes"
	"errors"
	"fmt"
	"os"
	"runtime/debug"
	"sort"
	"strings"

	"github.com/gopacket/gopacket"
	"github.com/gopacket/gopacket/layers"
	"verif/harness/lib"
)

// ---------------------------------------------------------------- state of one case

type dlayer interface {
	gopacket.DecodingLayer
	gopacket.Layer
}

var (
	cur       map[string]dlayer // objects re-used by `redec`
	pModbus   *layers.ModbusTCP // objects owned by the DecodingLayerParsers
	pLcm      *layers.LCM
	pPflog    *layers.PFLog
	parsers   map[string]*gopacket.DecodingLayerParser
	prevInput map[string][]byte // kind -> input of the previous fn op of this case (fddi)
)

var dlKinds = []string{"modbus", "lcm", "pflog"}
var allKinds = []string{"modbus", "lcm", "pflog", "fddi"}

// the LCM fingerprints registered at start-up (the model driver holds the same list)
const (
	lcmFpA = 0x1122334455667788
	lcmFpB = 0x0102030405060708
)

func newObj(kind string) dlayer {
	switch kind {
	case "modbus":
		return &layers.ModbusTCP{}
	case "lcm":
		return &layers.LCM{}
	case "pflog":
		return &layers.PFLog{}
	}
	return nil
}

func layerTypeOf(kind string) (gopacket.LayerType, bool) {
	switch kind {
	case "modbus":
		return layers.LayerTypeModbusTCP, true
	case "lcm":
		return layers.LayerTypeLCM, true
	case "pflog":
		return layers.LayerTypePFLog, true
	case "fddi":
		return layers.LayerTypeFDDI, true
	}
	return 0, false
}

func kindOf(l gopacket.Layer) string {
	switch l.(type) {
	case *layers.ModbusTCP:
		return "modbus"
	case *layers.LCM:
		return "lcm"
	case *layers.PFLog:
		return "pflog"
	case *layers.FDDI:
		return "fddi"
	}
	return ""
}

func reset() {
	cur = map[string]dlayer{}
	for _, k := range dlKinds {
		cur[k] = newObj(k)
	}
	prevInput = map[string][]byte{}
	newParser()
}

func newParser() {
	pModbus, pLcm, pPflog = &layers.ModbusTCP{}, &layers.LCM{}, &layers.PFLog{}
	parsers = map[string]*gopacket.DecodingLayerParser{}
	for _, k := range dlKinds {
		lt, _ := layerTypeOf(k)
		p := gopacket.NewDecodingLayerParser(lt, pModbus, pLcm, pPflog)
		p.IgnorePanic = true // let panics through (C19: "a layer parser that lets panics through")
		parsers[k] = p
	}
}

type feedback struct{ truncated bool }

func (f *feedback) SetTruncated() { f.truncated = true }

func b01(b bool) string {
	if b {
		return "1"
	}
	return "0"
}

// flowBytes renders the two endpoints of a flow accessor ("panic-<kind>" when it panics).
func flowBytes(f func() gopacket.Flow) (src, dst string) {
	defer func() {
		if v := recover(); v != nil {
			k := lib.PanicKind(v)
			src, dst = "panic-"+k, "panic-"+k
		}
	}()
	s, d := f().Endpoints()
	return lib.Hex(s.Raw()), lib.Hex(d.Raw())
}

func render(l gopacket.Layer) string {
	switch l := l.(type) {
	case *layers.ModbusTCP:
		return fmt.Sprintf("tid=%d pid=%d len=%d uid=%d contents=%s payload=%s next=%d",
			l.TransactionIdentifier, uint16(l.ProtocolIdentifier), l.Length, l.UnitIdentifier,
			lib.Hex(l.Contents), lib.Hex(l.Payload()), int(l.NextLayerType()))
	case *layers.LCM:
		return fmt.Sprintf("magic=%d seq=%d psize=%d foff=%d fnum=%d ftot=%d chan=%s frag=%s fp=%d contents=%s payload=%s next=%d",
			l.Magic, l.SequenceNumber, l.PayloadSize, l.FragmentOffset, l.FragmentNumber, l.TotalFragments,
			lib.Hex([]byte(l.ChannelName)), b01(l.Fragmented), uint64(l.Fingerprint()),
			lib.Hex(l.LayerContents()), lib.Hex(l.LayerPayload()), int(l.NextLayerType()))
	case *layers.PFLog:
		return fmt.Sprintf("len=%d fam=%d act=%d reason=%d ifname=%s ruleset=%s rulenum=%d subrule=%d uid=%d pid=%d ruleuid=%d rulepid=%d dir=%d contents=%s payload=%s next=%d",
			l.Length, uint8(l.Family), l.Action, l.Reason, lib.Hex(l.IFName), lib.Hex(l.Ruleset), l.RuleNum, l.SubruleNum, l.UID, l.PID,
			l.RuleUID, l.RulePID, uint8(l.Direction), lib.Hex(l.Contents), lib.Hex(l.Payload), int(l.NextLayerType()))
	case *layers.FDDI:
		fs, fd := flowBytes(l.LinkFlow)
		return fmt.Sprintf("fc=%d prio=%d src=%s dst=%s fsrc=%s fdst=%s contents=%s payload=%s", uint8(l.FrameControl), l.Priority,
			lib.Hex(l.SrcMAC), lib.Hex(l.DstMAC), fs, fd, lib.Hex(l.Contents), lib.Hex(l.Payload))
	}
	return "?"
}

// differingField names the first public field (incl. Contents/Payload) in which two layers differ.
func differingField(a, b gopacket.Layer) string {
	switch x := a.(type) {
	case *layers.ModbusTCP:
		y, ok := b.(*layers.ModbusTCP)
		switch {
		case !ok:
			return "type"
		case x.TransactionIdentifier != y.TransactionIdentifier:
			return "TransactionIdentifier"
		case x.ProtocolIdentifier != y.ProtocolIdentifier:
			return "ProtocolIdentifier"
		case x.Length != y.Length:
			return "Length"
		case x.UnitIdentifier != y.UnitIdentifier:
			return "UnitIdentifier"
		case !bytes.Equal(x.Contents, y.Contents):
			return "Contents"
		case !bytes.Equal(x.BaseLayer.Payload, y.BaseLayer.Payload):
			return "Payload"
		}
	case *layers.LCM:
		y, ok := b.(*layers.LCM)
		switch {
		case !ok:
			return "type"
		case x.Magic != y.Magic:
			return "Magic"
		case x.SequenceNumber != y.SequenceNumber:
			return "SequenceNumber"
		case x.PayloadSize != y.PayloadSize:
			return "PayloadSize"
		case x.FragmentOffset != y.FragmentOffset:
			return "FragmentOffset"
		case x.FragmentNumber != y.FragmentNumber:
			return "FragmentNumber"
		case x.TotalFragments != y.TotalFragments:
			return "TotalFragments"
		case x.ChannelName != y.ChannelName:
			return "ChannelName"
		case x.Fragmented != y.Fragmented:
			return "Fragmented"
		case x.Fingerprint() != y.Fingerprint():
			return "fingerprint"
		case x.NextLayerType() != y.NextLayerType():
			return "NextLayerType"
		case !bytes.Equal(x.LayerContents(), y.LayerContents()):
			return "Contents"
		case !bytes.Equal(x.LayerPayload(), y.LayerPayload()):
			return "Payload"
		}
	case *layers.PFLog:
		y, ok := b.(*layers.PFLog)
		switch {
		case !ok:
			return "type"
		case x.Length != y.Length:
			return "Length"
		case x.Family != y.Family:
			return "Family"
		case x.Action != y.Action:
			return "Action"
		case x.Reason != y.Reason:
			return "Reason"
		case !bytes.Equal(x.IFName, y.IFName):
			return "IFName"
		case !bytes.Equal(x.Ruleset, y.Ruleset):
			return "Ruleset"
		case x.RuleNum != y.RuleNum:
			return "RuleNum"
		case x.SubruleNum != y.SubruleNum:
			return "SubruleNum"
		case x.UID != y.UID:
			return "UID"
		case x.PID != y.PID:
			return "PID"
		case x.RuleUID != y.RuleUID:
			return "RuleUID"
		case x.RulePID != y.RulePID:
			return "RulePID"
		case x.Direction != y.Direction:
			return "Direction"
		case !bytes.Equal(x.Contents, y.Contents):
			return "Contents"
		case !bytes.Equal(x.Payload, y.Payload):
			return "Payload"
		}
	default:
		if render(a) != render(b) {
			return "render"
		}
	}
	return ""
}

// inBuf places data at the start of a backing array with `len(foreign)` spare bytes of capacity holding
// the foreign bytes, and returns the slice data[:len] with cap = len + len(foreign).
func inBuf(data, foreign []byte) []byte {
	back := make([]byte, len(data)+len(foreign))
	copy(back, data)
	copy(back[len(data):], foreign)
	return back[:len(data)]
}

func exact(data []byte) []byte { // cap == len
	c := make([]byte, len(data))
	copy(c, data)
	return c[:len(data):len(data)]
}

func isOurSite(site string) bool {
	for _, f := range []string{"layers/modbustcp.go", "layers/lcm.go", "layers/pflog.go", "layers/fddi.go", "layers/base.go"} {
		if strings.HasPrefix(site, f) {
			return true
		}
	}
	return false
}

// protect is lib.Protect with a panic-site extraction that also works when the repository under test
// is a scratch tree (VERIF_REPO): the site is the top-most stack frame inside the repository.
var lastSite, lastMsg string

func protect(f func() string) (reply string, panicked bool) {
	defer func() {
		if v := recover(); v != nil {
			lastMsg = fmt.Sprint(v)
			lastSite = siteOf(string(debug.Stack()))
			reply = "panic " + lib.PanicKind(v)
			panicked = true
		}
	}()
	return f(), false
}

func siteOf(stack string) string {
	root := os.Getenv("VERIF_REPO")
	if root == "" {
		root = "/repo"
	}
	root = strings.TrimRight(root, "/") + "/"
	for _, l := range strings.Split(stack, "\n") {
		l = strings.TrimSpace(l)
		if !strings.Contains(l, ".go:") {
			continue
		}
		f := strings.Fields(l)[0]
		if strings.HasPrefix(f, root) {
			return f[len(root):]
		}
		if j := strings.LastIndex(f, "gopacket/"); j >= 0 && !strings.Contains(f, "/verif/") {
			return f[j+len("gopacket/"):]
		}
	}
	return "?"
}

// guarded runs f; a panic is reported as a C19 finding with its site and returned as "panic <kind>".
func guarded(what string, f func() string) string {
	reply, panicked := protect(f)
	if panicked {
		lib.Finding("C19", "lmod:panic:"+lastSite, what+" panicked: "+lastMsg)
		lib.Stat("panic")
	}
	return reply
}

// registryIntact: decoding only READS the package-level LCM fingerprint map (C02 / C05: no hidden state).
func registryIntact() {
	fps := layers.SupportedLCMFingerprints()
	if len(fps) != 2 || layers.GetLCMLayerType(lcmFpA) != gopacket.LayerType(1999) || layers.GetLCMLayerType(lcmFpB) != gopacket.LayerType(1998) {
		lib.Finding("C05", "lmod:lcm-registry-written", "the LCM fingerprint registry changed while decoding")
	}
}

// ---------------------------------------------------------------- DecodeFromBytes ops (modbus, lcm, pflog)

// decInto: DecodeFromBytes into obj; the reply renders the receiver on an error too (what the failed call left).
func decInto(obj dlayer, data []byte) (string, error, bool) {
	fb := &feedback{}
	err := obj.DecodeFromBytes(data, fb)
	if err != nil {
		return "err trunc=" + b01(fb.truncated) + " | " + render(obj), err, fb.truncated
	}
	return "ok " + render(obj) + " trunc=" + b01(fb.truncated), nil, fb.truncated
}

func statDec(kind string, obj gopacket.Layer, err error, n int, trunc bool) {
	if err != nil {
		lib.Stat(kind + ":dec:err")
		if trunc {
			lib.Stat(kind + ":dec:err:trunc")
		}
		switch l := obj.(type) {
		case *layers.ModbusTCP:
			if n >= 9 && n <= 260 {
				lib.Stat("modbus:dec:err:length-field")
			}
		case *layers.LCM:
			if n >= 8 && l.Magic != layers.LCMShortHeaderMagic && l.Magic != layers.LCMFragmentedHeaderMagic {
				lib.Stat("lcm:dec:err:magic")
			} else if n >= 8 {
				lib.Stat("lcm:dec:err:frag-header-short")
			}
		case *layers.PFLog:
			if n >= 61 {
				lib.Stat("pflog:dec:err:length-beyond-data")
			}
		}
		return
	}
	lib.Stat(kind + ":dec:ok")
	lib.Nontrivial()
	switch l := obj.(type) {
	case *layers.ModbusTCP:
		lib.Stat(fmt.Sprintf("modbus:dec:pdu=%d", min(len(l.Payload()), 9)))
		if len(l.Payload()) == 253 {
			lib.Stat("modbus:dec:pdu=max")
		}
	case *layers.LCM:
		switch {
		case !l.Fragmented:
			lib.Stat("lcm:dec:short")
		case l.FragmentNumber == 0:
			lib.Stat("lcm:dec:first-fragment")
		default:
			lib.Stat("lcm:dec:later-fragment")
		}
		if len(l.LayerPayload()) < 8 {
			lib.Stat("lcm:dec:no-fingerprint")
		}
		if l.NextLayerType() != gopacket.LayerTypePayload && l.NextLayerType() != gopacket.LayerTypeFragment {
			lib.Stat("lcm:dec:registered-fingerprint")
		}
		if (!l.Fragmented || l.FragmentNumber == 0) && len(l.LayerContents()) > 0 && l.LayerContents()[len(l.LayerContents())-1] != 0 {
			lib.Stat("lcm:dec:name-unterminated")
		}
	case *layers.PFLog:
		lib.Stat(fmt.Sprintf("pflog:dec:len%%4=%d", l.Length%4))
		if int(l.Length) < 61 {
			lib.Stat("pflog:dec:len<61")
		}
		if l.NextLayerType() != gopacket.LayerTypeZero {
			lib.Stat(fmt.Sprintf("pflog:dec:next=%d", int(l.NextLayerType())))
		}
	case *layers.FDDI:
		if l.FrameControl == layers.FDDIFrameControlLLC {
			lib.Stat("fddi:dec:llc")
		}
	}
}

func opDecDL(kind string, extra int, foreign, data []byte) string {
	return guarded(kind+".DecodeFromBytes", func() string {
		obj := newObj(kind)
		cur[kind] = obj
		reply, err, tr := decInto(obj, inBuf(data, foreign))
		statDec(kind, obj, err, len(data), tr)
		lt, _ := layerTypeOf(kind)
		if got := obj.CanDecode(); got != gopacket.LayerClass(lt) {
			lib.Finding("C05", "lmod:candecode:"+kind, "CanDecode is not the layer's own type")
		}
		// C05/C04 oracle: the same bytes in a buffer with cap == len
		ref := newObj(kind)
		refReply, _, _ := decInto(ref, exact(data))
		if reply != refReply {
			lib.Finding("C05", "lmod:cap-dependent", kind+" decode depends on spare capacity / foreign bytes: "+reply+" vs "+refReply)
		}
		if extra > 0 {
			lib.Stat(kind + ":dec:spare-cap")
		}
		if kind == "lcm" {
			registryIntact()
		}
		return reply
	})
}

func opRedec(kind string, data []byte) string {
	if newObj(kind) == nil {
		return "bad-op"
	}
	return guarded(kind+".DecodeFromBytes", func() string {
		obj := cur[kind]
		reply, err, tr := decInto(obj, exact(data))
		statDec(kind, obj, err, len(data), tr)
		lib.Stat(kind + ":redec")
		fresh := newObj(kind)
		fb := &feedback{}
		ferr := fresh.DecodeFromBytes(exact(data), fb)
		if (ferr != nil) != (err != nil) {
			lib.Finding("C05", "lmod:stale:error", kind+": reused object and fresh object disagree on the error")
		} else {
			if err == nil {
				if f := differingField(obj, fresh); f != "" {
					lib.Finding("C05", "lmod:stale:"+f, kind+"."+f+" differs between a reused and a fresh object")
				}
			}
			if fb.truncated != tr {
				lib.Finding("C05", "lmod:stale:Truncated", kind+": truncation flag differs between a reused and a fresh object")
			}
		}
		return reply
	})
}

// ---------------------------------------------------------------- tracing PacketBuilder (does not recurse)

type tracer struct {
	acts  []string
	tail  string
	added gopacket.Layer
	nadd  int
}

func (t *tracer) SetTruncated() { t.acts = append(t.acts, "trunc") }
func (t *tracer) AddLayer(l gopacket.Layer) {
	t.acts = append(t.acts, fmt.Sprintf("add:%d", int(l.LayerType())))
	t.added = l
	t.nadd++
}
func (t *tracer) SetLinkLayer(gopacket.LinkLayer)               { t.acts = append(t.acts, "link") }
func (t *tracer) SetNetworkLayer(gopacket.NetworkLayer)         { t.acts = append(t.acts, "net") }
func (t *tracer) SetTransportLayer(gopacket.TransportLayer)     { t.acts = append(t.acts, "transport") }
func (t *tracer) SetApplicationLayer(gopacket.ApplicationLayer) { t.acts = append(t.acts, "app") }
func (t *tracer) SetErrorLayer(gopacket.ErrorLayer)             { t.acts = append(t.acts, "errlayer") }
func (t *tracer) DumpPacketData()                               {}
func (t *tracer) DecodeOptions() *gopacket.DecodeOptions        { return &gopacket.DecodeOptions{} }
func (t *tracer) NextDecoder(next gopacket.Decoder) error {
	switch d := next.(type) {
	case layers.FDDIFrameControl:
		t.tail = fmt.Sprintf("fc:%d", uint8(d))
	case gopacket.LayerType:
		t.tail = fmt.Sprintf("lt:%d", int(d))
	case nil:
		t.tail = "nil"
	default:
		t.tail = "other"
	}
	return nil
}

func (t *tracer) render(err error) string {
	tail := t.tail
	if err != nil {
		tail = "fail"
	} else if tail == "" {
		tail = "done"
	}
	acts := "-"
	if len(t.acts) > 0 {
		acts = strings.Join(t.acts, ",")
	}
	s := "acts=" + acts + " tail=" + tail
	if t.added != nil {
		s += " | " + render(t.added)
	}
	return s
}

func decodeWith(lt gopacket.LayerType, in []byte) (*tracer, error) {
	t := &tracer{}
	err := lt.Decode(in, t)
	return t, err
}

// opFn: the decoder function registered for the kind's LayerType, on a tracing builder, input in a buffer
// with spare capacity.
func opFn(kind string, extra int, foreign, data []byte) string {
	lt, ok := layerTypeOf(kind)
	if !ok {
		return "bad-op"
	}
	return guarded("decoder function of "+kind, func() string {
		t, err := decodeWith(lt, inBuf(data, foreign))
		reply := t.render(err)
		tail := "fail"
		if err == nil {
			tail = strings.SplitN(t.render(nil), "tail=", 2)[1]
			tail = strings.SplitN(strings.Fields(tail)[0], ":", 2)[0]
		}
		lib.Stat("fn:" + kind + ":" + tail)
		if t.added != nil {
			lib.Nontrivial()
			if kind == "fddi" {
				statDec(kind, t.added, nil, len(data), false)
			}
		} else if kind == "fddi" {
			lib.Stat(kind + ":dec:err")
		}
		if extra > 0 {
			lib.Stat("fn:" + kind + ":spare-cap")
		}
		// C05/C04 oracle: the same bytes in a buffer with cap == len
		t2, err2 := decodeWith(lt, exact(data))
		ref := t2.render(err2)
		if ref != reply {
			lib.Finding("C05", "lmod:cap-dependent", kind+": decoder function depends on spare capacity / foreign bytes: "+reply+" vs "+ref)
		}
		if obj := newObj(kind); obj != nil {
			// C05 oracle: the layer added to the packet = a direct fresh DecodeFromBytes
			rerr := obj.DecodeFromBytes(exact(data), &feedback{})
			switch {
			case (rerr != nil) != (t.added == nil):
				lib.Finding("C05", "lmod:pkt-differs", kind+": the registered decoder adds a layer iff DecodeFromBytes succeeds — violated")
			case rerr == nil && differingField(t.added, obj) != "":
				lib.Finding("C05", "lmod:pkt-differs", kind+": layer added by the registered decoder differs from a direct fresh DecodeFromBytes: "+differingField(t.added, obj))
			}
		} else {
			// no DecodeFromBytes: no hidden state between calls (decode the previous input, then this one again)
			if prev, ok := prevInput[kind]; ok {
				decodeWith(lt, exact(prev))
				t3, err3 := decodeWith(lt, exact(data))
				if again := t3.render(err3); again != ref {
					lib.Finding("C05", "lmod:stale:history", kind+": the same bytes decode differently after another packet was decoded: "+ref+" vs "+again)
				}
				if t3.added != nil && (t3.added == t.added || t3.added == t2.added) {
					lib.Finding("C05", "lmod:stale:object", kind+": two decoder calls returned the same layer object")
				}
				lib.Stat(kind + ":dec:after-other")
			}
			prevInput[kind] = append([]byte(nil), data...)
		}
		if kind == "lcm" {
			registryIntact()
		}
		return reply
	})
}

// ---------------------------------------------------------------- NewPacket / DecodingLayerParser

func opPkt(kind, mode string, extra int, foreign, data []byte) string {
	first, ok := layerTypeOf(kind)
	if !ok || len(foreign) != extra || (mode != "copy" && mode != "nocopy" && mode != "lazy" && mode != "pool") {
		return "bad-op"
	}
	if len(data) == 0 {
		return "empty"
	}
	type obs struct {
		ls        []gopacket.Layer
		link, app bool
		trunc     bool
	}
	build := func(skipRecovery bool) obs {
		opts := gopacket.DecodeOptions{SkipDecodeRecovery: skipRecovery}
		in := exact(data)
		switch mode {
		case "nocopy":
			opts.NoCopy = true
			in = inBuf(data, foreign)
		case "lazy":
			opts.Lazy = true
		case "pool":
			opts.Pool = true
		}
		p := gopacket.NewPacket(in, first, opts)
		var o obs
		o.ls = p.Layers()
		if len(o.ls) > 0 {
			if ll := p.LinkLayer(); ll != nil && gopacket.Layer(ll) == o.ls[0] {
				o.link = true
			}
			if al := p.ApplicationLayer(); al != nil && gopacket.Layer(al) == o.ls[0] {
				o.app = true
			}
		}
		o.trunc = p.Metadata().Truncated
		return o
	}
	var o obs
	_, panicked := protect(func() string { o = build(true); return "" })
	if panicked {
		if isOurSite(lastSite) {
			lib.Finding("C19", "lmod:panic:"+lastSite, "NewPacket(SkipDecodeRecovery) panicked in this layer: "+lastMsg)
			return "panic " + lib.PanicKind(lastMsg)
		}
		// a decoder of a LATER layer panicked (other engines' business): observe this layer with recovery on
		lib.Stat("pkt:later-layer-panic:" + lastSite)
		o = build(false)
	}
	lib.Stat("pkt:" + kind + ":" + mode)
	if len(o.ls) == 0 || o.ls[0].LayerType() != first {
		lib.Stat("pkt:fail")
		// oracle: the packet reports a failure exactly when the registered decoder (direct call) adds no layer
		if t, _ := decodeWith(first, exact(data)); t.added != nil {
			lib.Finding("C05", "lmod:pkt-differs", "NewPacket("+mode+") shows no "+kind+" layer although the registered decoder adds one")
		}
		return "fail trunc=" + b01(o.trunc)
	}
	// oracle: the first layer equals what a direct call of the registered decoder (fresh tracing builder) adds
	t, _ := decodeWith(first, exact(data))
	if t.added == nil || render(t.added) != render(o.ls[0]) {
		lib.Finding("C05", "lmod:pkt-differs", "first layer built by NewPacket("+mode+") differs from a direct call of the registered decoder")
	}
	if obj := newObj(kind); obj != nil {
		if err := obj.DecodeFromBytes(exact(data), &feedback{}); err != nil || differingField(o.ls[0], obj) != "" {
			lib.Finding("C05", "lmod:pkt-differs", "first layer built by NewPacket("+mode+") differs from a direct fresh DecodeFromBytes")
		}
	}
	lib.Nontrivial()
	return "ok " + render(o.ls[0]) + " link=" + b01(o.link) + " app=" + b01(o.app)
}

func opDlp(re bool, kind string, data []byte) string {
	if newObj(kind) == nil {
		return "bad-op"
	}
	if !re {
		newParser()
	}
	parser := parsers[kind]
	first, _ := layerTypeOf(kind)
	return guarded("DecodingLayerParser.DecodeLayers", func() string {
		var decoded []gopacket.LayerType
		err := parser.DecodeLayers(exact(data), &decoded)
		code := 0
		var unsup gopacket.UnsupportedLayerType
		if errors.As(err, &unsup) {
			code = 2
		} else if err != nil {
			code = 1
		}
		ds := make([]string, len(decoded))
		for i, t := range decoded {
			ds[i] = lib.Itoa(int(t))
		}
		dec := "-"
		if len(ds) > 0 {
			dec = strings.Join(ds, ",")
		}
		lib.Stat(fmt.Sprintf("dlp:%s:layers=%d:code=%d", kind, len(decoded), code))
		if len(decoded) >= 1 {
			lib.Nontrivial()
		}
		// C05 oracle: the run equals the leading run of NewPacket's layers with equal fields
		if len(data) > 0 {
			var pl []gopacket.Layer
			var ptr bool
			_, pk := protect(func() string {
				pk := gopacket.NewPacket(exact(data), first, gopacket.DecodeOptions{})
				pl = pk.Layers()
				ptr = pk.Metadata().Truncated
				return ""
			})
			if !pk {
				objs := map[gopacket.LayerType]gopacket.Layer{layers.LayerTypeModbusTCP: pModbus, layers.LayerTypeLCM: pLcm, layers.LayerTypePFLog: pPflog}
				for i, t := range decoded {
					if i >= len(pl) || pl[i].LayerType() != t {
						lib.Finding("C05", "lmod:dlp-differs", "parser run is not a prefix of the packet's layers")
						break
					}
					if f := differingField(pl[i], objs[t]); f != "" {
						lib.Finding("C05", "lmod:dlp-differs", "parser's layer differs from the packet's: "+f)
					}
				}
				// the run must not stop early: when the parser stopped without an error of its own (code 0 / 2) after n
				// layers, the packet's layer n (if any) is of a type outside the set
				if code != 1 && len(decoded) < len(pl) {
					if k := kindOf(pl[len(decoded)]); k == "modbus" || k == "lcm" || k == "pflog" {
						lib.Finding("C05", "lmod:dlp-differs", "parser stopped before a layer of a type in its set")
					}
				}
				// a packet accumulates the flags of later layers too, so only "parser truncated => packet truncated" is demanded
				if parser.Truncated && !ptr {
					lib.Finding("C05", "lmod:dlp-differs", "parser reports truncation, the packet does not")
				}
			}
		}
		registryIntact()
		return fmt.Sprintf("code=%d decoded=%s trunc=%s | %s | %s | %s", code, dec, b01(parser.Truncated), render(pModbus), render(pLcm), render(pPflog))
	})
}

// ---------------------------------------------------------------- flows

func renderFlow(f gopacket.Flow) string {
	src, dst := f.Endpoints()
	rs, rd := f.Reverse().Endpoints()
	return fmt.Sprintf("ok et=%d src=%s dst=%s rsrc=%s rdst=%s", int(f.EndpointType()), lib.Hex(src.Raw()), lib.Hex(dst.Raw()), lib.Hex(rs.Raw()), lib.Hex(rd.Raw()))
}

func sub(data []byte, a, b int) []byte {
	if a <= b && b <= len(data) {
		return data[a:b]
	}
	return nil
}

// flowOfPacket decodes data as FDDI with NewPacket (recovery on) and returns the flow reported through the
// packet's link slot.
func flowOfPacket(data []byte) (f gopacket.Flow, ok bool) {
	p := gopacket.NewPacket(exact(data), layers.LayerTypeFDDI, gopacket.DecodeOptions{})
	ls := p.Layers()
	if len(ls) == 0 || ls[0].LayerType() != layers.LayerTypeFDDI {
		return f, false
	}
	ll := p.LinkLayer()
	if ll == nil || gopacket.Layer(ll) != ls[0] {
		lib.Finding("C17", "lmod:flow-slot", "fddi: the decoded layer is not the packet's link layer")
		return f, false
	}
	return ll.LinkFlow(), true
}

func opFlow(kind string, data []byte) string {
	switch kind {
	case "modbus", "lcm", "pflog":
		var l interface{} = newObj(kind)
		_, a := l.(gopacket.LinkLayer)
		_, b := l.(gopacket.NetworkLayer)
		_, c := l.(gopacket.TransportLayer)
		if a || b || c {
			return "has-flow"
		}
		return "none"
	case "fddi":
	default:
		return "bad-op"
	}
	reply, pk := protect(func() string {
		f, ok := flowOfPacket(data)
		if !ok {
			lib.Stat("flow:fddi:err")
			return "err"
		}
		lib.Stat("flow:fddi")
		lib.Nontrivial()
		// independent oracle: the address bytes at the fixed offsets of the input
		wsrc, wdst := sub(data, 1, 7), sub(data, 7, 13)
		src, dst := f.Endpoints()
		et := layers.EndpointMAC
		if f.EndpointType() != et || !bytes.Equal(src.Raw(), wsrc) || !bytes.Equal(dst.Raw(), wdst) || src.EndpointType() != et || dst.EndpointType() != et {
			lib.Finding("C17", "lmod:flow-bytes", fmt.Sprintf("fddi flow carries %s>%s (type %d), the packet's address bytes are %s>%s", lib.Hex(src.Raw()), lib.Hex(dst.Raw()), int(f.EndpointType()), lib.Hex(wsrc), lib.Hex(wdst)))
		}
		if f.Reverse().Reverse() != f || f.Reverse().FastHash() != f.FastHash() {
			lib.Finding("C17", "lmod:flow-reverse", "fddi: Reverse is not an involution / FastHash not symmetric")
		}
		// the frame of the opposite direction: the two address fields exchanged
		opp := append([]byte(nil), data...)
		copy(opp[1:7], data[7:13])
		copy(opp[7:13], data[1:7])
		g, ok := flowOfPacket(opp)
		switch {
		case !ok:
			lib.Finding("C17", "lmod:flow-reverse", "fddi: the frame of the opposite direction does not decode")
		case g != f.Reverse() || g.Reverse() != f:
			lib.Finding("C17", "lmod:flow-reverse", "fddi: the two directions do not give mutually reversed flows")
		case g.FastHash() != f.FastHash():
			lib.Finding("C17", "lmod:flow-hash", "fddi: the two directions have different FastHash")
		}
		lib.Stat("flow:fddi:opposite")
		if bytes.Equal(wsrc, wdst) {
			lib.Stat("flow:fddi:self")
		}
		return renderFlow(f)
	})
	if pk {
		lib.Finding("C17", "lmod:flow-panic:"+lastSite, "fddi: flow of a decoded layer panicked: "+lastMsg)
	}
	return reply
}

// opFlowRaw: LinkFlow of a hand-made FDDI with addresses of ANY length: NewFlow rejects (panics on) more
// than MaxEndpointSize bytes — the rejection the property asks for; reported as `panic explicit` by both sides.
func opFlowRaw(srcA, dstA []byte) string {
	l := &layers.FDDI{SrcMAC: append([]byte(nil), srcA...), DstMAC: append([]byte(nil), dstA...)}
	reply, pk := protect(func() string {
		f := l.LinkFlow()
		src, dst := f.Endpoints()
		if f.EndpointType() != layers.EndpointMAC || !bytes.Equal(src.Raw(), srcA) || !bytes.Equal(dst.Raw(), dstA) {
			lib.Finding("C17", "lmod:flow-bytes", "fddi: LinkFlow of a hand-made layer does not carry its addresses")
		}
		lib.Stat("flowraw:fddi")
		return renderFlow(f)
	})
	if pk {
		lib.Stat("flowraw:fddi:rejected")
		if len(srcA) <= gopacket.MaxEndpointSize && len(dstA) <= gopacket.MaxEndpointSize {
			lib.Finding("C17", "lmod:flow-panic:"+lastSite, "fddi: LinkFlow panicked on addresses within MaxEndpointSize: "+lastMsg)
		}
	}
	return reply
}

// ---------------------------------------------------------------- tables

func opTab() string {
	var fam, fc, reg []string
	for i := 0; i < 256; i++ {
		if layers.ProtocolFamilyMetadata[i].DecodeWith != nil {
			fam = append(fam, fmt.Sprintf("%d:%d", i, int(layers.ProtocolFamily(i).LayerType())))
		} else if layers.ProtocolFamily(i).LayerType() != gopacket.LayerTypeZero {
			fam = append(fam, fmt.Sprintf("%d:-1", i))
		}
		if layers.FDDIFrameControlMetadata[i].DecodeWith != nil {
			fc = append(fc, lib.Itoa(i))
		}
	}
	fps := layers.SupportedLCMFingerprints()
	sort.Slice(fps, func(a, b int) bool { return fps[a] < fps[b] })
	for _, fp := range fps {
		reg = append(reg, fmt.Sprintf("%d:%d", uint64(fp), int(layers.GetLCMLayerType(fp))))
	}
	lib.Stat("tab")
	return fmt.Sprintf("ok fam=%s fc=%s lt=%d,%d,%d,%d,%d,%d,%d ep=%d max=%d lcmreg=%s", strings.Join(fam, ","), strings.Join(fc, ","),
		int(layers.LayerTypeModbusTCP), int(layers.LayerTypeLCM), int(layers.LayerTypePFLog), int(layers.LayerTypeFDDI),
		int(gopacket.LayerTypePayload), int(gopacket.LayerTypeFragment), int(layers.LayerTypeLLC),
		int(layers.EndpointMAC), gopacket.MaxEndpointSize, strings.Join(reg, ","))
}

// ---------------------------------------------------------------- dispatcher

func triple(a []string) (int, []byte, []byte, bool) {
	extra, ok1 := lib.Atoi(a[0])
	foreign, ok2 := lib.UnHex(a[1])
	data, ok3 := lib.UnHex(a[2])
	if !ok1 || !ok2 || !ok3 || extra < 0 || len(foreign) != extra {
		return 0, nil, nil, false
	}
	return extra, foreign, data, true
}

func exec(a []string) string {
	if len(a) < 2 || a[0] != "lmod" {
		return "bad-op"
	}
	switch a[1] {
	case "dec":
		if len(a) != 6 {
			return "bad-op"
		}
		extra, foreign, data, ok := triple(a[3:])
		if !ok {
			return "bad-op"
		}
		switch a[2] {
		case "modbus", "lcm", "pflog":
			return opDecDL(a[2], extra, foreign, data)
		case "fddi":
			return opFn(a[2], extra, foreign, data)
		}
		return "bad-op"
	case "redec":
		if len(a) != 4 {
			return "bad-op"
		}
		data, ok := lib.UnHex(a[3])
		if !ok {
			return "bad-op"
		}
		return opRedec(a[2], data)
	case "fn":
		if len(a) != 6 {
			return "bad-op"
		}
		extra, foreign, data, ok := triple(a[3:])
		if !ok {
			return "bad-op"
		}
		return opFn(a[2], extra, foreign, data)
	case "pkt":
		if len(a) != 7 {
			return "bad-op"
		}
		extra, foreign, data, ok := triple(a[4:])
		if !ok {
			return "bad-op"
		}
		return opPkt(a[2], a[3], extra, foreign, data)
	case "dlp", "redlp":
		if len(a) != 4 {
			return "bad-op"
		}
		data, ok := lib.UnHex(a[3])
		if !ok {
			return "bad-op"
		}
		return opDlp(a[1] == "redlp", a[2], data)
	case "flow":
		if len(a) != 4 {
			return "bad-op"
		}
		data, ok := lib.UnHex(a[3])
		if !ok {
			return "bad-op"
		}
		return opFlow(a[2], data)
	case "flowraw":
		if len(a) != 5 || a[2] != "fddi" {
			return "bad-op"
		}
		s, ok1 := lib.UnHex(a[3])
		d, ok2 := lib.UnHex(a[4])
		if !ok1 || !ok2 {
			return "bad-op"
		}
		return opFlowRaw(s, d)
	case "tab":
		if len(a) != 2 {
			return "bad-op"
		}
		return opTab()
	}
	return "bad-op"
}

func main() {
	// two user-registered LCM message types (what RegisterLCMLayerType is for); the decoders only ever READ the registry
	layers.RegisterLCMLayerType(1999, "LmodLCMTypeA", lcmFpA, gopacket.DecodePayload)
	layers.RegisterLCMLayerType(1998, "LmodLCMTypeB", lcmFpB, gopacket.DecodePayload)
	reset()
	lib.Main(lib.Engine{Name: "lmod", Gen: gen, Reset: reset, Exec: exec})
}
