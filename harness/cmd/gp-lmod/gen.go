package main

import (
	"fmt"
	"go/ast"
	goparser "go/parser"
	"go/token"
	"net"
	"os"
	"path/filepath"
	"sort"
	"strconv"

	"github.com/gopacket/gopacket"
	"github.com/gopacket/gopacket/layers"
	"verif/harness/lib"
)

// ---------------------------------------------------------------- fixtures

// literals collects every `[]byte{…}` literal (all elements literal) from the repository's own
// layers/*_test.go files.
func literals() [][]byte {
	repo := os.Getenv("VERIF_REPO")
	if repo == "" {
		repo = "/repo"
	}
	files, _ := filepath.Glob(filepath.Join(repo, "layers", "*_test.go"))
	sort.Strings(files)
	var out [][]byte
	fset := token.NewFileSet()
	for _, fn := range files {
		f, err := goparser.ParseFile(fset, fn, nil, 0)
		if err != nil {
			continue
		}
		ast.Inspect(f, func(n ast.Node) bool {
			cl, ok := n.(*ast.CompositeLit)
			if !ok {
				return true
			}
			at, ok := cl.Type.(*ast.ArrayType)
			if !ok || at.Len != nil {
				return true
			}
			id, ok := at.Elt.(*ast.Ident)
			if !ok || (id.Name != "byte" && id.Name != "uint8") {
				return true
			}
			b := make([]byte, 0, len(cl.Elts))
			for _, e := range cl.Elts {
				bl, ok := e.(*ast.BasicLit)
				if !ok {
					return true
				}
				switch bl.Kind {
				case token.INT:
					v, err := strconv.ParseUint(bl.Value, 0, 8)
					if err != nil {
						return true
					}
					b = append(b, byte(v))
				case token.CHAR:
					s, err := strconv.Unquote(bl.Value)
					if err != nil || len(s) != 1 {
						return true
					}
					b = append(b, s[0])
				default:
					return true
				}
			}
			if len(b) >= 2 && len(b) <= 1600 {
				out = append(out, b)
			}
			return true
		})
	}
	return out
}

type fixtures map[string][][]byte

// harvest decodes every test literal of the repository with several first decoders (recovery on) and
// keeps the bytes (contents ++ payload) of every layer of this engine found in them.
func harvest(fx fixtures) {
	seen := map[string]bool{}
	add := func(kind string, b []byte) {
		if len(b) > 400 {
			b = b[:400]
		}
		k := kind + string(b)
		if !seen[k] {
			seen[k] = true
			fx[kind] = append(fx[kind], append([]byte(nil), b...))
		}
	}
	firsts := []gopacket.Decoder{layers.LayerTypeEthernet, layers.LayerTypeIPv4, layers.LayerTypeModbusTCP, layers.LayerTypeLCM,
		layers.LayerTypePFLog, layers.LayerTypeFDDI, layers.LinkTypePFLog, layers.LinkTypeFDDI}
	for _, lit := range literals() {
		for _, first := range firsts {
			func() {
				defer func() { recover() }()
				p := gopacket.NewPacket(lit, first, gopacket.DecodeOptions{})
				for _, l := range p.Layers() {
					if k := kindOf(l); k != "" {
						add(k, append(append([]byte(nil), l.LayerContents()...), l.LayerPayload()...))
					}
				}
			}()
		}
	}
}

func be16(v int) []byte { return []byte{byte(v >> 8), byte(v)} }
func be32(v uint32) []byte {
	return []byte{byte(v >> 24), byte(v >> 16), byte(v >> 8), byte(v)}
}
func be64(v uint64) []byte { return append(be32(uint32(v>>32)), be32(uint32(v))...) }

func cat(bs ...[]byte) []byte {
	var out []byte
	for _, b := range bs {
		out = append(out, b...)
	}
	return out
}

var (
	lcmShort = be32(layers.LCMShortHeaderMagic)
	lcmFrag  = be32(layers.LCMFragmentedHeaderMagic)
)

// nonzero bytes (channel names)
func name(r *lib.Rand, n int) []byte {
	b := r.Bytes(n)
	for i := range b {
		if b[i] == 0 {
			b[i] = 'x'
		}
	}
	return b
}

// built fixtures: none of the four layers can be serialised by the repository, so the headers are made by
// hand and the inner packets by the repository's own serializers.
func built(r *lib.Rand, fx fixtures) {
	ser := func(ls ...gopacket.SerializableLayer) (out []byte) {
		defer func() {
			if recover() != nil {
				out = nil
			}
		}()
		b := gopacket.NewSerializeBuffer()
		if err := gopacket.SerializeLayers(b, gopacket.SerializeOptions{FixLengths: true, ComputeChecksums: true}, ls...); err != nil {
			return nil
		}
		return append([]byte(nil), b.Bytes()...)
	}
	ip4 := &layers.IPv4{Version: 4, IHL: 5, TTL: 64, Protocol: layers.IPProtocolUDP, SrcIP: net.IP{10, 0, 0, 1}, DstIP: net.IP{10, 0, 0, 2}}
	udp4 := &layers.UDP{SrcPort: 1000, DstPort: 2000}
	udp4.SetNetworkLayerForChecksum(ip4)
	ip6 := &layers.IPv6{Version: 6, HopLimit: 64, NextHeader: layers.IPProtocolUDP, SrcIP: net.ParseIP("fe80::1"), DstIP: net.ParseIP("fe80::2")}
	udp6 := &layers.UDP{SrcPort: 1000, DstPort: 2000}
	udp6.SetNetworkLayerForChecksum(ip6)
	v4 := ser(ip4, udp4, gopacket.Payload(r.Bytes(5)))
	v6 := ser(ip6, udp6, gopacket.Payload(r.Bytes(3)))
	llc := ser(&layers.LLC{DSAP: 0xaa, SSAP: 0xaa, Control: 3}, &layers.SNAP{OrganizationalCode: []byte{0, 0, 0}, Type: layers.EthernetTypeIPv4}, gopacket.Payload(v4))

	// ModbusTCP: MBAP header (transaction, protocol, length, unit) + PDU
	mb := func(tid, pid, length, uid int, pdu []byte) []byte {
		return cat(be16(tid), be16(pid), be16(length), []byte{byte(uid)}, pdu)
	}
	for _, n := range []int{2, 3, 5, 10, 100, 252, 253} {
		pdu := r.Bytes(n)
		fx["modbus"] = append(fx["modbus"], mb(r.Intn(65536), 0, n+1, r.Intn(256), pdu))         // valid
		fx["modbus"] = append(fx["modbus"], mb(r.Intn(65536), r.Intn(65536), n+1, 255, pdu))     // any protocol id decodes
		for _, l := range []int{0, 1, n, n + 2, 0xffff, 0x0100 + n + 1} {
			fx["modbus"] = append(fx["modbus"], mb(1, 0, l, 1, pdu)) // wrong Length
		}
	}
	fx["modbus"] = append(fx["modbus"], mb(1, 0, 2, 1, r.Bytes(1)), mb(1, 0, 255, 1, r.Bytes(254)), mb(1, 0, 256, 1, r.Bytes(255)), // too short / too long
		mb(7, 0, 1, 9, nil))

	// LCM: magic, sequence number, [payload size, fragment offset, fragment number, total fragments], [channel name NUL], fingerprint, data
	short := func(seq uint32, rest ...[]byte) []byte { return cat(append([][]byte{lcmShort, be32(seq)}, rest...)...) }
	frag := func(seq, size, off uint32, num, tot int, rest ...[]byte) []byte {
		return cat(append([][]byte{lcmFrag, be32(seq), be32(size), be32(off), be16(num), be16(tot)}, rest...)...)
	}
	fpU := be64(r.U64() | 1<<63)
	for _, nl := range []int{0, 1, 4, 17, 63} {
		nm := cat(name(r, nl), []byte{0})
		fx["lcm"] = append(fx["lcm"],
			short(uint32(r.U64()), nm, fpU, r.Bytes(r.Intn(20))),   // fingerprint + data
			short(uint32(r.U64()), nm, be64(lcmFpA), r.Bytes(6)),    // registered fingerprint
			short(uint32(r.U64()), nm, be64(lcmFpB)),                // registered fingerprint, nothing else
			short(uint32(r.U64()), nm, r.Bytes(7)),                  // 7 bytes after the name: no fingerprint
			short(uint32(r.U64()), nm),                              // nothing after the name
			short(uint32(r.U64()), name(r, nl)),                     // the name is not terminated
			frag(uint32(r.U64()), 1000, 0, 0, 3, nm, fpU, r.Bytes(9)),         // first fragment: has a name
			frag(uint32(r.U64()), 1000, 0, 0, 3, nm, be64(lcmFpA), r.Bytes(2)), // first fragment, registered
			frag(uint32(r.U64()), 1000, 0, 0, 3, nm, r.Bytes(3)),
			frag(uint32(r.U64()), 1000, 0, 0, 3, name(r, nl)),
		)
	}
	fx["lcm"] = append(fx["lcm"],
		frag(1, 1000, 400, 1, 3, r.Bytes(30)),            // later fragment: no name, "fingerprint" = first data bytes
		frag(1, 1000, 400, 1, 3, be64(lcmFpA), r.Bytes(3)), // later fragment whose data look like a registered fingerprint
		frag(1, 1000, 800, 2, 3, r.Bytes(5)),             // later fragment, fewer than 8 data bytes
		frag(1, 1000, 800, 65535, 65535),                 // header only
		frag(2, 0xffffffff, 0xffffffff, 0, 0),            // first fragment, header only
		cat(lcmFrag, be32(9), r.Bytes(11)),               // fragmented header one byte short
		cat(lcmFrag, be32(9)),                            // fragmented magic, 8 bytes (GHSA regression input)
		cat(lcmShort, be32(9)),                           // short header only
		cat(be32(0x4c433031), be32(1), r.Bytes(12)),      // unknown magic
		cat(be32(0x4c433034), be32(1), r.Bytes(12)),
		cat(be32(0), be32(0)),
	)

	// PFLog: length, family, action, reason, ifname[16], ruleset[16], rulenum, subrule, uid, pid, ruleuid, rulepid, dir, pad[3]
	pf := func(length, fam int, pad []byte, inner []byte) []byte {
		return cat([]byte{byte(length), byte(fam), byte(r.Intn(4)), byte(r.Intn(16))}, append([]byte("em0"), make([]byte, 13)...), r.Bytes(16),
			be32(uint32(r.U64())), be32(0xffffffff), be32(uint32(r.Intn(70000))), be32(uint32(r.U64())), be32(1000), be32(0xffffffff), []byte{byte(r.Intn(3))}, pad, inner)
	}
	inner := map[int][]byte{2: v4, 24: v6, 28: v6, 30: v6, 10: v6, 0: r.Bytes(9), 1: r.Bytes(9), 255: r.Bytes(2)}
	for _, fam := range []int{2, 24, 28, 30, 10, 0, 1, 255} {
		fx["pflog"] = append(fx["pflog"], pf(61, fam, make([]byte, 3), inner[fam])) // the usual header: 61 → 64 bytes
	}
	for _, l := range []int{0, 1, 2, 3, 4, 5, 57, 60, 61, 62, 63, 64, 65, 68, 69, 100, 101, 252, 253, 254, 255} {
		fx["pflog"] = append(fx["pflog"], pf(l, 2, make([]byte, 3), v4), pf(l, 2, nil, nil), pf(l, 24, r.Bytes(300), nil))
	}
	fx["pflog"] = append(fx["pflog"], pf(61, 2, make([]byte, 2), nil), pf(61, 2, make([]byte, 3), nil), pf(65, 2, r.Bytes(6), nil), pf(65, 2, r.Bytes(7), nil))

	// FDDI: frame control | priority, two 6-byte addresses, then (for LLC frames) LLC/SNAP
	for _, fc := range []int{0x50, 0x57, 0x51, 0x00, 0x07, 0x48, 0x58, 0xd0, 0xff} {
		fx["fddi"] = append(fx["fddi"], cat([]byte{byte(fc)}, r.Bytes(12), llc), cat([]byte{byte(fc)}, r.Bytes(12), r.Bytes(r.Intn(6))), cat([]byte{byte(fc)}, r.Bytes(12)))
	}
	a := r.Bytes(6)
	fx["fddi"] = append(fx["fddi"], cat([]byte{0x50}, a, a, llc), cat([]byte{0x50}, make([]byte, 12)), cat([]byte{0x50}, []byte{255, 255, 255, 255, 255, 255}, r.Bytes(6), r.Bytes(3)))
}

func hx(b []byte) string { return lib.Hex(b) }

func setByte(b []byte, off int, v int) []byte {
	c := append([]byte(nil), b...)
	if off < len(c) {
		c[off] = byte(v)
	}
	return c
}

func isDL(k string) bool { return k == "modbus" || k == "lcm" || k == "pflog" }

// ---------------------------------------------------------------- generator

func gen(r *lib.Rand, tier string, emit func(string)) {
	thorough := tier == "thorough"
	emit("reset")
	emit("lmod tab")

	fx := fixtures{}
	built(r, fx)
	harvest(fx)
	for _, k := range allKinds {
		var keep [][]byte
		for _, f := range fx[k] {
			if len(f) >= 2 {
				keep = append(keep, f)
			}
		}
		if len(keep) == 0 {
			keep = [][]byte{r.Bytes(24)}
		}
		fs := keep
		for i := len(fs) - 1; i > 0; i-- { // seeded shuffle: different seeds favour different fixtures
			j := r.Intn(i + 1)
			fs[i], fs[j] = fs[j], fs[i]
		}
		fx[k] = fs
	}
	foreignOf := func(n int) []byte { return r.Bytes(n) }
	lim := func(n, quick int) int {
		if !thorough && n > quick {
			return quick
		}
		return n
	}
	modes := []string{"copy", "nocopy", "lazy", "pool"}

	// A. every fixture through every decode path
	for _, k := range allKinds {
		fs := fx[k]
		for i := 0; i < lim(len(fs), 90); i++ {
			f := fs[i]
			emit("reset")
			emit(fmt.Sprintf("lmod dec %s 0 - %s", k, hx(f)))
			n := 1 + r.Intn(40)
			emit(fmt.Sprintf("lmod dec %s %d %s %s", k, n, hx(foreignOf(n)), hx(f)))
			emit(fmt.Sprintf("lmod fn %s %d %s %s", k, n, hx(foreignOf(n)), hx(f)))
			emit(fmt.Sprintf("lmod fn %s 0 - %s", k, hx(f)))
			for _, m := range modes {
				if m == "nocopy" {
					emit(fmt.Sprintf("lmod pkt %s nocopy %d %s %s", k, n, hx(foreignOf(n)), hx(f)))
				} else {
					emit(fmt.Sprintf("lmod pkt %s %s 0 - %s", k, m, hx(f)))
				}
			}
			if isDL(k) {
				emit(fmt.Sprintf("lmod dlp %s %s", k, hx(f)))
				emit(fmt.Sprintf("lmod redec %s %s", k, hx(f)))
			}
			emit(fmt.Sprintf("lmod flow %s %s", k, hx(f)))
			// the same bytes as every other type of this engine
			for _, k2 := range allKinds {
				if k2 != k {
					emit(fmt.Sprintf("lmod dec %s %d %s %s", k2, n, hx(foreignOf(n)), hx(f)))
					if r.Chance(30) {
						emit(fmt.Sprintf("lmod flow %s %s", k2, hx(f)))
						emit(fmt.Sprintf("lmod pkt %s nocopy %d %s %s", k2, n, hx(foreignOf(n)), hx(f)))
					}
				}
			}
		}
	}

	// B. truncations 0…len of each fixture (all for short ones, head and tail otherwise), with spare capacity
	// holding the REAL continuation of the fixture (what NoCopy / an inner layer would have behind the input)
	for _, k := range allKinds {
		fs := fx[k]
		for i := 0; i < lim(len(fs), 40); i++ {
			f := fs[i]
			emit("reset")
			for n := 0; n <= len(f); n++ {
				if !(n <= 70 || n >= len(f)-2 || (thorough && len(f) <= 600) || r.Chance(3)) {
					continue
				}
				t := f[:n]
				rest := f[n:]
				if len(rest) > 24 {
					rest = rest[:24]
				}
				if r.Chance(30) {
					rest = foreignOf(r.Intn(12))
				}
				emit(fmt.Sprintf("lmod dec %s %d %s %s", k, len(rest), hx(rest), hx(t)))
				if n <= 24 || r.Chance(25) {
					emit(fmt.Sprintf("lmod fn %s %d %s %s", k, len(rest), hx(rest), hx(t)))
					emit(fmt.Sprintf("lmod pkt %s nocopy %d %s %s", k, len(rest), hx(rest), hx(t)))
					if isDL(k) {
						emit(fmt.Sprintf("lmod redlp %s %s", k, hx(t)))
						emit(fmt.Sprintf("lmod redec %s %s", k, hx(t)))
					}
					if r.Chance(40) {
						emit(fmt.Sprintf("lmod flow %s %s", k, hx(t)))
					}
				}
			}
		}
	}

	// C. single-field mutations to boundary values
	// ModbusTCP: the 16-bit Length against the PDU size, the protocol identifier, sizes around 9 and 260
	for i := 0; i < lim(len(fx["modbus"]), 10); i++ {
		f := fx["modbus"][i]
		if len(f) < 9 {
			continue
		}
		emit("reset")
		pl := len(f) - 7
		for _, v := range []int{0, 1, 2, pl - 1, pl, pl + 1, pl + 2, 253, 254, 255, 256, 257, 0x0100 + pl + 1, 0x7fff, 0x8000, 0xfffe, 0xffff} {
			if v < 0 {
				continue
			}
			m := setByte(setByte(f, 4, v>>8), 5, v)
			c := r.Intn(30)
			emit(fmt.Sprintf("lmod dec modbus %d %s %s", c, hx(foreignOf(c)), hx(m)))
			emit("lmod redec modbus " + hx(m))
			if r.Chance(40) {
				emit("lmod redlp modbus " + hx(m))
				emit(fmt.Sprintf("lmod fn modbus %d %s %s", c, hx(foreignOf(c)), hx(m)))
				emit(fmt.Sprintf("lmod pkt modbus nocopy %d %s %s", c, hx(foreignOf(c)), hx(m)))
			}
		}
		for _, pid := range []int{0, 1, 255, 256, 0xffff} {
			emit("lmod redec modbus " + hx(setByte(setByte(f, 2, pid>>8), 3, pid)))
		}
	}
	{ // every total size 0 … 265 with a consistent Length field, and with the Length announcing bytes that are only spare capacity
		emit("reset")
		for n := 0; n <= 265; n++ {
			if !thorough && !(n <= 12 || n >= 255 || r.Chance(8)) {
				continue
			}
			d := r.Bytes(n)
			if n >= 6 {
				d[4], d[5] = byte((n-6)>>8), byte(n-6)
			}
			emit(fmt.Sprintf("lmod dec modbus 0 - %s", hx(d)))
			if n >= 6 {
				d2 := append([]byte(nil), d...)
				d2[4], d2[5] = byte((n-6+5)>>8), byte(n-6+5)
				emit(fmt.Sprintf("lmod dec modbus 5 %s %s", hx(foreignOf(5)), hx(d2)))
			}
			emit("lmod redec modbus " + hx(d))
		}
	}
	// LCM: fragment number 0 / 1 / 65535, magic neighbours, NUL positions, bytes after the name 0 … 9
	for i := 0; i < lim(len(fx["lcm"]), 14); i++ {
		f := fx["lcm"][i]
		if len(f) < 8 {
			continue
		}
		emit("reset")
		for _, last := range []int{0x30, 0x31, 0x32, 0x33, 0x34, 0xff} {
			m := setByte(f, 3, last)
			c := r.Intn(30)
			emit(fmt.Sprintf("lmod dec lcm %d %s %s", c, hx(foreignOf(c)), hx(m)))
			emit("lmod redec lcm " + hx(m))
			if r.Chance(50) {
				emit("lmod redlp lcm " + hx(m))
				emit(fmt.Sprintf("lmod fn lcm %d %s %s", c, hx(foreignOf(c)), hx(m)))
			}
		}
		if len(f) >= 20 {
			for _, fn := range []int{0, 1, 2, 255, 256, 65535} {
				m := setByte(setByte(setByte(f, 3, 0x33), 16, fn>>8), 17, fn)
				emit("lmod redec lcm " + hx(m))
				emit(fmt.Sprintf("lmod dec lcm 3 %s %s", hx(foreignOf(3)), hx(m)))
				if r.Chance(40) {
					emit("lmod pkt lcm copy 0 - " + hx(m))
					emit("lmod redlp lcm " + hx(m))
				}
			}
		}
		// a NUL at every position of the first 30 bytes behind the short header
		for p := 8; p < len(f) && p < 38; p++ {
			if !thorough && !r.Chance(40) {
				continue
			}
			m := setByte(setByte(f, 3, 0x32), p, 0)
			emit("lmod redec lcm " + hx(m))
		}
	}
	{ // the number of bytes behind the channel name 0 … 10 (fingerprint present from 8), with spare capacity that would cover it
		emit("reset")
		for after := 0; after <= 10; after++ {
			for _, hdr := range [][]byte{cat(lcmShort, be32(5)), cat(lcmFrag, be32(5), be32(64), be32(0), be16(0), be16(2)), cat(lcmFrag, be32(5), be32(64), be32(32), be16(1), be16(2))} {
				d := cat(hdr, []byte("CH\x00"), be64(lcmFpA)[:min(after, 8)], r.Bytes(max(after-8, 0)))
				emit(fmt.Sprintf("lmod dec lcm 8 %s %s", hx(be64(lcmFpB)), hx(d)))
				emit("lmod redec lcm " + hx(d))
				emit("lmod redlp lcm " + hx(d))
				emit("lmod pkt lcm copy 0 - " + hx(d))
				emit(fmt.Sprintf("lmod fn lcm 8 %s %s", hx(be64(lcmFpB)), hx(d)))
			}
		}
	}
	// PFLog: every value of the Length byte; the family byte; data sizes around the announced length
	for i := 0; i < lim(len(fx["pflog"]), 6); i++ {
		f := fx["pflog"][i]
		if len(f) < 61 {
			continue
		}
		emit("reset")
		for v := 0; v < 256; v++ {
			if !thorough && !(v <= 6 || (v >= 56 && v <= 70) || v >= 250 || v == len(f) || v == len(f)-3 || r.Chance(8)) {
				continue
			}
			m := setByte(f, 0, v)
			c := r.Pick([]int{0, 3, 30, 300})
			emit(fmt.Sprintf("lmod dec pflog %d %s %s", c, hx(foreignOf(c)), hx(m)))
			emit("lmod redec pflog " + hx(m))
			if r.Chance(25) {
				emit("lmod redlp pflog " + hx(m))
				emit(fmt.Sprintf("lmod fn pflog %d %s %s", c, hx(foreignOf(c)), hx(m)))
				emit(fmt.Sprintf("lmod pkt pflog nocopy %d %s %s", c, hx(foreignOf(c)), hx(m)))
				// exactly 61 bytes with spare capacity covering the announced length
				emit(fmt.Sprintf("lmod dec pflog %d %s %s", 260, hx(foreignOf(260)), hx(m[:61])))
			}
		}
		for v := 0; v < 256; v++ {
			if !thorough && !(v <= 3 || v == 10 || v == 24 || v == 28 || v == 30 || (v >= 9 && v <= 31 && r.Chance(30)) || v >= 254) {
				continue
			}
			m := setByte(f, 1, v)
			emit("lmod redec pflog " + hx(m))
			if r.Chance(40) {
				emit("lmod fn pflog 0 - " + hx(m))
				emit("lmod redlp pflog " + hx(m))
			}
		}
		for _, off := range []int{48, 56} { // the two int32 fields: sign boundaries
			for _, v := range []uint32{0, 1, 0x7fffffff, 0x80000000, 0xffffffff} {
				m := append([]byte(nil), f...)
				copy(m[off:off+4], be32(v))
				emit("lmod redec pflog " + hx(m))
			}
		}
	}
	// FDDI: every value of the frame-control byte
	for i := 0; i < lim(len(fx["fddi"]), 4); i++ {
		f := fx["fddi"][i]
		if len(f) < 13 {
			continue
		}
		emit("reset")
		for v := 0; v < 256; v++ {
			if !thorough && !(v < 9 || v > 247 || (v >= 0x4e && v <= 0x59) || r.Chance(8)) {
				continue
			}
			m := setByte(f, 0, v)
			c := r.Intn(12)
			emit(fmt.Sprintf("lmod dec fddi %d %s %s", c, hx(foreignOf(c)), hx(m)))
			if r.Chance(30) {
				emit("lmod flow fddi " + hx(m))
				emit(fmt.Sprintf("lmod pkt fddi nocopy %d %s %s", c, hx(foreignOf(c)), hx(m)))
			}
		}
		for p := 1; p < 13; p++ {
			emit("lmod flow fddi " + hx(setByte(f, p, r.Pick([]int{0, 255, int(f[p]) ^ 1}))))
		}
	}

	// D. stale-state sequences: ordered pairs…quintuples into the same objects (direct and via the parser);
	// for fddi (no DecodeFromBytes) sequences of decoder calls (hidden-state monitors)
	nseq := 250
	if thorough {
		nseq = 4000
	}
	pick := func(k string) []byte {
		fs := fx[k]
		f := fs[r.Intn(len(fs))]
		switch r.Intn(9) {
		case 0:
			return f[:r.Intn(len(f)+1)] // truncated (maybe an error)
		case 1:
			switch {
			case k == "modbus" && len(f) >= 9:
				return setByte(f, 5, r.Intn(256)) // mostly the Length error path
			case k == "lcm" && len(f) >= 8:
				return setByte(f, 3, r.Pick([]int{0x31, 0x32, 0x33, 0x33})) // other header kind / bad magic
			case k == "pflog" && len(f) >= 61:
				return setByte(f, 0, r.Pick([]int{0, 61, 65, 200, 255})) // often the second error path
			}
			return f[:r.Intn(len(f)+1)]
		case 2:
			return f[:r.Intn(2)] // always an error
		case 3:
			return r.Bytes(r.Intn(70))
		}
		return f
	}
	for c := 0; c < nseq; c++ {
		emit("reset")
		n := 2 + r.Intn(4)
		k0 := allKinds[r.Intn(4)]
		for i := 0; i < n; i++ {
			k := k0
			if r.Chance(25) {
				k = allKinds[r.Intn(4)]
			}
			f := pick(k)
			if len(f) > 400 {
				f = f[:400]
			}
			if isDL(k) {
				emit(fmt.Sprintf("lmod redec %s %s", k, hx(f)))
				emit(fmt.Sprintf("lmod redlp %s %s", k, hx(f)))
			} else {
				emit(fmt.Sprintf("lmod fn %s 0 - %s", k, hx(f)))
			}
		}
	}

	// D2. ordered pairs / triples of VALID packets of one kind (validity decided by the real decoder) and
	// their "zeroed" variants into the same objects: a field assigned only when non-zero / only on some
	// paths shows as a difference from a fresh decode
	{
		valid := map[string][][]byte{}
		for _, k := range dlKinds {
			for _, f := range fx[k] {
				if len(f) <= 400 && newObj(k).DecodeFromBytes(exact(f), &feedback{}) == nil {
					valid[k] = append(valid[k], f)
				}
			}
		}
		zero := map[string][][]byte{
			"modbus": {cat(be16(0), be16(0), be16(3), []byte{0}, []byte{0, 0}), cat(be16(0xffff), be16(0xffff), be16(4), []byte{255}, []byte{255, 255, 255})},
			"lcm": {cat(lcmShort, be32(0), []byte{0}), cat(lcmShort, be32(0)), cat(lcmFrag, be32(0), make([]byte, 12)), cat(lcmFrag, be32(0), make([]byte, 8), be16(1), be16(0)),
				cat(lcmFrag, be32(0xffffffff), be32(0xffffffff), be32(0xffffffff), be16(0), be16(0xffff), []byte("Z\x00"), be64(0xffffffffffffffff))},
			"pflog": {cat([]byte{61}, make([]byte, 63)), make([]byte, 61), cat([]byte{61}, lib.NewRand(7).Bytes(60), make([]byte, 3))},
		}
		nz := 120
		if thorough {
			nz = 2000
		}
		for c := 0; c < nz; c++ {
			k := dlKinds[c%3]
			pool := append(append([][]byte{}, valid[k]...), zero[k]...)
			if len(pool) == 0 {
				continue
			}
			emit("reset")
			n := 2 + r.Intn(3)
			for i := 0; i < n; i++ {
				f := pool[r.Intn(len(pool))]
				if i == n-1 && r.Chance(60) {
					f = zero[k][r.Intn(len(zero[k]))]
				}
				emit(fmt.Sprintf("lmod redec %s %s", k, hx(f)))
				emit(fmt.Sprintf("lmod redlp %s %s", k, hx(f)))
			}
		}
	}

	// E. LinkFlow of hand-made FDDI layers with addresses of every length 0…20 (NewFlow rejects above MaxEndpointSize)
	emit("reset")
	for n := 0; n <= 20; n++ {
		emit(fmt.Sprintf("lmod flowraw fddi %s %s", hx(r.Bytes(n)), hx(r.Bytes(6))))
		emit(fmt.Sprintf("lmod flowraw fddi %s %s", hx(r.Bytes(6)), hx(r.Bytes(n))))
	}
	emit("lmod flow modbus 3000")
	emit("lmod flow lcm 3000")
	emit("lmod flow pflog 3000")

	// G. malformed stream: random bytes of every small length, as every type
	nmal := 300
	if thorough {
		nmal = 10000
	}
	for c := 0; c < nmal; c++ {
		emit("reset")
		n := r.Intn(80)
		if r.Chance(10) {
			n = r.Intn(700)
		}
		d := r.Bytes(n)
		if n >= 8 && r.Chance(50) { // plausible LCM magic
			copy(d, lcmShort)
			if r.Bool() {
				copy(d, lcmFrag)
				if n >= 18 && r.Bool() {
					d[16], d[17] = 0, 0
				}
			}
			for j := 0; j < 3 && n > 8; j++ { // some NULs behind the header
				d[8+r.Intn(n-8)] = 0
			}
		} else if n >= 9 && r.Chance(50) { // plausible ModbusTCP length
			d[4], d[5] = byte((n-6)>>8), byte(n-6+r.Pick([]int{0, 0, 0, 1, -1}))
		} else if n >= 61 && r.Chance(70) { // plausible PFLog length / family
			d[0] = byte(r.Pick([]int{61, 0, n, n - 3, n + 1, 100}))
			d[1] = byte(r.Pick([]int{2, 24, 10, 0}))
		}
		sp := r.Intn(20)
		for _, k := range allKinds {
			emit(fmt.Sprintf("lmod dec %s %d %s %s", k, sp, hx(foreignOf(sp)), hx(d)))
			if isDL(k) {
				emit(fmt.Sprintf("lmod dlp %s %s", k, hx(d)))
			}
			if r.Chance(30) {
				emit(fmt.Sprintf("lmod pkt %s %s %d %s %s", k, modes[r.Intn(4)], 0, "-", hx(d)))
				emit(fmt.Sprintf("lmod fn %s %d %s %s", k, sp, hx(foreignOf(sp)), hx(d)))
				emit(fmt.Sprintf("lmod flow %s %s", k, hx(d)))
			}
		}
	}
	// unparseable ops: both sides answer bad-op
	emit("reset")
	emit("lmod dec modbus x - 00")
	emit("lmod dec sll 0 - 00")
	emit("lmod dec lcm 2 00 00")
	emit("lmod redec fddi 00")
	emit("lmod dlp fddi 00")
	emit("lmod flowraw lcm 00 00")
	emit("lmod flowraw fddi 00")
	emit("lmod pkt pflog weird 0 - 00")
	emit("lmod nonsense")
}
