package main

import (
	"fmt"
	"go/ast"
	goparser "go/parser"
	"go/token"
	"net"
	"os"
	"path/filepath"
	"sort"
	"strconv"
	"strings"

	"github.com/gopacket/gopacket"
	"github.com/gopacket/gopacket/layers"
	"verif/harness/lib"
)

// ---------------------------------------------------------------- fixtures

// harvest collects every `[]byte{…}` literal (all elements literal) from the repository's own
// layers/*_test.go files.
func harvest() [][]byte {
	repo := os.Getenv("VERIF_REPO")
	if repo == "" {
		repo = "/repo"
	}
	files, _ := filepath.Glob(filepath.Join(repo, "layers", "*_test.go"))
	sort.Strings(files)
	var out [][]byte
	fset := token.NewFileSet()
	for _, fn := range files {
		f, err := goparser.ParseFile(fset, fn, nil, 0)
		if err != nil {
			continue
		}
		ast.Inspect(f, func(n ast.Node) bool {
			cl, ok := n.(*ast.CompositeLit)
			if !ok {
				return true
			}
			at, ok := cl.Type.(*ast.ArrayType)
			if !ok || at.Len != nil {
				return true
			}
			id, ok := at.Elt.(*ast.Ident)
			if !ok || (id.Name != "byte" && id.Name != "uint8") {
				return true
			}
			b := make([]byte, 0, len(cl.Elts))
			for _, e := range cl.Elts {
				bl, ok := e.(*ast.BasicLit)
				if !ok {
					return true
				}
				switch bl.Kind {
				case token.INT:
					v, err := strconv.ParseUint(bl.Value, 0, 8)
					if err != nil {
						return true
					}
					b = append(b, byte(v))
				case token.CHAR:
					s, err := strconv.Unquote(bl.Value)
					if err != nil || len(s) != 1 {
						return true
					}
					b = append(b, s[0])
				default:
					return true
				}
			}
			if len(b) >= 8 && len(b) <= 1600 {
				out = append(out, b)
			}
			return true
		})
	}
	return out
}

type fixture struct {
	k *kind
	d []byte
}

// tunnelParts decodes a harvested literal as an Ethernet frame with the repository's decoders and
// returns the bytes of every VXLAN / Geneve / GTPv1U layer found in it (Contents ++ Payload).
func tunnelParts(b []byte) []fixture {
	var out []fixture
	protect(func() string {
		p := gopacket.NewPacket(b, layers.LayerTypeEthernet, gopacket.Default)
		for _, l := range p.Layers() {
			for _, k := range kinds {
				if l.LayerType() == k.lt {
					d := append(append([]byte(nil), l.LayerContents()...), l.LayerPayload()...)
					if len(d) > 700 {
						d = d[:700]
					}
					out = append(out, fixture{k, d})
				}
			}
		}
		return ""
	})
	return out
}

// built fixtures: tunnel packets produced by the repository's own serializers.
func builtFixtures(r *lib.Rand) []fixture {
	var out []fixture
	add := func(k *kind, ls ...gopacket.SerializableLayer) {
		protect(func() string { // a serializer that panics (mutated tree) must not take the generator down
			b := gopacket.NewSerializeBuffer()
			if err := gopacket.SerializeLayers(b, gopacket.SerializeOptions{FixLengths: true, ComputeChecksums: true}, ls...); err == nil {
				out = append(out, fixture{k, append([]byte(nil), b.Bytes()...)})
			}
			return ""
		})
	}
	eth := &layers.Ethernet{SrcMAC: net.HardwareAddr{0, 0x1b, 0x21, 0x3c, 0xab, 0x10}, DstMAC: net.HardwareAddr{0x52, 0x54, 0, 0x12, 0x35, 2}, EthernetType: layers.EthernetTypeIPv4}
	ip := &layers.IPv4{Version: 4, IHL: 5, TTL: 64, Protocol: layers.IPProtocolUDP, SrcIP: net.IP{10, 0, 0, 1}, DstIP: net.IP{10, 0, 0, 2}}
	udp := &layers.UDP{SrcPort: 1000, DstPort: 2000}
	udp.SetNetworkLayerForChecksum(ip)
	inner := func(n int) []gopacket.SerializableLayer {
		return []gopacket.SerializableLayer{eth, ip, udp, gopacket.Payload(r.Bytes(n))}
	}
	vx, gn, gt := kinds["vxlan"], kinds["geneve"], kinds["gtp"]
	add(vx, append([]gopacket.SerializableLayer{&layers.VXLAN{ValidIDFlag: true, VNI: 0xabcdef}}, inner(9)...)...)
	add(vx, append([]gopacket.SerializableLayer{&layers.VXLAN{ValidIDFlag: true, VNI: 255, GBPExtension: true, GBPDontLearn: true, GBPApplied: true, GBPGroupPolicyID: 0x1234}}, inner(0)...)...)
	add(vx, &layers.VXLAN{VNI: 1}, gopacket.Payload(nil))
	add(gn, append([]gopacket.SerializableLayer{&layers.Geneve{Protocol: layers.EthernetTypeTransparentEthernetBridging, VNI: 10}}, inner(5)...)...)
	add(gn, append([]gopacket.SerializableLayer{&layers.Geneve{Version: 0, OAMPacket: true, CriticalOption: true, Protocol: layers.EthernetTypeTransparentEthernetBridging, VNI: 0xffffff,
		Options: []*layers.GeneveOption{{Class: 0x0102, Type: 0x80, Flags: 5, Data: []byte{1, 2, 3, 4}}, {Class: 0xffff, Type: 1, Data: nil}, {Class: 3, Type: 2, Flags: 7, Data: r.Bytes(124)}}}}, inner(3)...)...)
	add(gn, &layers.Geneve{Protocol: layers.EthernetTypeIPv4, VNI: 7, Options: []*layers.GeneveOption{{Class: 1, Type: 1, Data: r.Bytes(8)}}}, ip, udp, gopacket.Payload(r.Bytes(4)))
	add(gn, &layers.Geneve{Protocol: 0x1234, VNI: 7}, gopacket.Payload(r.Bytes(6)))
	// the largest options area the format admits: 252 bytes (63 words)
	var big []*layers.GeneveOption
	for i := 0; i < 63; i++ {
		big = append(big, &layers.GeneveOption{Class: uint16(i), Type: uint8(i)})
	}
	add(gn, &layers.Geneve{Protocol: layers.EthernetTypeIPv6, VNI: 9, Options: big}, gopacket.Payload(r.Bytes(11)))
	add(gn, &layers.Geneve{Protocol: layers.EthernetTypeIPv6, VNI: 9, Options: big[:62]}, gopacket.Payload(r.Bytes(11)))
	add(gt, &layers.GTPv1U{Version: 1, ProtocolType: 1, MessageType: 255, TEID: 0x01020304}, ip, udp, gopacket.Payload(r.Bytes(7)))
	add(gt, &layers.GTPv1U{Version: 1, ProtocolType: 1, MessageType: 1, TEID: 0}, gopacket.Payload(nil))
	add(gt, &layers.GTPv1U{Version: 1, ProtocolType: 1, MessageType: 255, TEID: 9, SequenceNumberFlag: true, SequenceNumber: 0xbeef, NPDUFlag: true, NPDU: 0x7f}, ip, udp, gopacket.Payload(r.Bytes(2)))
	add(gt, &layers.GTPv1U{Version: 1, ProtocolType: 1, MessageType: 255, TEID: 9, SequenceNumberFlag: true, SequenceNumber: 1,
		GTPExtensionHeaders: []layers.GTPExtensionHeader{{Type: 0x85, Content: []byte{0x10, 0x09}}}}, ip, udp, gopacket.Payload(r.Bytes(2)))
	add(gt, &layers.GTPv1U{Version: 1, ProtocolType: 1, MessageType: 255, TEID: 0xffffffff,
		GTPExtensionHeaders: []layers.GTPExtensionHeader{{Type: 0x85, Content: []byte{0x10, 0x09}}, {Type: 0xc0, Content: r.Bytes(6)}, {Type: 1, Content: r.Bytes(1018)}}},
		&layers.IPv6{Version: 6, NextHeader: layers.IPProtocolNoNextHeader, HopLimit: 1, SrcIP: net.IP(r.Bytes(16)), DstIP: net.IP(r.Bytes(16))})
	add(gt, &layers.GTPv1U{Version: 1, ProtocolType: 1, MessageType: 255, TEID: 5, ExtensionHeaderFlag: true}, gopacket.Payload([]byte{0x55, 1, 2, 3, 4, 5, 6, 0}))
	return out
}

func fixtures(r *lib.Rand) []fixture {
	var out []fixture
	seen := map[string]bool{}
	for _, b := range harvest() {
		for _, f := range tunnelParts(b) {
			key := f.k.name + string(f.d)
			if !seen[key] {
				seen[key] = true
				out = append(out, f)
			}
		}
	}
	return append(out, builtFixtures(r)...)
}

// headerLen: length of the header of a decodable fixture (via the repo's decoder), else len.
func headerLen(f fixture) int {
	l := f.k.fresh()
	n := len(f.d)
	protect(func() string {
		if err := l.DecodeFromBytes(f.d, &feedback{}); err == nil {
			n = len(l.LayerContents())
		}
		return ""
	})
	return n
}

// ---------------------------------------------------------------- random layer values

func pickU(r *lib.Rand, bits uint) uint64 {
	max := uint64(1)<<bits - 1
	switch r.Intn(6) {
	case 0:
		return 0
	case 1:
		return max
	case 2:
		return 1
	case 3:
		return uint64(1) << (bits - 1)
	}
	return r.U64() & max
}

var protos = []int{0x0800, 0x86dd, 0x6558, 0x880b, 0, 0x0806, 0x8100, 0x8847, 0x88be, 0xffff, 0x1234, 0x8863, 0x8864, 0x9000, 0x2000, 0x01a2, 0x88cc, 0x8848, 0x888e, 0x88a8, 0x0712}

func randVx(r *lib.Rand, inRange bool) string {
	vni := pickU(r, 24)
	if !inRange && r.Chance(50) {
		vni = r.U64()&0xffffffff | 1<<24
		if r.Chance(30) {
			vni = 1 << 24
		}
	}
	return fmt.Sprintf("%d%d%d%d %d %d", r.Intn(2), r.Intn(2), r.Intn(2), r.Intn(2), vni, pickU(r, 16))
}

func randGOpt(r *lib.Rand, inRange bool) string {
	n := 4 * r.Pick([]int{0, 0, 1, 1, 2, 3, 8, 31, r.Intn(32)})
	fl := r.Intn(8)
	length := r.Pick([]int{0, 4, 3, 8, 128, 255, r.Intn(256)})
	if !inRange {
		switch r.Intn(4) {
		case 0:
			n = r.Intn(20)
		case 1:
			n = r.Pick([]int{125, 127, 128, 132, 252, 256, 300})
		case 2:
			fl = r.Pick([]int{8, 255, r.Intn(256)})
		}
	}
	return fmt.Sprintf("%d.%d.%d.%d.%s", pickU(r, 16), pickU(r, 8), fl, length, lib.Hex(r.Bytes(n)))
}

func randGn(r *lib.Rand, inRange bool) string {
	var opts []string
	total := 0
	for k := r.Pick([]int{0, 0, 1, 1, 2, 3, 5, 8}); k > 0; k-- {
		o := randGOpt(r, inRange)
		sz := 4 + (len(strings.Split(o, ".")[4]) / 2)
		if inRange && total+sz > 252 {
			break
		}
		total += sz
		opts = append(opts, o)
	}
	ver := r.Intn(4)
	vni := pickU(r, 24)
	if !inRange {
		if r.Chance(40) {
			ver = r.Pick([]int{4, 7, 255, r.Intn(256)})
		}
		if r.Chance(25) {
			vni = r.U64()&0xffffffff | 1<<24
		}
		if r.Chance(10) { // more option bytes than the 6-bit length field can express
			for total <= 260 {
				opts = append(opts, fmt.Sprintf("1.2.0.0.%s", lib.Hex(r.Bytes(64))))
				total += 68
			}
		}
	}
	return fmt.Sprintf("%d%d %d %d %d %d %s", r.Intn(2), r.Intn(2), ver, r.Pick([]int{0, 4, 252, 255, r.Intn(256)}), r.Pick(protos), vni, joinOr(opts))
}

func randExt(r *lib.Rand, inRange bool, first bool) string {
	n := 4*r.Pick([]int{0, 0, 1, 1, 2, 5, 254, r.Intn(30)}) + 2
	t := 1 + r.Intn(255)
	if r.Chance(30) {
		t = r.Pick([]int{0x85, 0xc0, 0x20, 0x40, 1, 255})
	}
	if !inRange {
		switch r.Intn(5) {
		case 0:
			n = r.Intn(24)
		case 1:
			n = r.Pick([]int{1022, 1026, 1023, 2046})
		case 2:
			t = 0
		case 3:
			n = 0
		}
	}
	return fmt.Sprintf("%d.%s", t, lib.Hex(r.Bytes(n)))
}

func randGt(r *lib.Rand, inRange bool) string {
	e, s, pn := r.Intn(2), r.Intn(2), r.Intn(2)
	var exts []string
	if r.Chance(55) {
		for k := r.Pick([]int{1, 1, 2, 3, 4}); k > 0; k-- {
			exts = append(exts, randExt(r, inRange, len(exts) == 0))
		}
	}
	ver, pt, rsv := r.Pick([]int{1, 1, 0, 2, 7, r.Intn(8)}), 1, 0
	if r.Chance(15) {
		pt = 0
	}
	if r.Chance(10) {
		rsv = 1
	}
	seq, npdu := uint64(0), uint64(0)
	if s == 1 {
		seq = pickU(r, 16)
	}
	if pn == 1 {
		npdu = pickU(r, 8)
	}
	if !inRange {
		if r.Chance(40) {
			ver = r.Pick([]int{8, 255, r.Intn(256)})
		}
		if r.Chance(30) {
			pt, rsv = r.Pick([]int{2, 255, r.Intn(256)}), r.Pick([]int{0, 2, 255})
		}
		if r.Chance(50) {
			seq, npdu = pickU(r, 16), pickU(r, 8)
		}
	}
	return fmt.Sprintf("%d%d%d %d %d %d %d %d %d %d %d %s", e, s, pn, ver, pt, rsv, r.Pick([]int{255, 255, 1, 2, 26, 254, r.Intn(256)}),
		pickU(r, 16), pickU(r, 32), seq, npdu, joinOr(exts))
}

func randLayer(r *lib.Rand, k string, inRange bool) string {
	switch k {
	case "vxlan":
		return randVx(r, inRange)
	case "geneve":
		return randGn(r, inRange)
	}
	return randGt(r, inRange)
}

func randPayload(r *lib.Rand, big bool) string {
	if big {
		n := r.Pick([]int{1480, 1499, 1500, 1501, 1520, 65535, 65536, 70001, 65535 - 8, 65535 - 12})
		if n > 4000 {
			return fmt.Sprintf("z%dx%02x", n, r.Intn(256))
		}
		return lib.Hex(r.Bytes(n))
	}
	n := r.Pick([]int{0, 0, 1, 2, 3, 7, 20, 33, 64, r.Intn(100)})
	p := r.Bytes(n)
	if n > 0 && r.Chance(40) { // something GTP's NextLayerType looks at
		p[0] = byte(r.Pick([]int{0x45, 0x60, 0x21, 0x00}))
	}
	return lib.Hex(p)
}

func randHist(r *lib.Rand, total int) string {
	switch r.Intn(7) {
	case 0, 1:
		return "fresh"
	case 2:
		return fmt.Sprintf("dirty:%d:%d", r.Pick([]int{0xA5, 0x5A, 0xFF, 1}), total+r.Intn(64))
	case 3:
		return fmt.Sprintf("dirty:%d:%d", r.Pick([]int{0xA5, 0x5A, 0xFF, 1}), 1+r.Intn(total+1))
	case 4:
		return fmt.Sprintf("sized:%d:%d", total+r.Intn(32), r.Intn(16))
	case 5:
		return fmt.Sprintf("sized:%d:%d", r.Intn(12), r.Intn(12))
	}
	return "dirty:165:4096"
}

// wire serializes a layer text with the repository (decode inputs for the stale-state search).
func wire(k *kind, layer string, payload string) []byte {
	p, _ := parsePayload(payload)
	s, ok := parseSpec(k, strings.Fields(layer))
	if !ok {
		return nil
	}
	out, err, pan := serializeOnce(s.build(), "fresh", p, gopacket.SerializeOptions{FixLengths: true, ComputeChecksums: true})
	if err != nil || pan {
		return nil
	}
	return out
}

// ---------------------------------------------------------------- malformed option / extension lists

// geneveWire builds a Geneve packet by hand: optWords in the header, then the given option blobs.
func geneveWire(r *lib.Rand, optWords int, blobs [][]byte, payload []byte) []byte {
	pk := []byte{byte(r.Intn(4)<<6 | optWords&0x3f), byte(r.Intn(4) << 6), 0x65, 0x58, byte(r.Intn(256)), byte(r.Intn(256)), byte(r.Intn(256)), byte(r.Intn(2) * r.Intn(256))}
	for _, b := range blobs {
		pk = append(pk, b...)
	}
	return append(pk, payload...)
}

func geneveOptBlob(r *lib.Rand, lenWords int, have int) []byte {
	b := []byte{byte(r.Intn(256)), byte(r.Intn(256)), byte(r.Intn(256)), byte(r.Intn(8)<<5 | lenWords&0x1f)}
	return append(b, r.Bytes(have)...)
}

// gtpWire builds a GTPv1U packet by hand: flags, then optional part and extension header blobs.
func gtpWire(r *lib.Rand, flags int, firstType int, blobs [][]byte, payload []byte, mlDelta int) []byte {
	body := []byte{}
	if flags&7 != 0 {
		body = append(body, byte(r.Intn(256)), byte(r.Intn(256)), byte(r.Intn(256)), byte(firstType))
	}
	for _, b := range blobs {
		body = append(body, b...)
	}
	body = append(body, payload...)
	ml := len(body) + mlDelta
	if ml < 0 {
		ml = 0
	}
	pk := []byte{byte(flags), byte(r.Pick([]int{255, 255, 1, 26})), byte(ml >> 8), byte(ml), 0, 0, byte(r.Intn(256)), byte(r.Intn(256))}
	return append(pk, body...)
}

// gtpExtBlob: length byte, `have` content bytes, next type.
func gtpExtBlob(r *lib.Rand, lenWords int, have int, next int) []byte {
	b := []byte{byte(lenWords)}
	b = append(b, r.Bytes(have)...)
	return append(b, byte(next))
}

// ---------------------------------------------------------------- generator

func propFocus() string {
	for _, a := range os.Args {
		if len(a) == 3 && a[0] == 'C' {
			return a
		}
	}
	return ""
}

var kindOrder = []string{"vxlan", "geneve", "gtp"}

func gen(r *lib.Rand, tier string, emit func(string)) {
	focus := propFocus()
	dec := focus == "" || focus == "C19" || focus == "C05" || focus == "C01" || focus == "C02"
	ser := focus == "" || focus == "C06" || focus == "C07"
	scale := 1
	if tier == "thorough" {
		scale = 10
	}
	light := func(n int) int { return max(1, n/10) } // sections outside the focus still run, at a tenth of the volume
	fx := fixtures(r)
	foreignFor := func(rest []byte, k int) string {
		switch k % 4 {
		case 0:
			return "-"
		case 1: // the real continuation of the packet (NoCopy slice of a larger capture)
			if len(rest) > 64 {
				rest = rest[:64]
			}
			return lib.Hex(rest)
		case 2:
			return strings.Repeat("ee", 24)
		}
		return lib.Hex(r.Bytes(1 + r.Intn(300)))
	}
	decLine := func(k string, foreign string, d []byte) string {
		return "ltun dec " + k + " " + foreign + " " + lib.Hex(d)
	}

	// 0. the EthernetType table behind Geneve.NextLayerType
	emit("reset")
	emit("ltun nlttab")

	// 1. fixtures as they are, through every op kind
	for _, f := range fx {
		emit("reset")
		emit(decLine(f.k.name, "-", f.d))
		emit("ltun redec " + f.k.name + " " + lib.Hex(f.d))
		emit("ltun pkt " + f.k.name + " " + lib.Hex(f.d))
		emit("ltun rtdec " + f.k.name + " " + lib.Hex(f.d))
	}
	// next-layer choice: Geneve protocol table (+ neighbours), GTP message type x first payload nibble
	emit("reset")
	for _, p := range protos {
		for _, q := range []int{p, p + 1} {
			emit(fmt.Sprintf("ltun pkt geneve 0000%04x000001004500", q&0xffff))
			emit(fmt.Sprintf("ltun pkt geneve 0000%04x00000100", q&0xffff))
		}
	}
	for _, mt := range []int{255, 254, 1, 0} {
		for _, nib := range []int{0x45, 0x60, 0x6f, 0x21, 0x00, 0xf0} {
			emit(fmt.Sprintf("ltun pkt gtp 30%02x000100000001%02x", mt, nib))
		}
		emit(fmt.Sprintf("ltun pkt gtp 30%02x000000000001", mt))
	}
	emit("ltun pkt vxlan 0800000000000100")
	emit("ltun pkt vxlan 0800000000000100ffffffffffff")

	// 2. every truncation of every fixture, with and without spare capacity
	for _, f := range fx {
		h := headerLen(f)
		top := min(len(f.d), h+6)
		if !dec {
			top = min(top, 16)
		}
		emit("reset")
		for n := 0; n <= top; n++ {
			for k := 0; k < 3; k++ {
				emit(decLine(f.k.name, foreignFor(f.d[n:], k), f.d[:n]))
			}
		}
		emit(decLine(f.k.name, "-", f.d))
	}

	// 3. single-field mutations of the fixtures to boundary values (flag bits, lengths)
	for _, f := range fx {
		h := min(headerLen(f)+2, len(f.d))
		lim := 40
		if !dec {
			lim = 8
		}
		emit("reset")
		for i := 0; i < h && i < lim; i++ {
			for _, v := range []int{0x00, 0xff, int(f.d[i]) ^ 0x80, int(f.d[i]) ^ 0x01, int(f.d[i]) + 1, int(f.d[i]) - 1, int(f.d[i]) ^ 0x04} {
				m := append([]byte(nil), f.d...)
				m[i] = byte(v)
				emit(decLine(f.k.name, foreignFor(nil, r.Intn(4)), m))
				if ser || v == 0xff {
					emit("ltun rtdec " + f.k.name + " " + lib.Hex(m))
				}
				if i < 4 && v == 0xff {
					for _, n := range []int{8, 9, 11, 12, 13, 15, 16, 19, 20} {
						if n <= len(m) {
							emit(decLine(f.k.name, foreignFor(m[n:], 1), m[:n]))
						}
					}
				}
			}
		}
	}

	// 4. exhaustive first byte (all flag / version / length bits) over a patterned tail, per kind
	step := 1
	if !dec {
		step = 16
	}
	gtail := lib.Hex([]byte{0x65, 0x58, 0, 0, 1, 0}) // geneve rest of the fixed header
	gopts := "0001800100000001" + "00020000" + "ffff0762aabbccdd11223344" + "0003001f"
	ttail := "ff003000000001" + "1234aa85" + "01bbcc00" + "450000"
	for b0 := 0; b0 < 256; b0 += step {
		emit("reset")
		for _, b1 := range []string{"00", "c0", "3f"} {
			emit(fmt.Sprintf("ltun dec vxlan - %02x%s0102aabbcc0000", b0, b1))
			pk := fmt.Sprintf("%02x%s%s%s", b0, b1, gtail, gopts)
			emit("ltun dec geneve - " + pk)
			emit("ltun dec geneve eeee " + pk[:2*min(len(pk)/2, 8+4*(b0&0x3f))])
		}
		emit(fmt.Sprintf("ltun dec gtp - %02x%s", b0, ttail))
		emit(fmt.Sprintf("ltun dec gtp 0102 %02x%s", b0, ttail[:2*15]))
		emit(fmt.Sprintf("ltun pkt gtp %02x%s", b0, ttail))
	}

	// 5. option / extension-header lists of every kind, including malformed lengths (0, 1, > remaining)
	nList := 1200 * scale
	if !dec {
		nList = light(nList)
	}
	for c := 0; c < nList; c++ {
		emit("reset")
		// Geneve
		var blobs [][]byte
		words := 0
		bounds := []int{8}
		at := 8
		for k := r.Pick([]int{0, 1, 1, 2, 3, 6}); k > 0; k-- {
			lw := r.Pick([]int{0, 0, 1, 2, 31, r.Intn(32)})
			have := 4 * lw
			if r.Chance(10) { // option data cut short
				have = r.Intn(have + 1)
			}
			blobs = append(blobs, geneveOptBlob(r, lw, have))
			words += 1 + lw
			at += 4 + have
			bounds = append(bounds, at)
		}
		switch r.Intn(10) {
		case 0: // header announces fewer words than the options take (last option overruns the area)
			words -= 1 + r.Intn(3)
		case 1: // header announces more
			words += 1 + r.Intn(3)
		case 2:
			words = r.Intn(64)
		}
		if words < 0 {
			words = 0
		}
		pk := geneveWire(r, words, blobs, r.Bytes(r.Pick([]int{0, 1, 5, 20, 140})))
		emit(decLine("geneve", foreignFor(nil, r.Intn(4)), pk))
		emit("ltun pkt geneve " + lib.Hex(pk))
		emit("ltun rtdec geneve " + lib.Hex(pk))
		for _, bd := range bounds {
			for _, d := range []int{-1, 0, 1, 3} {
				if n := bd + d; n >= 0 && n <= len(pk) {
					emit(decLine("geneve", foreignFor(pk[n:], 1+r.Intn(3)), pk[:n]))
				}
			}
		}
		// GTP
		blobs = nil
		flags := 0x30 | r.Pick([]int{4, 4, 4, 6, 7, 5, 2, 1, 3, 0})
		if r.Chance(8) {
			flags = r.Intn(256)
		}
		first := r.Pick([]int{0x85, 0xc0, 1, 255, 0})
		at = 12
		bounds = []int{8, 12}
		n := r.Pick([]int{0, 1, 1, 2, 3, 5})
		for k := 0; k < n; k++ {
			lw := r.Pick([]int{1, 1, 2, 3, 0, 255, 1 + r.Intn(20)})
			have := 4*lw - 2
			if lw == 0 {
				have = r.Pick([]int{0, 2})
			} else if r.Chance(10) {
				have = r.Intn(have + 1)
			}
			next := r.Pick([]int{0x85, 0xc0, 2, 255})
			if k == n-1 && r.Chance(85) {
				next = 0
			}
			blobs = append(blobs, gtpExtBlob(r, lw, have, next))
			at += 2 + have
			bounds = append(bounds, at)
		}
		pay := r.Bytes(r.Pick([]int{0, 1, 5, 20}))
		if len(pay) > 0 && r.Chance(50) {
			pay[0] = byte(r.Pick([]int{0x45, 0x60, 0x00, 0x01}))
		}
		pk = gtpWire(r, flags, first, blobs, pay, r.Pick([]int{0, 0, 0, 0, 1, -1, 4, 1000, -1000}))
		emit(decLine("gtp", foreignFor(nil, r.Intn(4)), pk))
		emit("ltun pkt gtp " + lib.Hex(pk))
		emit("ltun rtdec gtp " + lib.Hex(pk))
		for _, bd := range bounds {
			for _, d := range []int{-1, 0, 1, 2} {
				if n := bd + d; n >= 0 && n <= len(pk) {
					emit(decLine("gtp", foreignFor(pk[n:], 1+r.Intn(3)), pk[:n]))
				}
			}
		}
		// VXLAN: random header
		vp := append(r.Bytes(8), r.Bytes(r.Intn(20))...)
		emit(decLine("vxlan", foreignFor(nil, r.Intn(4)), vp))
		emit("ltun rtdec vxlan " + lib.Hex(vp))
	}

	// 5b. size limits: the largest Geneve options area; GTP chains whose offsets pass 64 KiB
	emit("reset")
	for _, words := range []int{61, 62, 63} {
		var blobs [][]byte
		for i := 0; i < words; i++ {
			blobs = append(blobs, geneveOptBlob(r, 0, 0))
		}
		pk := geneveWire(r, words, blobs, r.Bytes(9))
		emit(decLine("geneve", "-", pk))
		emit("ltun pkt geneve " + lib.Hex(pk))
		emit("ltun rtdec geneve " + lib.Hex(pk))
		pk2 := geneveWire(r, words, append(blobs[:words-1:words-1], geneveOptBlob(r, 31, 124)), r.Bytes(300)) // last option overruns
		emit(decLine("geneve", "-", pk2))
		emit("ltun rtdec geneve " + lib.Hex(pk2))
	}
	nBig := 2
	if dec {
		nBig = 3 * scale
	}
	for c := 0; c < nBig; c++ {
		emit("reset")
		// a chain of maximal extension headers up to offset 65532, then headers that cross 65535
		pk := []byte{0x34, 0xff, 0, 0, 0, 0, 0, 1, 0, 0, 0, 0x85}
		target := r.Pick([]int{65532, 65528, 65520, 64512})
		for len(pk) < target {
			n := 255
			if target-len(pk) < 1020 {
				n = (target - len(pk)) / 4
			}
			chunk := make([]byte, n*4)
			chunk[0] = byte(n)
			chunk[n*4-1] = 0x85
			pk = append(pk, chunk...)
		}
		tails := [][]byte{{2, 0, 0}, {1, 0, 0}, {1, 0, 0, 0}, {3, 0, 0, 0, 0, 0, 0, 0, 0, 0, 0, 0}, {255, 0, 0, 0}}
		tl := tails[r.Intn(len(tails))]
		pk = append(pk, tl...)
		if r.Chance(50) {
			pk = append(pk, make([]byte, r.Pick([]int{1, 4, 5, 1020}))...)
		}
		emit(decLine("gtp", "-", pk))
		emit(decLine("gtp", "0000000000000000", pk[:min(len(pk), 65535)]))
		// a GTP header over a payload beyond 64 KiB
		big := append([]byte{0x30, 0xff, byte(r.Intn(256)), byte(r.Intn(256)), 0, 0, 0, 1}, make([]byte, 65536+r.Intn(64))...)
		emit(decLine("gtp", "-", big))
	}

	// 6. ordered sequences decoded into the SAME object (stale-state search)
	nSeq := 1200 * scale
	if !dec {
		nSeq = light(nSeq)
	}
	pool := map[string][][]byte{}
	for _, f := range fx {
		pool[f.k.name] = append(pool[f.k.name], f.d)
	}
	for _, k := range kindOrder {
		for i := 0; i < 50; i++ {
			if w := wire(kinds[k], randLayer(r, k, true), randPayload(r, false)); w != nil {
				pool[k] = append(pool[k], w)
			}
		}
	}
	for c := 0; c < nSeq; c++ {
		k := kindOrder[r.Pick([]int{0, 1, 1, 2, 2, 2})]
		ps := pool[k]
		if len(ps) == 0 {
			continue
		}
		emit("reset")
		emit(decLine(k, foreignFor(nil, r.Intn(4)), ps[r.Intn(len(ps))]))
		for j := 1 + r.Intn(4); j > 0; j-- {
			p := ps[r.Intn(len(ps))]
			if r.Chance(25) {
				p = p[:r.Intn(len(p)+1)]
			}
			emit("ltun redec " + k + " " + lib.Hex(p))
		}
	}

	// 7. serialization: systematic flag combinations x option/extension shapes x options x buffer histories
	hists := []string{"fresh", "dirty:165:96", "dirty:90:7", "sized:64:0"}
	idx := 0
	sys := func(k string, layer string) {
		for _, pay := range []string{"-", "ab", "4502030405"} {
			for o := 0; o < 4; o++ {
				h := hists[idx%len(hists)]
				idx++
				emit(fmt.Sprintf("ltun ser %s %d %d %s %s %s", k, o>>1, o&1, h, layer, pay))
			}
			emit(fmt.Sprintf("ltun rt %s 1 1 %s %s %s", k, hists[idx%len(hists)], layer, pay))
			emit(fmt.Sprintf("ltun ser2 %s 1 1 %s %s %s", k, hists[(idx+1)%len(hists)], layer, pay))
		}
	}
	emit("reset")
	for bits := 0; bits < 16; bits++ {
		for _, vni := range []string{"0", "16777215", "16777216", "4294967295", "74565"} {
			sys("vxlan", fmt.Sprintf("%04b %s %d", bits, vni, bits*4369))
		}
	}
	gshapes := []string{"-", "258.128.5.0.01020304", "65535.1.0.0.-,3.2.7.0.0102030405060708", "1.2.3.9.010203", "1.1.8.4.0102030405"}
	for bits := 0; bits < 4; bits++ {
		emit("reset")
		for ver := 0; ver < 5; ver++ {
			for _, sh := range gshapes {
				sys("geneve", fmt.Sprintf("%02b %d %d %d %d %s", bits, ver, []int{0, 8, 255}[ver%3], protos[(bits+ver)%len(protos)], []int{0, 0xffffff, 0x1000000}[(ver+bits)%3], sh))
			}
		}
	}
	tshapes := []string{"-", "133.1009", "133.1009,192.010203040506", "0.aabb", "133.aabb,0.ccdd", "5.aabbcc", "5.-"}
	for bits := 0; bits < 8; bits++ {
		emit("reset")
		for _, sh := range tshapes {
			seq, npdu := 0, 0
			if bits&2 != 0 {
				seq = 0xbeef
			}
			if bits&1 != 0 {
				npdu = 0x7f
			}
			sys("gtp", fmt.Sprintf("%03b 1 1 0 255 0 16909060 %d %d %s", bits, seq, npdu, sh))
			sys("gtp", fmt.Sprintf("%03b %d %d %d 1 99 1 7 9 %s", bits, bits, bits&1, (bits>>1)&1, sh))
		}
	}

	// 8. random layer values: in-range ones (round trip) and arbitrary public field values (totality)
	nSer := 2500 * scale
	if !ser {
		nSer = light(nSer)
	}
	for c := 0; c < nSer; c++ {
		emit("reset")
		k := kindOrder[r.Pick([]int{0, 1, 1, 2, 2})]
		inRange := r.Chance(60)
		layer := randLayer(r, k, inRange)
		pay := randPayload(r, r.Chance(2))
		plen := 0
		if p, ok := parsePayload(pay); ok {
			plen = len(p)
		}
		h := randHist(r, 300+plen)
		o := r.Intn(4)
		if inRange && r.Chance(50) {
			o = 3
		}
		args := fmt.Sprintf("%s %d %d %s %s %s", k, o>>1, o&1, h, layer, pay)
		emit("ltun ser " + args)
		if plen < 2000 || r.Chance(30) {
			emit("ltun rt " + args)
			if r.Chance(30) {
				emit("ltun ser2 " + args)
			}
		}
	}
}
