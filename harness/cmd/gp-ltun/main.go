// gp-ltun: correspondence adapter + monitors for engine `ltun` = the codecs of the UDP-borne tunnel
// headers layers/vxlan.go (VXLAN + GBP), layers/geneve.go (Geneve + options), layers/gtp.go (GTPv1U +
// optional fields + extension headers).
//
// ops (replies are canonical `field=value` renderings, see fieldsOf()):
//
//	ltun dec   <kind> <foreign-hex> <hex>  decode <hex> into a FRESH layer; the bytes sit in a buffer whose spare
//	                                       capacity holds <foreign-hex> (cap = len+|foreign|)
//	                                       -> ok <fields> c=<Contents> p=<Payload> trunc=<0|1> next=<NextLayerType>
//	                                          | err trunc=<0|1> | panic <kind>
//	ltun redec <kind> <hex>                decode into the SAME object as the previous dec/redec of this case
//	ltun pkt   <kind> <hex>                run the registered decoder (LayerType.Decode) on a tracing PacketBuilder
//	                                       -> ok <fields> c= p= trunc= sets=<Set*Layer calls|-> can=<CanDecode types> next=lt:<n>|link:<n>|none
//	ltun ser   <kind> <fix> <csum> <hist> <layer…> <payload>   -> ok <bytes-hex> <fields after the call> | err <fields after>
//	ltun ser2  …                           serialize, then serialize the mutated object again (fresh buffer) -> as ser
//	ltun rt    …                           serialize, then decode the bytes into a fresh layer -> as dec
//	ltun rtdec <kind> <hex>                decode <hex>; serialize the decoded layer (fix+csum on, fresh buffer) over its payload;
//	                                       decode that again -> as dec (of the second decode) | decerr | sererr <fields>
//	ltun nlttab                            EthernetType -> LayerType rows used by Geneve.NextLayerType
//	<kind> = vxlan | geneve | gtp
//	<layer…> vxlan : <I G D A: four 0/1 chars> vni pid
//	         geneve: <O C: two 0/1 chars> ver optlen proto vni <opts>     <opts> = - | class.type.flags.length.hex[,…]
//	         gtp   : <E S PN: three 0/1 chars> ver pt rsv mtype mlen teid seq npdu <ehs>   <ehs> = - | type.hex[,…]
//	<hist> = fresh | dirty:<byte>:<n> | sized:<pre>:<app>       <payload> = hex | - | z<n>x<hh>
//
// Monitors (independent oracles on the real code; property / signature):
//
//	C19 ltun:panic:<site>                 DecodeFromBytes, NewPacket(SkipDecodeRecovery), parser(IgnorePanic) panicked in these files
//	C19 ltun:hang                         an operation did not return
//	C05 ltun:stale:<Kind>:<Field>         decode into a reused object differs from decode into a fresh one
//	C05 ltun:cap-dependent:<Kind>         spare capacity / NoCopy / Pool changes the result
//	C05 ltun:dlp-differs:<Kind>:<Field>   DecodingLayerParser / NewPacket layer differs from DecodeFromBytes
//	C06 ltun:roundtrip:<Kind>:<Field>     in-range layer does not come back from serialize+decode (fix+csum on)
//	C06 ltun:roundtrip:<Kind>:reserialize serializing the decoded layer again gives other bytes
//	C07 ltun:ser-panic:<site>             SerializeTo panicked
//	C07 ltun:dirty-buffer:<Kind>          output differs between fresh / dirty / pre-sized buffers
//	C07 ltun:not-idempotent:<Kind>        serializing the same object twice gives different results
//	C01 ltun:render-panic:<site>          String/Dump/LayerString/… of a packet starting with this layer panicked
package main

import (
	"bytes"
	"fmt"
	"os"
	"runtime/debug"
	"sort"
	"strconv"
	"strings"
	"time"

	"github.com/gopacket/gopacket"
	"github.com/gopacket/gopacket/layers"
	"verif/harness/lib"
)

// ---------------------------------------------------------------- layer kinds

// lobj is what the three layer types have in common.
type lobj interface {
	gopacket.Layer
	DecodeFromBytes([]byte, gopacket.DecodeFeedback) error
	SerializeTo(gopacket.SerializeBuffer, gopacket.SerializeOptions) error
	NextLayerType() gopacket.LayerType
	CanDecode() gopacket.LayerClass
}

type kind struct {
	name  string // op token
	title string // in signatures
	lt    gopacket.LayerType
	fresh func() lobj
}

var kinds = map[string]*kind{
	"vxlan":  {"vxlan", "VXLAN", layers.LayerTypeVXLAN, func() lobj { return &layers.VXLAN{} }},
	"geneve": {"geneve", "Geneve", layers.LayerTypeGeneve, func() lobj { return &layers.Geneve{} }},
	"gtp":    {"gtp", "GTPv1U", layers.LayerTypeGTPv1U, func() lobj { return &layers.GTPv1U{} }},
}

// ---------------------------------------------------------------- rendering

func b01(b bool) string {
	if b {
		return "1"
	}
	return "0"
}

type field struct{ name, long, val string }

func u(v uint64) string { return strconv.FormatUint(v, 10) }

func joinOr(p []string) string {
	if len(p) == 0 {
		return "-"
	}
	return strings.Join(p, ",")
}

// fieldsOf renders every public field; base adds Contents/Payload.
func fieldsOf(l lobj, base bool) []field {
	var fs []field
	var c, p []byte
	switch x := l.(type) {
	case *layers.VXLAN:
		fs = []field{
			{"i", "ValidIDFlag", b01(x.ValidIDFlag)}, {"vni", "VNI", u(uint64(x.VNI))}, {"g", "GBPExtension", b01(x.GBPExtension)},
			{"d", "GBPDontLearn", b01(x.GBPDontLearn)}, {"a", "GBPApplied", b01(x.GBPApplied)}, {"pid", "GBPGroupPolicyID", u(uint64(x.GBPGroupPolicyID))},
		}
		c, p = x.Contents, x.Payload
	case *layers.Geneve:
		var os []string
		for _, o := range x.Options {
			if o == nil {
				os = append(os, "nil")
				continue
			}
			os = append(os, fmt.Sprintf("%d.%d.%d.%d.%s", o.Class, o.Type, o.Flags, o.Length, lib.Hex(o.Data)))
		}
		fs = []field{
			{"ver", "Version", u(uint64(x.Version))}, {"ol", "OptionsLength", u(uint64(x.OptionsLength))}, {"oam", "OAMPacket", b01(x.OAMPacket)},
			{"crit", "CriticalOption", b01(x.CriticalOption)}, {"proto", "Protocol", u(uint64(x.Protocol))}, {"vni", "VNI", u(uint64(x.VNI))},
			{"opts", "Options", joinOr(os)},
		}
		c, p = x.Contents, x.Payload
	case *layers.GTPv1U:
		var es []string
		for _, e := range x.GTPExtensionHeaders {
			es = append(es, fmt.Sprintf("%d.%s", e.Type, lib.Hex(e.Content)))
		}
		fs = []field{
			{"ver", "Version", u(uint64(x.Version))}, {"pt", "ProtocolType", u(uint64(x.ProtocolType))}, {"rsv", "Reserved", u(uint64(x.Reserved))},
			{"e", "ExtensionHeaderFlag", b01(x.ExtensionHeaderFlag)}, {"s", "SequenceNumberFlag", b01(x.SequenceNumberFlag)}, {"pn", "NPDUFlag", b01(x.NPDUFlag)},
			{"mt", "MessageType", u(uint64(x.MessageType))}, {"ml", "MessageLength", u(uint64(x.MessageLength))}, {"teid", "TEID", u(uint64(x.TEID))},
			{"seq", "SequenceNumber", u(uint64(x.SequenceNumber))}, {"npdu", "NPDU", u(uint64(x.NPDU))}, {"ehs", "GTPExtensionHeaders", joinOr(es)},
		}
		c, p = x.Contents, x.Payload
	}
	if base {
		fs = append(fs, field{"c", "Contents", lib.Hex(c)}, field{"p", "Payload", lib.Hex(p)})
	}
	return fs
}

func render(l lobj, base bool) string {
	var sb strings.Builder
	for i, f := range fieldsOf(l, base) {
		if i > 0 {
			sb.WriteByte(' ')
		}
		sb.WriteString(f.name)
		sb.WriteByte('=')
		sb.WriteString(f.val)
	}
	return sb.String()
}

// firstDiff names the first public field on which a and b differ ("" if none).
func firstDiff(a, b lobj, base bool) string {
	fa, fb := fieldsOf(a, base), fieldsOf(b, base)
	for i := range fa {
		if fa[i].val != fb[i].val {
			return fa[i].long
		}
	}
	return ""
}

func payloadOf(l lobj) []byte { return l.LayerPayload() }

type feedback struct{ truncated bool }

func (f *feedback) SetTruncated() { f.truncated = true }

func renderDec(l lobj, err error, trunc bool) string {
	if err != nil {
		return "err trunc=" + b01(trunc)
	}
	return fmt.Sprintf("ok %s trunc=%s next=%d", render(l, true), b01(trunc), int(l.NextLayerType()))
}

// ---------------------------------------------------------------- panic sites, watchdog

var dead bool // an operation hung: answer the remaining ops without touching the code any more

func withWatchdog(f func() string) string {
	if dead {
		return "skipped"
	}
	ch := make(chan string, 1)
	go func() {
		r, _ := protect(func() string { return f() })
		ch <- r
	}()
	select {
	case r := <-ch:
		return r
	case <-time.After(20 * time.Second):
		dead = true
		lib.Finding("C19", "ltun:hang", "an ltun operation did not return within 20s (runaway loop)")
		lib.Finding("C07", "ltun:hang", "an ltun operation did not return within 20s (runaway loop)")
		return "hang"
	}
}

var lastSite, lastMsg string

// protect is lib.Protect with a panic site that does not depend on where the repository is checked out:
// the top-most frame below the panic that lies in the repository's layers/ directory (else the first
// non-runtime frame), as `layers/<file>.go:<line>`.
func protect(f func() string) (reply string, panicked bool) {
	defer func() {
		if v := recover(); v != nil {
			lastMsg = fmt.Sprint(v)
			lastSite = siteOf(string(debug.Stack()))
			reply = "panic " + lib.PanicKind(v)
			panicked = true
		}
	}()
	return f(), false
}

func siteOf(stack string) string {
	first := ""
	seenPanic := false
	for _, l := range strings.Split(stack, "\n") {
		l = strings.TrimSpace(l)
		if strings.HasPrefix(l, "panic(") {
			seenPanic = true
			continue
		}
		if !seenPanic || !strings.Contains(l, ".go:") || !strings.HasPrefix(l, "/") {
			continue
		}
		f := strings.Fields(l)[0]
		if strings.Contains(f, "/runtime/") || strings.Contains(f, "/harness/") {
			continue
		}
		if i := strings.LastIndex(f, "/layers/"); i >= 0 {
			return f[i+1:]
		}
		if first == "" {
			first = f[strings.LastIndex(f, "/")+1:]
		}
	}
	if first == "" {
		return "?"
	}
	return first
}

// mine: is the panic site inside the files this engine models?
func mine(site string) bool {
	for _, f := range []string{"layers/vxlan.go", "layers/geneve.go", "layers/gtp.go", "layers/base.go"} {
		if strings.HasPrefix(site, f+":") {
			return true
		}
	}
	return false
}

// ---------------------------------------------------------------- decode ops + monitors

var objs map[string]lobj // the objects reused by redec, one per kind

func reset() { objs = map[string]lobj{} }

// decodeDirect calls DecodeFromBytes and reports a panic as a C19 finding.
func decodeDirect(l lobj, data []byte, what string) (reply string, err error, trunc bool, panicked bool) {
	df := &feedback{}
	reply, panicked = protect(func() string {
		err = l.DecodeFromBytes(data, df)
		return renderDec(l, err, df.truncated)
	})
	if panicked {
		lib.Finding("C19", "ltun:panic:"+lastSite, fmt.Sprintf("%s panicked (%s) on %d bytes %s", what, lastMsg, len(data), short(data)))
	}
	return reply, err, df.truncated, panicked
}

func short(d []byte) string {
	if len(d) > 96 {
		return lib.Hex(d[:96]) + "…"
	}
	return lib.Hex(d)
}

func withCap(d, foreign []byte) []byte {
	buf := make([]byte, len(d)+len(foreign))
	copy(buf, d)
	copy(buf[len(d):], foreign)
	return buf[:len(d):len(buf)]
}

func exact(d []byte) []byte {
	out := make([]byte, len(d))
	copy(out, d)
	return out[:len(d):len(d)]
}

func firstLayer(p gopacket.Packet, k *kind) lobj {
	ls := p.Layers()
	if len(ls) == 0 || ls[0].LayerType() != k.lt {
		return nil
	}
	l, _ := ls[0].(lobj)
	return l
}

func decodeMonitors(k *kind, d, foreign []byte, direct lobj, derr error, dtrunc bool, dreply string) {
	hexd := short(d)
	// (a) exact-capacity decode must agree with the spare-capacity decode (C05/C04: depends only on the bytes)
	if len(foreign) > 0 {
		l2 := k.fresh()
		r2, _, _, p2 := decodeDirect(l2, exact(d), "DecodeFromBytes(cap=len)")
		if !p2 && r2 != dreply {
			lib.Finding("C05", "ltun:cap-dependent:"+k.title, fmt.Sprintf("decode of %s differs with %d spare bytes: %s vs %s", hexd, len(foreign), dreply, r2))
		}
		lib.Stat("dec:spare-cap")
	}
	// (b) NewPacket with the layer as first decoder, recovery ON: first layer equals the direct decode
	var pl lobj
	_, rpan := protect(func() string {
		p := gopacket.NewPacket(exact(d), k.lt, gopacket.Default)
		pl = firstLayer(p, k)
		if derr == nil {
			if pl == nil {
				lib.Finding("C05", "ltun:dlp-differs:"+k.title+":missing", "DecodeFromBytes succeeds but NewPacket has no such first layer: "+hexd)
			} else if f := firstDiff(pl, direct, true); f != "" {
				lib.Finding("C05", "ltun:dlp-differs:"+k.title+":"+f, fmt.Sprintf("NewPacket layer differs from DecodeFromBytes in %s on %s", f, hexd))
			}
		} else if pl != nil || p.ErrorLayer() == nil {
			lib.Finding("C05", "ltun:dlp-differs:"+k.title+":error", "DecodeFromBytes fails but NewPacket reports the layer / no error: "+hexd)
		}
		// read-only use afterwards must not panic (C01 rows of these layers)
		_ = p.String()
		_ = p.Dump()
		for _, l := range p.Layers() {
			_ = gopacket.LayerString(l)
			_ = gopacket.LayerDump(l)
			_ = gopacket.LayerGoString(l)
		}
		p.VerifyChecksums()
		_ = p.LinkLayer()
		_ = p.NetworkLayer()
		_ = p.TransportLayer()
		return ""
	})
	if rpan { // recovery is ON here: a panic means a renderer/accessor panicked
		lib.Finding("C01", "ltun:render-panic:"+lastSite, "NewPacket/String/Dump/LayerString/VerifyChecksums panicked ("+lastMsg+") on "+hexd)
	}
	// (c) NoCopy / Pool on a buffer with spare capacity: same first layer
	for _, o := range []gopacket.DecodeOptions{{NoCopy: true}, {Pool: true}, {Lazy: true, NoCopy: true}} {
		o := o
		_, pan := protect(func() string {
			p := gopacket.NewPacket(withCap(d, foreign), k.lt, o)
			g := firstLayer(p, k)
			if (g == nil) != (pl == nil) || (g != nil && firstDiff(g, pl, true) != "") {
				lib.Finding("C05", "ltun:cap-dependent:"+k.title, fmt.Sprintf("NewPacket %+v result differs from the copying decode on %s", o, hexd))
			}
			if pp, ok := p.(gopacket.PooledPacket); ok && o.Pool {
				pp.Dispose()
			}
			return ""
		})
		if pan && mine(lastSite) {
			lib.Finding("C19", "ltun:panic:"+lastSite, "NewPacket panicked in the tunnel decoder on "+hexd)
		}
	}
	// (d) recovery OFF: a panic inside these files is a C19 violation (panics of inner decoders are theirs)
	_, pan := protect(func() string {
		gopacket.NewPacket(exact(d), k.lt, gopacket.DecodeOptions{SkipDecodeRecovery: true})
		return ""
	})
	if pan {
		if mine(lastSite) {
			lib.Finding("C19", "ltun:panic:"+lastSite, "NewPacket(SkipDecodeRecovery) panicked on "+hexd)
		} else {
			lib.Stat("inner-decoder-panic:" + lastSite)
		}
	}
	// (e) DecodingLayerParser over {this layer}, IgnorePanic: same fields/truncation as DecodeFromBytes (C05), no panic (C19)
	dl := k.fresh()
	parser := gopacket.NewDecodingLayerParser(k.lt, dl.(gopacket.DecodingLayer))
	parser.IgnorePanic = true
	parser.IgnoreUnsupported = true
	var decoded []gopacket.LayerType
	var perr2 error
	_, pan = protect(func() string { perr2 = parser.DecodeLayers(exact(d), &decoded); return "" })
	if pan {
		lib.Finding("C19", "ltun:panic:"+lastSite, "DecodingLayerParser(IgnorePanic) panicked on "+hexd)
	} else if derr == nil {
		if perr2 != nil || len(decoded) != 1 || decoded[0] != k.lt {
			lib.Finding("C05", "ltun:dlp-differs:"+k.title+":run", "parser over one layer does not report exactly that layer on "+hexd)
		} else if f := firstDiff(dl, direct, true); f != "" {
			lib.Finding("C05", "ltun:dlp-differs:"+k.title+":"+f, "parser layer differs from DecodeFromBytes in "+f+" on "+hexd)
		}
		if parser.Truncated != dtrunc {
			lib.Finding("C05", "ltun:dlp-differs:"+k.title+":Truncated", "parser.Truncated differs from what DecodeFromBytes reported on "+hexd)
		}
	} else if perr2 == nil || len(decoded) != 0 {
		lib.Finding("C05", "ltun:dlp-differs:"+k.title+":error", "parser reports layers/no error where DecodeFromBytes fails: "+hexd)
	}
}

func classifyDec(k *kind, l lobj, err error) {
	if err != nil {
		lib.Stat("dec:" + k.name + ":err")
		return
	}
	lib.Stat("dec:" + k.name + ":ok")
	switch x := l.(type) {
	case *layers.VXLAN:
		if x.GBPExtension {
			lib.Stat("dec:vxlan:gbp")
		}
		lib.Nontrivial()
	case *layers.Geneve:
		n := len(x.Options)
		lib.Stat(fmt.Sprintf("dec:geneve:opts:%d", min(n, 3)))
		if x.OptionsLength >= 248 {
			lib.Stat("dec:geneve:optlen>=248")
		}
		if n > 0 {
			lib.Nontrivial()
		}
	case *layers.GTPv1U:
		n := len(x.GTPExtensionHeaders)
		if x.ExtensionHeaderFlag {
			lib.Stat(fmt.Sprintf("dec:gtp:ehs:%d", min(n, 3)))
		}
		if x.SequenceNumberFlag {
			lib.Stat("dec:gtp:seq")
		}
		if x.NPDUFlag {
			lib.Stat("dec:gtp:npdu")
		}
		if x.ProtocolType == 0 {
			lib.Stat("dec:gtp:pt0")
		}
		if x.ExtensionHeaderFlag || x.SequenceNumberFlag || x.NPDUFlag {
			lib.Nontrivial()
		}
	}
	if len(payloadOf(l)) == 0 {
		lib.Stat("dec:empty-payload")
	}
}

func opDec(k *kind, foreign, d []byte) string {
	l := k.fresh()
	data := withCap(d, foreign)
	reply, err, dtrunc, panicked := decodeDirect(l, data, "DecodeFromBytes")
	objs[k.name] = l
	if panicked {
		return reply
	}
	classifyDec(k, l, err)
	decodeMonitors(k, d, foreign, l, err, dtrunc, reply)
	return reply
}

func opRedec(k *kind, d []byte) string {
	obj := objs[k.name]
	if obj == nil {
		obj = k.fresh()
		objs[k.name] = obj
	}
	before := render(obj, false)
	reply, err, _, panicked := decodeDirect(obj, exact(d), "DecodeFromBytes(reused)")
	if panicked {
		return reply
	}
	fresh := k.fresh()
	fr, ferr, _, fp := decodeDirect(fresh, exact(d), "DecodeFromBytes")
	if !fp && err == nil && ferr == nil && fr != reply {
		f := firstDiff(obj, fresh, true)
		if f == "" {
			f = "derived"
		}
		lib.Finding("C05", "ltun:stale:"+k.title+":"+f, fmt.Sprintf("decode of %s into an object that held {%s} gives %s, fresh gives %s", short(d), before, reply, fr))
	}
	if (err == nil) != (ferr == nil) {
		lib.Finding("C05", "ltun:stale:"+k.title+":error", "reused object changes whether decoding fails on "+short(d))
	}
	lib.Stat("redec:" + k.name)
	if err == nil {
		lib.Nontrivial()
	}
	return reply
}

// ---------------------------------------------------------------- tracing PacketBuilder

type tracer struct {
	added []gopacket.Layer
	sets  []string
	next  []string
	trunc bool
	opts  gopacket.DecodeOptions
}

func (t *tracer) SetTruncated()                             { t.trunc = true }
func (t *tracer) AddLayer(l gopacket.Layer)                 { t.added = append(t.added, l) }
func (t *tracer) SetLinkLayer(gopacket.LinkLayer)           { t.sets = append(t.sets, "link") }
func (t *tracer) SetNetworkLayer(gopacket.NetworkLayer)     { t.sets = append(t.sets, "network") }
func (t *tracer) SetTransportLayer(gopacket.TransportLayer) { t.sets = append(t.sets, "transport") }
func (t *tracer) SetApplicationLayer(gopacket.ApplicationLayer) {
	t.sets = append(t.sets, "application")
}
func (t *tracer) SetErrorLayer(gopacket.ErrorLayer) { t.sets = append(t.sets, "error") }
func (t *tracer) NextDecoder(next gopacket.Decoder) error {
	switch x := next.(type) {
	case gopacket.LayerType:
		t.next = append(t.next, fmt.Sprintf("lt:%d", int(x)))
	case layers.LinkType:
		t.next = append(t.next, fmt.Sprintf("link:%d", int(x)))
	default:
		t.next = append(t.next, fmt.Sprintf("other:%T", next))
	}
	return nil
}
func (t *tracer) DumpPacketData()                        {}
func (t *tracer) DecodeOptions() *gopacket.DecodeOptions { return &t.opts }

func opPkt(k *kind, d []byte) string {
	t := &tracer{}
	var err error
	reply, panicked := protect(func() string {
		err = k.lt.Decode(exact(d), t)
		return ""
	})
	if panicked {
		lib.Finding("C19", "ltun:panic:"+lastSite, "registered decoder panicked on "+short(d))
		return reply
	}
	if err != nil {
		if len(t.added) != 0 || len(t.next) != 0 {
			return fmt.Sprintf("err-but-added trunc=%s", b01(t.trunc))
		}
		lib.Stat("pkt:err")
		return "err trunc=" + b01(t.trunc)
	}
	if len(t.added) != 1 || len(t.next) > 1 {
		return fmt.Sprintf("odd added=%d next=%d", len(t.added), len(t.next))
	}
	l, ok := t.added[0].(lobj)
	if !ok || l.LayerType() != k.lt {
		return "odd layer-type"
	}
	tail := "next=none"
	if len(t.next) == 1 {
		tail = "next=" + t.next[0]
		lib.Stat("pkt:next")
	} else {
		lib.Stat("pkt:done")
	}
	lib.Nontrivial()
	var can []string
	for _, lt := range l.CanDecode().LayerTypes() {
		can = append(can, strconv.Itoa(int(lt)))
	}
	return fmt.Sprintf("ok %s trunc=%s sets=%s can=%s %s", render(l, true), b01(t.trunc), joinOr(t.sets), joinOr(can), tail)
}

// ---------------------------------------------------------------- serialize ops + monitors

type gopt struct {
	cls, typ, flags, length int
	data                    []byte
}
type gext struct {
	typ     int
	content []byte
}

// lspec: the field values of a ser op (a new object is built from it for every use).
type lspec struct {
	k      *kind
	bits   string
	nums   []uint64
	opts   []gopt
	exts   []gext
	fields []string
}

func parsePayload(s string) ([]byte, bool) {
	if strings.HasPrefix(s, "z") {
		p := strings.Split(s[1:], "x")
		if len(p) != 2 {
			return nil, false
		}
		n, ok := lib.Atou(p[0])
		v, ok2 := lib.UnHex(p[1])
		if !ok || !ok2 || len(v) != 1 || n > 200000 {
			return nil, false
		}
		return bytes.Repeat(v, int(n)), true
	}
	return lib.UnHex(s)
}

func bitsOK(s string, n int) bool { return len(s) == n && strings.Trim(s, "01") == "" }

func parseNums(a []string, bounds []uint64) ([]uint64, bool) {
	out := make([]uint64, len(bounds))
	for i, b := range bounds {
		v, ok := lib.Atou(a[i])
		if !ok || v >= b {
			return nil, false
		}
		out[i] = v
	}
	return out, true
}

func parseSpec(k *kind, a []string) (*lspec, bool) {
	s := &lspec{k: k, fields: a}
	switch k.name {
	case "vxlan":
		if len(a) != 3 || !bitsOK(a[0], 4) {
			return nil, false
		}
		n, ok := parseNums(a[1:], []uint64{1 << 32, 1 << 16})
		if !ok {
			return nil, false
		}
		s.bits, s.nums = a[0], n
	case "geneve":
		if len(a) != 6 || !bitsOK(a[0], 2) {
			return nil, false
		}
		n, ok := parseNums(a[1:5], []uint64{256, 256, 1 << 16, 1 << 32})
		if !ok {
			return nil, false
		}
		s.bits, s.nums = a[0], n
		if a[5] != "-" {
			for _, e := range strings.Split(a[5], ",") {
				p := strings.Split(e, ".")
				if len(p) != 5 {
					return nil, false
				}
				v, ok := parseNums(p[:4], []uint64{1 << 16, 256, 256, 256})
				d, ok2 := lib.UnHex(p[4])
				if !ok || !ok2 {
					return nil, false
				}
				s.opts = append(s.opts, gopt{int(v[0]), int(v[1]), int(v[2]), int(v[3]), d})
			}
		}
	case "gtp":
		if len(a) != 10 || !bitsOK(a[0], 3) {
			return nil, false
		}
		n, ok := parseNums(a[1:9], []uint64{256, 256, 256, 256, 1 << 16, 1 << 32, 1 << 16, 256})
		if !ok {
			return nil, false
		}
		s.bits, s.nums = a[0], n
		if a[9] != "-" {
			for _, e := range strings.Split(a[9], ",") {
				p := strings.Split(e, ".")
				if len(p) != 2 {
					return nil, false
				}
				t, ok := lib.Atou(p[0])
				d, ok2 := lib.UnHex(p[1])
				if !ok || !ok2 || t > 255 {
					return nil, false
				}
				s.exts = append(s.exts, gext{int(t), d})
			}
		}
	}
	return s, true
}

func cloneBytes(b []byte) []byte {
	if len(b) == 0 {
		return nil
	}
	return append([]byte(nil), b...)
}

// build makes a new object (with its own option / extension header storage).
func (s *lspec) build() lobj {
	switch s.k.name {
	case "vxlan":
		return &layers.VXLAN{ValidIDFlag: s.bits[0] == '1', GBPExtension: s.bits[1] == '1', GBPDontLearn: s.bits[2] == '1',
			GBPApplied: s.bits[3] == '1', VNI: uint32(s.nums[0]), GBPGroupPolicyID: uint16(s.nums[1])}
	case "geneve":
		g := &layers.Geneve{OAMPacket: s.bits[0] == '1', CriticalOption: s.bits[1] == '1', Version: uint8(s.nums[0]),
			OptionsLength: uint8(s.nums[1]), Protocol: layers.EthernetType(s.nums[2]), VNI: uint32(s.nums[3])}
		for _, o := range s.opts {
			g.Options = append(g.Options, &layers.GeneveOption{Class: uint16(o.cls), Type: uint8(o.typ), Flags: uint8(o.flags),
				Length: uint8(o.length), Data: cloneBytes(o.data)})
		}
		return g
	default:
		g := &layers.GTPv1U{ExtensionHeaderFlag: s.bits[0] == '1', SequenceNumberFlag: s.bits[1] == '1', NPDUFlag: s.bits[2] == '1',
			Version: uint8(s.nums[0]), ProtocolType: uint8(s.nums[1]), Reserved: uint8(s.nums[2]), MessageType: uint8(s.nums[3]),
			MessageLength: uint16(s.nums[4]), TEID: uint32(s.nums[5]), SequenceNumber: uint16(s.nums[6]), NPDU: uint8(s.nums[7])}
		for _, e := range s.exts {
			g.GTPExtensionHeaders = append(g.GTPExtensionHeaders, layers.GTPExtensionHeader{Type: uint8(e.typ), Content: cloneBytes(e.content)})
		}
		return g
	}
}

// inRange: the in-range / consistent layer values for which the round trip is claimed (written
// independently of the Lean text): every field fits its wire width, absent optional fields are zero,
// option / extension-header payloads have a length the format can express.
func (s *lspec) inRange() bool {
	switch s.k.name {
	case "vxlan":
		return s.nums[0] < 1<<24
	case "geneve":
		if s.nums[0] > 3 || s.nums[3] >= 1<<24 {
			return false
		}
		total := 0
		for _, o := range s.opts {
			if len(o.data)%4 != 0 || len(o.data) > 124 || o.flags > 7 {
				return false
			}
			total += 4 + len(o.data)
		}
		return total <= 252
	default:
		if s.nums[0] > 7 || s.nums[1] > 1 || s.nums[2] > 1 {
			return false
		}
		if (s.bits[1] != '1' && s.nums[6] != 0) || (s.bits[2] != '1' && s.nums[7] != 0) {
			return false
		}
		for _, e := range s.exts {
			if len(e.content)%4 != 2 || len(e.content) > 1018 || e.typ == 0 {
				return false
			}
		}
		return true
	}
}

func mkBuf(hist string) (gopacket.SerializeBuffer, bool) {
	p := strings.Split(hist, ":")
	switch {
	case len(p) == 1 && p[0] == "fresh":
		return gopacket.NewSerializeBuffer(), true
	case len(p) == 3 && p[0] == "dirty":
		v, ok1 := lib.Atou(p[1])
		n, ok2 := lib.Atou(p[2])
		if !ok1 || !ok2 || v > 255 || n >= 1000000 {
			return nil, false
		}
		b := gopacket.NewSerializeBuffer()
		s, _ := b.PrependBytes(int(n))
		for i := range s {
			s[i] = byte(v)
		}
		b.Clear()
		return b, true
	case len(p) == 3 && p[0] == "sized":
		pre, ok1 := lib.Atou(p[1])
		app, ok2 := lib.Atou(p[2])
		if !ok1 || !ok2 || pre >= 1000000 || app >= 1000000 {
			return nil, false
		}
		return gopacket.NewSerializeBufferExpectedSize(int(pre), int(app)), true
	}
	return nil, false
}

// serializeOnce: payload first (as gopacket.Payload does), then SerializeTo.
func serializeOnce(l lobj, hist string, payload []byte, opts gopacket.SerializeOptions) (out []byte, err error, panicked bool) {
	b, _ := mkBuf(hist)
	_, panicked = protect(func() string {
		pb, _ := b.PrependBytes(len(payload))
		copy(pb, payload)
		err = l.SerializeTo(b, opts)
		out = append([]byte(nil), b.Bytes()...)
		return ""
	})
	return
}

func serResult(l lobj, out []byte, err error) string {
	if err != nil {
		return "err " + render(l, false)
	}
	return "ok " + lib.Hex(out) + " " + render(l, false)
}

func serMonitors(s *lspec, hist string, payload []byte, first string, firstBytes []byte, firstErr error, mutated lobj, opts gopacket.SerializeOptions, fix, csum bool) {
	k := s.k
	// C07 buffer independence: fresh / two dirty patterns / pre-sized buffers give the same result (bytes or error, same receiver)
	total := len(firstBytes) + 64
	for _, h := range []string{"fresh", fmt.Sprintf("dirty:165:%d", total), fmt.Sprintf("dirty:90:%d", total/2+1), "dirty:255:9", fmt.Sprintf("sized:%d:0", total), "sized:3:5"} {
		l := s.build()
		out, err, pan := serializeOnce(l, h, payload, opts)
		if pan {
			lib.Finding("C07", "ltun:ser-panic:"+lastSite, "SerializeTo panicked ("+lastMsg+") with buffer history "+h)
			continue
		}
		if r := serResult(l, out, err); r != first {
			lib.Finding("C07", "ltun:dirty-buffer:"+k.title, fmt.Sprintf("buffer history %s gives %s, history %s gives %s", h, trunc200(r), hist, trunc200(first)))
			break
		}
	}
	// C07 idempotence: the same (mutated) object again, over the same payload and the same buffer history
	out2, err2, pan2 := serializeOnce(mutated, hist, payload, opts)
	if pan2 {
		lib.Finding("C07", "ltun:ser-panic:"+lastSite, "second SerializeTo panicked ("+lastMsg+")")
	} else if r := serResult(mutated, out2, err2); r != first {
		lib.Finding("C07", "ltun:not-idempotent:"+k.title, fmt.Sprintf("second serialization gives %s, first %s", trunc200(r), trunc200(first)))
	}
	// C06 round trip (as the property states it: FixLengths and ComputeChecksums on, in-range layer)
	if fix && csum && firstErr == nil && s.inRange() {
		lib.Stat("ser:" + k.name + ":roundtrip-checked")
		d := k.fresh()
		df := &feedback{}
		var derr error
		_, pan := protect(func() string { derr = d.DecodeFromBytes(exact(firstBytes), df); return "" })
		switch {
		case pan:
			lib.Finding("C19", "ltun:panic:"+lastSite, "decode of serialized bytes panicked")
		case derr != nil:
			lib.Finding("C06", "ltun:roundtrip:"+k.title+":error", "serialized in-range layer does not decode: "+short(firstBytes))
		case df.truncated:
			lib.Finding("C06", "ltun:roundtrip:"+k.title+":Truncated", "decode of serialized layer sets the truncation flag")
		default:
			if f := firstDiff(d, mutated, false); f != "" {
				lib.Finding("C06", "ltun:roundtrip:"+k.title+":"+f, fmt.Sprintf("wrote {%s}, read back {%s}", trunc200(render(mutated, false)), trunc200(render(d, false))))
			} else if !bytes.Equal(payloadOf(d), payload) {
				lib.Finding("C06", "ltun:roundtrip:"+k.title+":Payload", "payload differs after the round trip")
			} else {
				out3, err3, pan3 := serializeOnce(d, "fresh", payloadOf(d), opts)
				if pan3 || err3 != nil || !bytes.Equal(out3, firstBytes) {
					lib.Finding("C06", "ltun:roundtrip:"+k.title+":reserialize", fmt.Sprintf("reserialized decoded layer gives %s, first %s", short(out3), short(firstBytes)))
				}
				// through NewPacket as well: first layer has the same fields
				protect(func() string {
					p := gopacket.NewPacket(firstBytes, k.lt, gopacket.Default)
					pl := firstLayer(p, k)
					if pl == nil || firstDiff(pl, mutated, false) != "" {
						lib.Finding("C06", "ltun:roundtrip:"+k.title+":packet", "NewPacket on the serialized bytes does not give the layer back")
					}
					return ""
				})
			}
		}
	}
}

func trunc200(s string) string {
	if len(s) > 300 {
		return s[:300] + "…"
	}
	return s
}

func classifySer(s *lspec, payload []byte, hist string, err error) {
	k := s.k.name
	lib.Stat("ser:" + k)
	if err != nil {
		lib.Stat("ser:" + k + ":err")
	}
	if s.inRange() {
		lib.Stat("ser:" + k + ":in-range")
	} else {
		lib.Stat("ser:" + k + ":out-of-range")
	}
	switch k {
	case "geneve":
		lib.Stat(fmt.Sprintf("ser:geneve:opts:%d", min(len(s.opts), 3)))
		for _, o := range s.opts {
			if len(o.data)%4 != 0 {
				lib.Stat("ser:geneve:opt-unaligned")
			}
		}
	case "gtp":
		lib.Stat(fmt.Sprintf("ser:gtp:ehs:%d", min(len(s.exts), 3)))
		if s.nums[1] == 0 {
			lib.Stat("ser:gtp:pt0")
		}
	}
	switch {
	case len(payload) == 0:
		lib.Stat("ser:payload:0")
	case len(payload) > 65535:
		lib.Stat("ser:payload:>64k")
	case len(payload) >= 1480:
		lib.Stat("ser:payload:mtu")
	case len(payload)%2 == 1:
		lib.Stat("ser:payload:odd")
	}
	lib.Stat("ser:hist:" + strings.Split(hist, ":")[0])
	if k == "vxlan" || len(s.opts) > 0 || len(s.exts) > 0 || (k == "gtp" && s.bits != "000") {
		lib.Nontrivial()
	}
}

// opSer: a = <fix> <csum> <hist> <layer…> <payload>
func opSer(op string, k *kind, a []string) string {
	if len(a) < 5 || (a[0] != "0" && a[0] != "1") || (a[1] != "0" && a[1] != "1") {
		return "bad-op"
	}
	fix, csum, hist := a[0] == "1", a[1] == "1", a[2]
	if _, ok := mkBuf(hist); !ok {
		return "bad-op"
	}
	payload, ok := parsePayload(a[len(a)-1])
	if !ok {
		return "bad-op"
	}
	s, ok := parseSpec(k, a[3:len(a)-1])
	if !ok {
		return "bad-op"
	}
	opts := gopacket.SerializeOptions{FixLengths: fix, ComputeChecksums: csum}
	l := s.build()
	out, err, pan := serializeOnce(l, hist, payload, opts)
	if pan {
		lib.Finding("C07", "ltun:ser-panic:"+lastSite, "SerializeTo panicked ("+lastMsg+")")
		return "panic " + lib.PanicKind(lastMsg)
	}
	first := serResult(l, out, err)
	classifySer(s, payload, hist, err)
	serMonitors(s, hist, payload, first, out, err, l, opts, fix, csum)
	switch op {
	case "ser":
		return first
	case "ser2":
		out2, err2, pan2 := serializeOnce(l, "fresh", payload, opts)
		if pan2 {
			return "panic " + lib.PanicKind(lastMsg)
		}
		return serResult(l, out2, err2)
	default: // rt
		if err != nil {
			return "err"
		}
		d := k.fresh()
		reply, _, _, _ := decodeDirect(d, exact(out), "DecodeFromBytes(serialized)")
		return reply
	}
}


// opRtDec: the round trip for "a layer obtained by decoding": decode, serialize over the decoded payload with
// FixLengths+ComputeChecksums, decode again; the monitor compares the two decoded layers.
func opRtDec(k *kind, d []byte) string {
	l := k.fresh()
	_, err, _, panicked := decodeDirect(l, exact(d), "DecodeFromBytes")
	if panicked {
		return "panic " + lib.PanicKind(lastMsg)
	}
	if err != nil {
		lib.Stat("rtdec:decerr")
		return "decerr"
	}
	opts := gopacket.SerializeOptions{FixLengths: true, ComputeChecksums: true}
	payload := append([]byte(nil), payloadOf(l)...)
	out, serr, pan := serializeOnce(l, "fresh", payload, opts)
	if pan {
		lib.Finding("C07", "ltun:ser-panic:"+lastSite, "SerializeTo of a decoded layer panicked ("+lastMsg+")")
		return "panic " + lib.PanicKind(lastMsg)
	}
	if serr != nil {
		lib.Finding("C06", "ltun:roundtrip:"+k.title+":error", "a decoded layer cannot be serialized: "+short(d))
		return "sererr " + render(l, false)
	}
	lib.Stat("rtdec:" + k.name)
	lib.Nontrivial()
	d2 := k.fresh()
	reply, derr, dtr, pan2 := decodeDirect(d2, exact(out), "DecodeFromBytes(reserialized)")
	switch {
	case pan2:
	case derr != nil:
		lib.Finding("C06", "ltun:roundtrip:"+k.title+":error", "a decoded layer, serialized again, does not decode: "+short(d))
	case dtr:
		lib.Finding("C06", "ltun:roundtrip:"+k.title+":Truncated", "decode of a re-serialized decoded layer sets the truncation flag")
	default:
		if f := firstDiff(d2, l, false); f != "" {
			lib.Finding("C06", "ltun:roundtrip:"+k.title+":"+f, fmt.Sprintf("decoded {%s} from %s, wrote it, read back {%s}", trunc200(render(l, false)), short(d), trunc200(render(d2, false))))
		} else if !bytes.Equal(payloadOf(d2), payload) {
			lib.Finding("C06", "ltun:roundtrip:"+k.title+":Payload", "payload of a decoded layer differs after the round trip: "+short(d))
		} else {
			out3, err3, pan3 := serializeOnce(d2, "dirty:165:64", payloadOf(d2), opts)
			if pan3 || err3 != nil || !bytes.Equal(out3, out) {
				lib.Finding("C06", "ltun:roundtrip:"+k.title+":reserialize", "writing the decoded layer once more gives other bytes: "+short(d))
			}
		}
	}
	return reply
}

func opNltTab() string {
	type row struct{ k, v int }
	var rows []row
	for i := 0; i < 65536; i++ {
		if lt := layers.EthernetType(i).LayerType(); lt != 0 {
			rows = append(rows, row{i, int(lt)})
		}
	}
	sort.Slice(rows, func(i, j int) bool { return rows[i].k < rows[j].k })
	var p []string
	for _, r := range rows {
		p = append(p, fmt.Sprintf("%d:%d", r.k, r.v))
	}
	lib.Stat("nlttab")
	return "ok " + strings.Join(p, ",")
}

// ---------------------------------------------------------------- dispatcher

func exec(a []string) string {
	if len(a) < 2 || a[0] != "ltun" {
		return "bad-op"
	}
	if a[1] == "nlttab" {
		if len(a) != 2 {
			return "bad-op"
		}
		return opNltTab()
	}
	if len(a) < 3 {
		return "bad-op"
	}
	k := kinds[a[2]]
	if k == nil {
		return "bad-op"
	}
	switch a[1] {
	case "dec":
		if len(a) != 5 {
			return "bad-op"
		}
		f, ok1 := lib.UnHex(a[3])
		d, ok2 := lib.UnHex(a[4])
		if !ok1 || !ok2 {
			return "bad-op"
		}
		return withWatchdog(func() string { return opDec(k, f, d) })
	case "redec":
		if len(a) != 4 {
			return "bad-op"
		}
		d, ok := lib.UnHex(a[3])
		if !ok {
			return "bad-op"
		}
		return withWatchdog(func() string { return opRedec(k, d) })
	case "pkt", "rtdec":
		if len(a) != 4 {
			return "bad-op"
		}
		d, ok := lib.UnHex(a[3])
		if !ok {
			return "bad-op"
		}
		if a[1] == "rtdec" {
			return withWatchdog(func() string { return opRtDec(k, d) })
		}
		return withWatchdog(func() string { return opPkt(k, d) })
	case "ser", "ser2", "rt":
		return withWatchdog(func() string { return opSer(a[1], k, a[3:]) })
	}
	return "bad-op"
}

func main() {
	_ = os.Args
	reset()
	lib.Main(lib.Engine{Name: "ltun", Gen: gen, Reset: reset, Exec: exec})
}
