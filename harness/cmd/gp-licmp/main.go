// gp-licmp: correspondence adapter + monitors for LAYER engine `licmp`
// (layers/icmp4.go, layers/icmp6.go, layers/icmp6msg.go) — properties C19, C05, C06, C07, C17.
//
// Ops (first word `licmp`; <kind> ∈ icmp4 icmp6 echo rs ra ns na redirect):
//
//	licmp dec   <kind> <extra-cap> <foreign-hex> <hex>     DecodeFromBytes into a FRESH object; the input sits in a
//	                                                       buffer with <extra-cap> spare bytes holding <foreign-hex>
//	licmp redec <kind> <hex>                               DecodeFromBytes into the SAME object as the previous
//	                                                       dec/redec/dlp of this kind in this case
//	licmp ser   <kind> <fix> <csum> <hist> <net> <k=v…> p=<payloadhex>     SerializeTo over a payload
//	licmp rt    <net> tc=<n> ck=<n> <kind> <k=v…> p=<payloadhex>           SerializeLayers(ICMPv6,kind,payload) then NewPacket
//	licmp rt4   <k=v…> p=<payloadhex>                                      SerializeLayers(ICMPv4,payload) then NewPacket
//	licmp pkt   <kind> <flags> <hex>                       NewPacket(first=kind, SkipDecodeRecovery, flags: 1 lazy, 2 nocopy)
//	licmp dlp   <kind> <hex>                               DecodingLayerParser (IgnorePanic) over the case's objects
//
// hist ∈ fresh | sized:<pre>:<app> | dirty:<bytehex>:<pre>:<app>;  net ∈ none | v4:<src>:<dst> | v6:<src>:<dst>.
// Replies: see render* below (field=value, lower hex, `-` empty, errors as `err`).
package main

import (
	"bytes"
	"fmt"
	"net"
	"os"
	"regexp"
	"runtime"
	"runtime/debug"
	"strconv"
	"strings"
	"sync/atomic"
	"time"

	"github.com/gopacket/gopacket"
	"github.com/gopacket/gopacket/layers"
	"verif/harness/lib"
)

const E = "licmp"

var kinds = []string{"icmp4", "icmp6", "echo", "rs", "ra", "ns", "na", "redirect"}

type layer interface {
	gopacket.DecodingLayer
	gopacket.SerializableLayer
	LayerContents() []byte
}

func newLayer(kind string) layer {
	switch kind {
	case "icmp4":
		return &layers.ICMPv4{}
	case "icmp6":
		return &layers.ICMPv6{}
	case "echo":
		return &layers.ICMPv6Echo{}
	case "rs":
		return &layers.ICMPv6RouterSolicitation{}
	case "ra":
		return &layers.ICMPv6RouterAdvertisement{}
	case "ns":
		return &layers.ICMPv6NeighborSolicitation{}
	case "na":
		return &layers.ICMPv6NeighborAdvertisement{}
	case "redirect":
		return &layers.ICMPv6Redirect{}
	}
	return nil
}

func kindOfType(t gopacket.LayerType) string {
	switch t {
	case layers.LayerTypeICMPv4:
		return "icmp4"
	case layers.LayerTypeICMPv6:
		return "icmp6"
	case layers.LayerTypeICMPv6Echo:
		return "echo"
	case layers.LayerTypeICMPv6RouterSolicitation:
		return "rs"
	case layers.LayerTypeICMPv6RouterAdvertisement:
		return "ra"
	case layers.LayerTypeICMPv6NeighborSolicitation:
		return "ns"
	case layers.LayerTypeICMPv6NeighborAdvertisement:
		return "na"
	case layers.LayerTypeICMPv6Redirect:
		return "redirect"
	}
	return ""
}

func typeOfKind(kind string) gopacket.LayerType {
	return newLayer(kind).(gopacket.Layer).LayerType()
}

// ---------------------------------------------------------------- rendering

type kv struct{ k, v string }

func optsStr(o layers.ICMPv6Options) string {
	if len(o) == 0 {
		return "-"
	}
	parts := make([]string, len(o))
	for i, opt := range o {
		parts[i] = fmt.Sprintf("%d:%s", uint8(opt.Type), lib.Hex(opt.Data))
	}
	return strings.Join(parts, ",")
}

func u(n uint64) string { return strconv.FormatUint(n, 10) }

// fields lists every public field (BaseLayer last), in the order used by both sides.
func fields(l layer) []kv {
	var out []kv
	switch v := l.(type) {
	case *layers.ICMPv4:
		out = []kv{{"tc", u(uint64(v.TypeCode))}, {"ck", u(uint64(v.Checksum))}, {"id", u(uint64(v.Id))}, {"seq", u(uint64(v.Seq))}}
	case *layers.ICMPv6:
		out = []kv{{"tc", u(uint64(v.TypeCode))}, {"ck", u(uint64(v.Checksum))}, {"tb", lib.Hex(v.TypeBytes)}}
	case *layers.ICMPv6Echo:
		out = []kv{{"id", u(uint64(v.Identifier))}, {"seq", u(uint64(v.SeqNumber))}}
	case *layers.ICMPv6RouterSolicitation:
		out = []kv{{"opts", optsStr(v.Options)}}
	case *layers.ICMPv6RouterAdvertisement:
		out = []kv{{"hl", u(uint64(v.HopLimit))}, {"fl", u(uint64(v.Flags))}, {"life", u(uint64(v.RouterLifetime))},
			{"reach", u(uint64(v.ReachableTime))}, {"retr", u(uint64(v.RetransTimer))}, {"opts", optsStr(v.Options)}}
	case *layers.ICMPv6NeighborSolicitation:
		out = []kv{{"tgt", lib.Hex(v.TargetAddress)}, {"opts", optsStr(v.Options)}}
	case *layers.ICMPv6NeighborAdvertisement:
		out = []kv{{"fl", u(uint64(v.Flags))}, {"tgt", lib.Hex(v.TargetAddress)}, {"opts", optsStr(v.Options)}}
	case *layers.ICMPv6Redirect:
		out = []kv{{"tgt", lib.Hex(v.TargetAddress)}, {"dst", lib.Hex(v.DestinationAddress)}, {"opts", optsStr(v.Options)}}
	}
	out = append(out, kv{"c", lib.Hex(l.LayerContents())}, kv{"p", lib.Hex(l.LayerPayload())})
	return out
}

func kvStr(f []kv) string {
	parts := make([]string, len(f))
	for i, x := range f {
		parts[i] = x.k + "=" + x.v
	}
	return strings.Join(parts, " ")
}

func b01(b bool) string {
	if b {
		return "1"
	}
	return "0"
}

// renderLayer: `next=<NextLayerType> <fields>` (+ VerifyChecksum for ICMPv4).
func renderLayer(l layer) string {
	s := "next=" + l.NextLayerType().String() + " " + kvStr(fields(l))
	if v, ok := l.(*layers.ICMPv4); ok {
		_, r := v.VerifyChecksum()
		s += fmt.Sprintf(" vc=%s:%d:%d", b01(r.Valid), r.Correct, r.Actual)
	}
	return s
}

// protect is lib.Protect plus a panic site that also works in scratch worktrees: the top-most
// frame inside the repository's layers/ (or root) package, as `layers/file.go:line`.
var siteRe = regexp.MustCompile(`/((?:layers/)?[a-z0-9_]+\.go):(\d+)`)

func protect(f func() string) (string, bool) {
	var site string
	r, p := lib.Protect(func() (out string) {
		defer func() {
			if v := recover(); v != nil {
				for _, l := range strings.Split(string(debug.Stack()), "\n") {
					if strings.Contains(l, "/verif/") || strings.Contains(l, "/runtime/") || !strings.Contains(l, ".go:") {
						continue
					}
					if m := siteRe.FindStringSubmatch(l); m != nil && (strings.Contains(l, "/layers/") || strings.Contains(l, "wt-") || strings.Contains(l, "/repo/") || strings.Contains(l, "gopacket")) {
						site = m[1] + ":" + m[2]
						break
					}
				}
				panic(v)
			}
		}()
		return f()
	})
	if p && site != "" {
		lib.LastPanicSite = site
	}
	return r, p
}

type feedback struct{ trunc bool }

func (f *feedback) SetTruncated() { f.trunc = true }

// ---------------------------------------------------------------- state

var cur map[string]layer // the case's reusable objects
var payloadDL gopacket.Payload

func reset() { cur = map[string]layer{} }

func obj(kind string) layer {
	if cur[kind] == nil {
		cur[kind] = newLayer(kind)
	}
	return cur[kind]
}

// ---------------------------------------------------------------- decode helpers

// inBuf places data in a buffer with spare capacity holding `foreign`.
func inBuf(data, foreign []byte) []byte {
	buf := make([]byte, len(data)+len(foreign))
	copy(buf, data)
	copy(buf[len(data):], foreign)
	return buf[:len(data)]
}

// decodeInto runs DecodeFromBytes with panic capture.  Returns (reply, ok, panicked).
func decodeInto(l layer, data []byte, where string) (string, bool) {
	df := &feedback{}
	var err error
	r, panicked := protect(func() string {
		err = l.DecodeFromBytes(data, df)
		return ""
	})
	if panicked {
		lib.Finding("C19", E+":panic:"+lib.LastPanicSite, fmt.Sprintf("%s panics (%s) in %s on %s", where, lib.LastPanicMsg, lib.LastPanicSite, lib.Hex(data)))
		lib.Stat("dec-panic")
		return r, false
	}
	if err != nil {
		lib.Stat("dec-err")
		return "err t=" + b01(df.trunc), false
	}
	lib.Stat("dec-ok")
	// C01-style renderer safety on what the decoder left behind
	if _, p := protect(func() string { return gopacket.LayerString(l.(gopacket.Layer)) + optStrings(l) }); p {
		lib.Finding("C01", E+":string-panic:"+lib.LastPanicSite, "String renderer panics on a decoded layer: "+lib.Hex(data))
	}
	return "ok t=" + b01(df.trunc) + " " + renderLayer(l), true
}

func optionsOf(l layer) layers.ICMPv6Options {
	switch v := l.(type) {
	case *layers.ICMPv6RouterSolicitation:
		return v.Options
	case *layers.ICMPv6RouterAdvertisement:
		return v.Options
	case *layers.ICMPv6NeighborSolicitation:
		return v.Options
	case *layers.ICMPv6NeighborAdvertisement:
		return v.Options
	case *layers.ICMPv6Redirect:
		return v.Options
	}
	return nil
}

func optStrings(l layer) string {
	s := ""
	for _, o := range optionsOf(l) {
		s += o.String() + o.Type.String()
	}
	return s
}

func firstDiff(a, b []kv) string {
	for i := range a {
		if i >= len(b) || a[i] != b[i] {
			return a[i].k
		}
	}
	return ""
}

var fieldName = map[string]string{"tc": "TypeCode", "ck": "Checksum", "id": "Id", "seq": "Seq", "tb": "TypeBytes", "opts": "Options",
	"hl": "HopLimit", "fl": "Flags", "life": "RouterLifetime", "reach": "ReachableTime", "retr": "RetransTimer", "tgt": "TargetAddress",
	"dst": "DestinationAddress", "c": "Contents", "p": "Payload"}

// ---------------------------------------------------------------- build layers from k=v tokens

func parseKV(toks []string) (map[string]string, bool) {
	m := map[string]string{}
	for _, t := range toks {
		i := strings.IndexByte(t, '=')
		if i <= 0 {
			return nil, false
		}
		if _, dup := m[t[:i]]; dup {
			return nil, false
		}
		m[t[:i]] = t[i+1:]
	}
	return m, true
}

func getU(m map[string]string, k string, bits int) (uint64, bool) {
	s, ok := m[k]
	if !ok {
		return 0, false
	}
	n, err := strconv.ParseUint(s, 10, bits)
	if err != nil || (len(s) > 1 && s[0] == '0') {
		return 0, false
	}
	return n, true
}

func getH(m map[string]string, k string) ([]byte, bool) {
	s, ok := m[k]
	if !ok {
		return nil, false
	}
	return lib.UnHex(s)
}

func getOpts(m map[string]string) (layers.ICMPv6Options, bool) {
	s, ok := m["opts"]
	if !ok {
		return nil, false
	}
	if s == "-" {
		return nil, true
	}
	var out layers.ICMPv6Options
	for _, part := range strings.Split(s, ",") {
		i := strings.IndexByte(part, ':')
		if i <= 0 {
			return nil, false
		}
		t, err := strconv.ParseUint(part[:i], 10, 8)
		if err != nil || (i > 1 && part[0] == '0') {
			return nil, false
		}
		d, ok := lib.UnHex(part[i+1:])
		if !ok {
			return nil, false
		}
		out = append(out, layers.ICMPv6Option{Type: layers.ICMPv6Opt(t), Data: d})
	}
	return out, true
}

var nFields = map[string]int{"icmp4": 4, "icmp6": 3, "echo": 2, "rs": 1, "ra": 6, "ns": 2, "na": 3, "redirect": 3}

// build constructs a layer of the kind from its public (non-BaseLayer) fields.
func build(kind string, m map[string]string) (layer, bool) {
	if len(m) != nFields[kind] {
		return nil, false
	}
	ok := true
	gu := func(k string, bits int) uint64 {
		n, o := getU(m, k, bits)
		ok = ok && o
		return n
	}
	gh := func(k string) []byte {
		b, o := getH(m, k)
		ok = ok && o
		if len(b) == 0 {
			return nil
		}
		return b
	}
	go_ := func() layers.ICMPv6Options {
		o, o2 := getOpts(m)
		ok = ok && o2
		return o
	}
	var l layer
	switch kind {
	case "icmp4":
		l = &layers.ICMPv4{TypeCode: layers.ICMPv4TypeCode(gu("tc", 16)), Checksum: uint16(gu("ck", 16)), Id: uint16(gu("id", 16)), Seq: uint16(gu("seq", 16))}
	case "icmp6":
		l = &layers.ICMPv6{TypeCode: layers.ICMPv6TypeCode(gu("tc", 16)), Checksum: uint16(gu("ck", 16)), TypeBytes: gh("tb")}
	case "echo":
		l = &layers.ICMPv6Echo{Identifier: uint16(gu("id", 16)), SeqNumber: uint16(gu("seq", 16))}
	case "rs":
		l = &layers.ICMPv6RouterSolicitation{Options: go_()}
	case "ra":
		l = &layers.ICMPv6RouterAdvertisement{HopLimit: uint8(gu("hl", 8)), Flags: uint8(gu("fl", 8)), RouterLifetime: uint16(gu("life", 16)),
			ReachableTime: uint32(gu("reach", 32)), RetransTimer: uint32(gu("retr", 32)), Options: go_()}
	case "ns":
		l = &layers.ICMPv6NeighborSolicitation{TargetAddress: net.IP(gh("tgt")), Options: go_()}
	case "na":
		l = &layers.ICMPv6NeighborAdvertisement{Flags: uint8(gu("fl", 8)), TargetAddress: net.IP(gh("tgt")), Options: go_()}
	case "redirect":
		l = &layers.ICMPv6Redirect{TargetAddress: net.IP(gh("tgt")), DestinationAddress: net.IP(gh("dst")), Options: go_()}
	default:
		return nil, false
	}
	return l, ok
}

// pubFields = fields without BaseLayer.
func pubFields(l layer) []kv { f := fields(l); return f[:len(f)-2] }

func parseNet(s string) (gopacket.NetworkLayer, bool) {
	if s == "none" {
		return nil, true
	}
	p := strings.Split(s, ":")
	if len(p) != 3 {
		return nil, false
	}
	a, ok1 := lib.UnHex(p[1])
	b, ok2 := lib.UnHex(p[2])
	if !ok1 || !ok2 {
		return nil, false
	}
	switch p[0] {
	case "v4":
		if len(a) != 4 || len(b) != 4 {
			return nil, false
		}
		return &layers.IPv4{SrcIP: a, DstIP: b}, true
	case "v6":
		if len(a) != 16 || len(b) != 16 {
			return nil, false
		}
		return &layers.IPv6{SrcIP: a, DstIP: b}, true
	}
	return nil, false
}

func setNet(l layer, n gopacket.NetworkLayer) {
	if v, ok := l.(*layers.ICMPv6); ok && n != nil {
		v.SetNetworkLayerForChecksum(n)
	}
}

func mkBuf(hist string) (gopacket.SerializeBuffer, bool) {
	p := strings.Split(hist, ":")
	switch {
	case hist == "fresh":
		return gopacket.NewSerializeBuffer(), true
	case p[0] == "sized" && len(p) == 3:
		a, ok1 := lib.Atoi(p[1])
		b, ok2 := lib.Atoi(p[2])
		if !ok1 || !ok2 || a < 0 || b < 0 || a > 1<<20 || b > 1<<20 {
			return nil, false
		}
		return gopacket.NewSerializeBufferExpectedSize(a, b), true
	case p[0] == "dirty" && len(p) == 4:
		v, ok0 := lib.UnHex(p[1])
		a, ok1 := lib.Atoi(p[2])
		b, ok2 := lib.Atoi(p[3])
		if !ok0 || len(v) != 1 || !ok1 || !ok2 || a < 0 || b < 0 || a > 1<<20 || b > 1<<20 {
			return nil, false
		}
		return dirtyBuf(v[0], a, b), true
	}
	return nil, false
}

func dirtyBuf(v byte, a, b int) gopacket.SerializeBuffer {
	buf := gopacket.NewSerializeBuffer()
	x, _ := buf.PrependBytes(a)
	for i := range x {
		x[i] = v
	}
	y, _ := buf.AppendBytes(b)
	for i := range y {
		y[i] = v
	}
	buf.Clear()
	return buf
}

// serOnce: payload into the buffer, then SerializeTo.  Returns bytes/err/panic-reply.
func serOnce(l layer, buf gopacket.SerializeBuffer, payload []byte, opts gopacket.SerializeOptions) (out []byte, err error, panicReply string) {
	r, p := protect(func() string {
		w, e := buf.PrependBytes(len(payload))
		if e != nil {
			err = e
			return ""
		}
		copy(w, payload)
		err = l.SerializeTo(buf, opts)
		return ""
	})
	if p {
		return nil, nil, r
	}
	if err != nil {
		return nil, err, ""
	}
	return append([]byte(nil), buf.Bytes()...), nil, ""
}

// wfGo: the in-range predicate of C06 (mirrors Gp.Icmp wf*): what the wire format can carry.
func wfGo(kind string, l layer, nl gopacket.NetworkLayer, payload []byte) bool {
	for _, o := range optionsOf(l) {
		n := len(o.Data) + 2
		if n%8 != 0 || n > 2040 {
			return false
		}
	}
	switch v := l.(type) {
	case *layers.ICMPv6:
		return nl != nil && len(v.TypeBytes) == 0
	case *layers.ICMPv6NeighborSolicitation:
		return len(v.TargetAddress) == 16 && len(payload) == 0
	case *layers.ICMPv6NeighborAdvertisement:
		return len(v.TargetAddress) == 16 && len(payload) == 0
	case *layers.ICMPv6Redirect:
		return len(v.TargetAddress) == 16 && len(v.DestinationAddress) == 16 && len(payload) == 0
	case *layers.ICMPv6RouterSolicitation, *layers.ICMPv6RouterAdvertisement:
		return len(payload) == 0
	}
	return true
}

func clone(kind string, l layer, nl gopacket.NetworkLayer) layer {
	m := map[string]string{}
	for _, f := range pubFields(l) {
		m[f.k] = f.v
	}
	c, _ := build(kind, m)
	setNet(c, nl)
	return c
}

// ---------------------------------------------------------------- packet / parser paths

func renderPacketLayers(ls []gopacket.Layer) string {
	var parts []string
	for i, l := range ls {
		if k := kindOfType(l.LayerType()); k != "" {
			parts = append(parts, l.LayerType().String()+" "+renderLayer(l.(layer)))
			// the next decoder is outside this engine (MLD…): whatever it produced is not compared
			if nt := l.(layer).NextLayerType(); len(l.LayerPayload()) > 0 && kindOfType(nt) == "" && nt != gopacket.LayerTypePayload {
				parts = append(parts, "+"+nt.String())
				return strings.Join(parts, " | ")
			}
			continue
		}
		switch l.LayerType() {
		case gopacket.LayerTypePayload:
			parts = append(parts, "Payload "+lib.Hex(l.LayerContents()))
		case gopacket.LayerTypeDecodeFailure:
			parts = append(parts, "DecodeFailure")
		default:
			// an unmodelled layer type: the rest of the chain is outside this engine
			parts = append(parts, "+"+l.LayerType().String())
			_ = i
			return strings.Join(parts, " | ")
		}
	}
	return strings.Join(parts, " | ")
}

func checkNoFlow(p gopacket.Packet) {
	for _, l := range p.Layers() {
		if kindOfType(l.LayerType()) == "" {
			continue
		}
		if p.LinkLayer() == l || p.NetworkLayer() == l || p.TransportLayer() == l {
			lib.Finding("C17", E+":flow-layer", "an ICMP layer was installed as link/network/transport layer: "+l.LayerType().String())
		}
		if _, ok := l.(gopacket.LinkLayer); ok {
			lib.Finding("C17", E+":flow-iface", "ICMP layer exposes LinkFlow")
		}
		if _, ok := l.(gopacket.NetworkLayer); ok {
			lib.Finding("C17", E+":flow-iface", "ICMP layer exposes NetworkFlow")
		}
		if _, ok := l.(gopacket.TransportLayer); ok {
			lib.Finding("C17", E+":flow-iface", "ICMP layer exposes TransportFlow")
		}
	}
}

func runPacket(first gopacket.LayerType, data []byte, flags int) (string, gopacket.Packet) {
	var p gopacket.Packet
	r, panicked := protect(func() string {
		p = gopacket.NewPacket(data, first, gopacket.DecodeOptions{Lazy: flags&1 != 0, NoCopy: flags&2 != 0, SkipDecodeRecovery: true})
		ls := p.Layers()
		e := p.ErrorLayer() != nil
		rl := renderPacketLayers(ls)
		te := "t=" + b01(p.Metadata().Truncated) + " e=" + b01(e)
		if strings.Contains(rl, "| +") || strings.HasPrefix(rl, "+") {
			te = "t=? e=?" // the chain continues in layers outside this engine
		}
		return "ok " + te + " | " + rl
	})
	if panicked {
		lib.Finding("C19", E+":panic:"+lib.LastPanicSite, fmt.Sprintf("NewPacket(SkipDecodeRecovery) panics (%s) on %s", lib.LastPanicMsg, lib.Hex(data)))
		return r, nil
	}
	checkNoFlow(p)
	return r, p
}

// ---------------------------------------------------------------- exec

var opStart int64

func exec(a []string) string {
	atomic.StoreInt64(&opStart, time.Now().UnixNano())
	defer atomic.StoreInt64(&opStart, 0)
	if len(a) < 2 || a[0] != E {
		return "bad-op"
	}
	switch a[1] {
	case "dec":
		if len(a) != 6 || newLayer(a[2]) == nil {
			return "bad-op"
		}
		extra, ok1 := lib.Atoi(a[3])
		foreign, ok2 := lib.UnHex(a[4])
		data, ok3 := lib.UnHex(a[5])
		if !ok1 || !ok2 || !ok3 || extra != len(foreign) {
			return "bad-op"
		}
		kind := a[2]
		l := newLayer(kind)
		cur[kind] = l
		reply, ok := decodeInto(l, inBuf(data, foreign), "DecodeFromBytes("+kind+")")
		lib.Stat("dec:" + kind)
		if ok {
			if len(optionsOf(l)) >= 2 {
				lib.Nontrivial()
				lib.Stat("dec-multi-options")
			}
			if len(l.LayerPayload()) > 0 {
				lib.Nontrivial()
			}
		}
		// C05/C04: result must not depend on capacity / bytes beyond len
		if extra > 0 && !strings.HasPrefix(reply, "panic") {
			l2 := newLayer(kind)
			r2, _ := decodeInto(l2, inBuf(data, nil), "DecodeFromBytes("+kind+")")
			inv := make([]byte, len(foreign))
			for i := range foreign {
				inv[i] = ^foreign[i]
			}
			l3 := newLayer(kind)
			r3, _ := decodeInto(l3, inBuf(data, inv), "DecodeFromBytes("+kind+")")
			if r2 != reply || r3 != reply {
				lib.Finding("C05", E+":cap-dependent", fmt.Sprintf("%s decode of %s depends on spare capacity: %q vs %q vs %q", kind, lib.Hex(data), reply, r2, r3))
			}
			lib.Stat("dec-sparecap")
		}
		return reply
	case "redec":
		if len(a) != 4 || newLayer(a[2]) == nil {
			return "bad-op"
		}
		data, ok := lib.UnHex(a[3])
		if !ok {
			return "bad-op"
		}
		kind := a[2]
		l := obj(kind)
		reply, okd := decodeInto(l, inBuf(data, nil), "DecodeFromBytes("+kind+")")
		lib.Stat("redec:" + kind)
		// C05: same result as a fresh object
		fl := newLayer(kind)
		r2, ok2 := decodeInto(fl, inBuf(data, nil), "DecodeFromBytes("+kind+")")
		if !strings.HasPrefix(reply, "panic") && !strings.HasPrefix(r2, "panic") {
			if okd != ok2 {
				lib.Finding("C05", E+":stale:err", fmt.Sprintf("%s: reused object %q, fresh object %q", kind, reply, r2))
			} else if okd && reply != r2 {
				f := firstDiff(fields(l), fields(fl))
				if f == "" {
					f = "next"
				}
				lib.Finding("C05", E+":stale:"+fieldName[f], fmt.Sprintf("%s: reused object %q, fresh object %q", kind, reply, r2))
			} else if !okd && reply != r2 {
				lib.Finding("C05", E+":stale:truncated", fmt.Sprintf("%s: reused object %q, fresh object %q", kind, reply, r2))
			}
			if okd {
				lib.Nontrivial()
			}
		}
		return reply
	case "ser":
		// licmp ser <kind> <fix> <csum> <hist> <net> k=v… p=<hex>
		if len(a) < 8 || newLayer(a[2]) == nil {
			return "bad-op"
		}
		kind := a[2]
		if (a[3] != "0" && a[3] != "1") || (a[4] != "0" && a[4] != "1") {
			return "bad-op"
		}
		opts := gopacket.SerializeOptions{FixLengths: a[3] == "1", ComputeChecksums: a[4] == "1"}
		buf, okb := mkBuf(a[5])
		nl, okn := parseNet(a[6])
		m, okm := parseKV(a[7:])
		if !okb || !okn || !okm {
			return "bad-op"
		}
		payload, okp := getH(m, "p")
		if !okp {
			return "bad-op"
		}
		delete(m, "p")
		l, okl := build(kind, m)
		if !okl {
			return "bad-op"
		}
		setNet(l, nl)
		orig := clone(kind, l, nl)
		lib.Stat("ser:" + kind)
		out, err, pr := serOnce(l, buf, payload, opts)
		if pr != "" {
			lib.Finding("C07", E+":ser-panic:"+lib.LastPanicSite, fmt.Sprintf("SerializeTo(%s) panics (%s): %s", kind, lib.LastPanicMsg, strings.Join(a, " ")))
			return pr
		}
		if err != nil {
			lib.Stat("ser-err")
			// errors must not depend on the buffer either
			if _, e2, _ := serOnce(clone(kind, orig, nl), dirtyBuf(0xa5, 70, 70), payload, opts); e2 == nil {
				lib.Finding("C07", E+":dirty-buffer", "error in one buffer, success in another: "+strings.Join(a, " "))
			}
			return "err"
		}
		lib.Stat("ser-ok")
		reply := "ok b=" + lib.Hex(out) + " " + kvStr(pubFields(l))
		// --- C07 monitors (independent of the requested history)
		o1, e1, p1 := serOnce(clone(kind, orig, nl), gopacket.NewSerializeBuffer(), payload, opts)
		o2, e2, p2 := serOnce(clone(kind, orig, nl), dirtyBuf(0xa5, len(out)+40, 40), payload, opts)
		o3, e3, p3 := serOnce(clone(kind, orig, nl), dirtyBuf(0x5a, 3, 1), payload, opts)
		if p1 != "" || p2 != "" || p3 != "" {
			lib.Finding("C07", E+":ser-panic:"+lib.LastPanicSite, "SerializeTo panics in some buffer: "+strings.Join(a, " "))
		} else if e1 != nil || e2 != nil || e3 != nil || !bytes.Equal(o1, out) || !bytes.Equal(o2, out) || !bytes.Equal(o3, out) {
			lib.Finding("C07", E+":dirty-buffer", fmt.Sprintf("%s output depends on buffer history: given=%s fresh=%s dirtyA5=%s dirty5A=%s", kind, lib.Hex(out), lib.Hex(o1), lib.Hex(o2), lib.Hex(o3)))
		}
		// idempotence: the (mutated) layer once more over the same payload
		o4, e4, p4 := serOnce(l, gopacket.NewSerializeBuffer(), payload, opts)
		if p4 != "" || e4 != nil || (p1 == "" && e1 == nil && !bytes.Equal(o4, o1)) {
			lib.Finding("C07", E+":not-idempotent", fmt.Sprintf("%s: second SerializeTo (fresh buffer) gives %s, first (fresh buffer) %s", kind, lib.Hex(o4), lib.Hex(o1)))
		}
		// --- C06: decode what was written (only for in-range layers, fix+csum on)
		if opts.FixLengths && opts.ComputeChecksums && wfGo(kind, orig, nl, payload) {
			lib.Nontrivial()
			lib.Stat("ser-roundtrip")
			hdrLen := len(out) - len(payload)
			d := newLayer(kind)
			df := &feedback{}
			var derr error
			if _, pp := protect(func() string { derr = d.DecodeFromBytes(out, df); return "" }); pp {
				lib.Finding("C19", E+":panic:"+lib.LastPanicSite, "decode of serialized bytes panics")
			} else if derr != nil || df.trunc {
				lib.Finding("C06", E+":roundtrip:error", fmt.Sprintf("%s: decoding the serialized bytes %s fails (err=%v trunc=%v)", kind, lib.Hex(out), derr, df.trunc))
			} else {
				if f := firstDiff(pubFields(l), pubFields(d)); f != "" {
					lib.Finding("C06", E+":roundtrip:"+fieldName[f], fmt.Sprintf("%s: wrote %s, read back %s (bytes %s)", kind, kvStr(pubFields(l)), kvStr(pubFields(d)), lib.Hex(out)))
				}
				// payload: what the layer reports as payload (NDP messages carry none; wf demands an empty one)
				if !bytes.Equal(d.LayerPayload(), payload) {
					lib.Finding("C06", E+":roundtrip:Payload", fmt.Sprintf("%s: payload %s comes back as %s (header %d bytes)", kind, lib.Hex(payload), lib.Hex(d.LayerPayload()), hdrLen))
				}
				// reserialize fixpoint
				setNet(d, nl)
				o5, e5, p5 := serOnce(d, gopacket.NewSerializeBuffer(), payload, opts)
				if p5 != "" || e5 != nil || !bytes.Equal(o5, out) {
					lib.Finding("C06", E+":reserialize", fmt.Sprintf("%s: re-serialising the decoded layer gives %s, not %s", kind, lib.Hex(o5), lib.Hex(out)))
				}
			}
		}
		return reply
	case "decser":
		// licmp decser <kind> <hist> <net> <hex>: what decoding produced must serialise (C07 "any layer that
		// decoding produced"), deterministically, and decode back to itself (C06 "one obtained by decoding")
		if len(a) != 6 || newLayer(a[2]) == nil {
			return "bad-op"
		}
		kind := a[2]
		buf, okb := mkBuf(a[3])
		nl, okn := parseNet(a[4])
		data, okd := lib.UnHex(a[5])
		if !okb || !okn || !okd {
			return "bad-op"
		}
		lib.Stat("decser:" + kind)
		l := newLayer(kind)
		if r, ok := decodeInto(l, inBuf(data, nil), "DecodeFromBytes("+kind+")"); !ok {
			if strings.HasPrefix(r, "panic") {
				return r
			}
			return "err"
		}
		payload := append([]byte(nil), l.LayerPayload()...)
		setNet(l, nl)
		orig := clone(kind, l, nl)
		opts := gopacket.SerializeOptions{FixLengths: true, ComputeChecksums: true}
		out, err, pr := serOnce(l, buf, payload, opts)
		if pr != "" {
			lib.Finding("C07", E+":ser-panic:"+lib.LastPanicSite, fmt.Sprintf("SerializeTo(%s) of a decoded layer panics (%s): %s", kind, lib.LastPanicMsg, lib.Hex(data)))
			return pr
		}
		if err != nil {
			if kind != "icmp6" || nl != nil {
				lib.Finding("C06", E+":roundtrip:error", fmt.Sprintf("a decoded %s does not serialise: %v (input %s)", kind, err, lib.Hex(data)))
			}
			return "serr"
		}
		lib.Nontrivial()
		o2, e2, p2 := serOnce(clone(kind, orig, nl), dirtyBuf(0xa5, len(out)+9, 3), payload, opts)
		if p2 != "" || e2 != nil || !bytes.Equal(o2, out) {
			lib.Finding("C07", E+":dirty-buffer", fmt.Sprintf("decoded %s: output depends on buffer history: %s vs %s", kind, lib.Hex(out), lib.Hex(o2)))
		}
		d := newLayer(kind)
		df := &feedback{}
		var derr error
		if _, pp := protect(func() string { derr = d.DecodeFromBytes(out, df); return "" }); pp {
			lib.Finding("C19", E+":panic:"+lib.LastPanicSite, "decode of serialized bytes panics")
		} else if derr != nil || df.trunc {
			lib.Finding("C06", E+":roundtrip:error", fmt.Sprintf("decoded %s re-serialised to %s which does not decode", kind, lib.Hex(out)))
		} else if f := firstDiff(pubFields(l), pubFields(d)); f != "" {
			lib.Finding("C06", E+":roundtrip:"+fieldName[f], fmt.Sprintf("decoded %s: wrote %s, read back %s", kind, kvStr(pubFields(l)), kvStr(pubFields(d))))
		} else if !bytes.Equal(d.LayerPayload(), payload) {
			lib.Finding("C06", E+":roundtrip:Payload", fmt.Sprintf("decoded %s: payload %s comes back as %s", kind, lib.Hex(payload), lib.Hex(d.LayerPayload())))
		}
		return "ok b=" + lib.Hex(out) + " " + kvStr(pubFields(l))
	case "rt", "rt4":
		var stack []gopacket.SerializableLayer
		var kind string
		var nl gopacket.NetworkLayer
		var payload []byte
		var inner layer
		var hdr layer
		if a[1] == "rt4" {
			m, okm := parseKV(a[2:])
			if !okm {
				return "bad-op"
			}
			p, okp := getH(m, "p")
			delete(m, "p")
			l, okl := build("icmp4", m)
			if !okp || !okl {
				return "bad-op"
			}
			kind, payload, hdr = "icmp4", p, l
			stack = []gopacket.SerializableLayer{l}
		} else {
			// licmp rt <net> tc=<n> ck=<n> <kind> k=v… p=<hex>
			if len(a) < 7 || newLayer(a[5]) == nil || a[5] == "icmp4" || a[5] == "icmp6" {
				return "bad-op"
			}
			n, okn := parseNet(a[2])
			hm, okh := parseKV(a[3:5])
			m, okm := parseKV(a[6:])
			if !okn || !okh || !okm {
				return "bad-op"
			}
			hm["tb"] = "-"
			h, okh2 := build("icmp6", hm)
			p, okp := getH(m, "p")
			delete(m, "p")
			l, okl := build(a[5], m)
			if !okh2 || !okp || !okl {
				return "bad-op"
			}
			setNet(h, n)
			kind, payload, nl, inner, hdr = a[5], p, n, l, h
			stack = []gopacket.SerializableLayer{h, l}
		}
		stack = append(stack, gopacket.Payload(payload))
		lib.Stat("rt:" + kind)
		buf := gopacket.NewSerializeBuffer()
		var serr error
		if r, pp := protect(func() string {
			serr = gopacket.SerializeLayers(buf, gopacket.SerializeOptions{FixLengths: true, ComputeChecksums: true}, stack...)
			return ""
		}); pp {
			lib.Finding("C07", E+":ser-panic:"+lib.LastPanicSite, "SerializeLayers panics: "+strings.Join(a, " "))
			return r
		}
		if serr != nil {
			return "err"
		}
		out := append([]byte(nil), buf.Bytes()...)
		first := layers.LayerTypeICMPv4
		if kind != "icmp4" {
			first = layers.LayerTypeICMPv6
		}
		r, p := runPacket(first, out, 0)
		if p == nil {
			return r
		}
		reply := "ok b=" + lib.Hex(out) + " " + strings.TrimPrefix(r, "ok ")
		// --- C06 stack round trip
		okStack := true
		if kind != "icmp4" {
			// independent dispatch table (RFC 4443 / 4861 type numbers), not the code's NextLayerType
			byType := map[uint8]string{128: "echo", 129: "echo", 133: "rs", 134: "ra", 135: "ns", 136: "na", 137: "redirect"}
			okStack = wfGo(kind, inner, nl, payload) && wfGo("icmp6", hdr, nl, nil) &&
				byType[hdr.(*layers.ICMPv6).TypeCode.Type()] == kind
		}
		if okStack {
			lib.Nontrivial()
			lib.Stat("rt-checked")
			ls := p.Layers()
			want := []layer{hdr}
			if inner != nil {
				want = append(want, inner)
			}
			bad := ""
			if p.ErrorLayer() != nil || p.Metadata().Truncated {
				bad = "error"
			} else if len(ls) < len(want) {
				bad = "layers"
			} else {
				for i, w := range want {
					g, okg := ls[i].(layer)
					if !okg || ls[i].LayerType() != w.(gopacket.Layer).LayerType() {
						bad = "layers"
						break
					}
					if f := firstDiff(pubFields(w), pubFields(g)); f != "" {
						bad = fieldName[f]
						break
					}
				}
				if bad == "" {
					var gotP []byte
					rest := ls[len(want):]
					if len(rest) == 1 && rest[0].LayerType() == gopacket.LayerTypePayload {
						gotP = rest[0].LayerContents()
					} else if len(rest) != 0 {
						bad = "layers"
					}
					if bad == "" && !bytes.Equal(gotP, payload) {
						bad = "Payload"
					}
				}
			}
			if bad != "" {
				lib.Finding("C06", E+":roundtrip:"+bad, fmt.Sprintf("stack %s does not come back: %s -> %s", kind, strings.Join(a, " "), r))
			} else {
				// reserialize the decoded stack
				var st2 []gopacket.SerializableLayer
				for _, l := range ls {
					if s, oks := l.(gopacket.SerializableLayer); oks {
						if v, ok6 := l.(*layers.ICMPv6); ok6 && nl != nil {
							v.SetNetworkLayerForChecksum(nl)
						}
						st2 = append(st2, s)
					}
				}
				b2 := gopacket.NewSerializeBuffer()
				var e2 error
				_, pp := protect(func() string {
					e2 = gopacket.SerializeLayers(b2, gopacket.SerializeOptions{FixLengths: true, ComputeChecksums: true}, st2...)
					return ""
				})
				if pp || e2 != nil || !bytes.Equal(b2.Bytes(), out) {
					lib.Finding("C06", E+":reserialize", fmt.Sprintf("re-serialising the decoded stack gives %s, not %s", lib.Hex(b2.Bytes()), lib.Hex(out)))
				}
			}
		}
		return reply
	case "pkt":
		if len(a) != 5 || newLayer(a[2]) == nil {
			return "bad-op"
		}
		flags, ok1 := lib.Atoi(a[3])
		data, ok2 := lib.UnHex(a[4])
		if !ok1 || !ok2 || flags < 0 || flags > 3 {
			return "bad-op"
		}
		lib.Stat("pkt:" + a[2])
		r, p := runPacket(typeOfKind(a[2]), inBuf(data, nil), flags)
		if p != nil && len(p.Layers()) >= 2 && p.ErrorLayer() == nil {
			lib.Nontrivial()
		}
		return r
	case "dlp":
		if len(a) != 4 || newLayer(a[2]) == nil {
			return "bad-op"
		}
		data, ok := lib.UnHex(a[3])
		if !ok {
			return "bad-op"
		}
		lib.Stat("dlp:" + a[2])
		var dls []gopacket.DecodingLayer
		for _, k := range kinds {
			dls = append(dls, obj(k))
		}
		dls = append(dls, &payloadDL)
		parser := gopacket.NewDecodingLayerParser(typeOfKind(a[2]), dls...)
		parser.IgnorePanic = true
		var decoded []gopacket.LayerType
		var err error
		in := inBuf(data, nil)
		r, panicked := protect(func() string {
			err = parser.DecodeLayers(in, &decoded)
			return ""
		})
		if panicked {
			lib.Finding("C19", E+":panic:"+lib.LastPanicSite, fmt.Sprintf("DecodingLayerParser(IgnorePanic) panics (%s) on %s", lib.LastPanicMsg, lib.Hex(data)))
			return r
		}
		st := "ok"
		if _, uns := err.(gopacket.UnsupportedLayerType); uns {
			st = "unsup"
		} else if err != nil {
			st = "err"
		}
		var parts []string
		for _, t := range decoded {
			if k := kindOfType(t); k != "" {
				parts = append(parts, t.String()+" "+renderLayer(cur[k]))
			} else if t == gopacket.LayerTypePayload {
				parts = append(parts, "Payload "+lib.Hex(payloadDL))
			} else {
				parts = append(parts, "+"+t.String())
			}
		}
		reply := st + " t=" + b01(parser.Truncated) + " | " + strings.Join(parts, " | ")
		// C05: the parser's run is the leading run of NewPacket's layers with equal values
		if pr, p := runPacket(typeOfKind(a[2]), inBuf(data, nil), 0); p != nil {
			pl := p.Layers()
			cmpParts := strings.Split(strings.TrimPrefix(pr[strings.Index(pr, "|")+1:], " "), " | ")
			for i, part := range parts {
				if i >= len(cmpParts) || cmpParts[i] != part {
					got := "<none>"
					if i < len(cmpParts) {
						got = cmpParts[i]
					}
					lib.Finding("C05", E+":dlp-vs-packet", fmt.Sprintf("parser layer %d %q, packet layer %q (input %s)", i, part, got, lib.Hex(data)))
					break
				}
			}
			if st == "ok" && p.ErrorLayer() == nil && len(parts) != len(pl) {
				lib.Finding("C05", E+":dlp-vs-packet", fmt.Sprintf("parser decoded %d layers, packet %d (input %s)", len(parts), len(pl), lib.Hex(data)))
			}
			if st == "ok" && p.ErrorLayer() == nil && parser.Truncated != p.Metadata().Truncated {
				lib.Finding("C05", E+":dlp-vs-packet", "truncated flag differs between parser and packet")
			}
			if len(parts) >= 2 {
				lib.Nontrivial()
			}
		}
		return reply
	}
	return "bad-op"
}

func watchdog() {
	for {
		time.Sleep(200 * time.Millisecond)
		if t := atomic.LoadInt64(&opStart); t != 0 && time.Now().UnixNano()-t > int64(20*time.Second) {
			fmt.Fprintln(os.Stderr, "fatal error: licmp op did not finish within 20s (hang)")
			os.Exit(3)
		}
		var ms runtime.MemStats
		runtime.ReadMemStats(&ms)
		if ms.HeapAlloc > 3<<30 {
			fmt.Fprintln(os.Stderr, "fatal error: out of memory guard (heap > 3GiB) in licmp op")
			os.Exit(3)
		}
	}
}

func main() {
	reset()
	go watchdog()
	lib.Main(lib.Engine{Name: E, Gen: gen, Reset: reset, Exec: exec})
}
