package main

import (
	"encoding/hex"
	"fmt"
	"net"
	"strings"

	"github.com/gopacket/gopacket/layers"
	"verif/harness/lib"
)

// ICMP-level fixtures harvested from the []byte literals of /repo/layers/*_test.go
// (frames decoded once, the ICMPv4/ICMPv6 layer's Contents+Payload kept, with the enclosing
// network layer's addresses for the pseudo-header).
var fixtures = [][3]string{
	{"icmp4", "v4:480edee2:ac1d140f", "030d946e000000004520004d000040003e112849ac1d140f0a4249c98ecc62e10039769d"}, // decode_test.go testICMP
	{"icmp6", "v6:fe80000000000000021fcafffeb375c0:262000001005000026be05fffe270b17", "87001eba00000000262000001005000026be05fffe270b170101001fcab375c0"}, // decode_test.go testICMP6 next=ICMPv6NeighborSolicitation
	{"icmp4", "v4:0a010201:0a220001", "08003a760a3a062b00000000001f3350abcdabcdabcdabcdabcdabcdabcdabcdabcdabcdabcdabcdabcdabcdabcdabcdabcdabcdabcdabcdabcdabcdabcdabcdabcdabcdabcdabcdabcdabcdabcdabcd"}, // decode_test.go testMPLS
	{"icmp6", "v6:fe80000000000000c8010efffe880008:ff020000000000000000000000000001", "8800508380000000fe80000000000000c8010efffe880008"}, // decode_test.go testPPPoEICMPv6 next=ICMPv6NeighborAdvertisement
	{"icmp4", "v4:c0a80001:c0a80002", "0800dd9d7ede02c3cb07515800000000ba8d030000000000101112131415161718191a1b1c1d1e1f202122232425262728292a2b2c2d2e2f3031323334353637"}, // geneve_test.go testPacketGeneve2
	{"icmp4", "v4:c0a828b2:ca0b289e", "000039e90000287d0611204b7f3a0d0008090a0b0c0d0e0f101112131415161718191a1b1c1d1e1f202122232425262728292a2b2c2d2e2f3031323334353637"}, // gtp_test.go testGTPPacket
	{"icmp6", "v6:262000001005000026be05fffe270b17:fe80000000000000021fcafffeb37640", "88001ed640000000262000001005000026be05fffe270b17"}, // icmp6NDflags_test.go icmp6NeighborAnnouncementData next=ICMPv6NeighborAdvertisement
	{"icmp6", "v6:fe80000000000000dc4272fffeb01ef4:ff020000000000000000000000000001", "86004c6b4000070800000000000000000101de4272b01ef405010000000005dc"}, // icmp6NDflags_test.go icmp6RouterAdvertisementData next=ICMPv6RouterAdvertisement
	{"icmp6", "v6:00000000000000000000000000000000:ff020000000000000000000000000016", "8f009eed0000000603000000ff0200000000000000000001ffb7c4d503000000ff0200000000000000000001ff00000004000000ff0200000000000000000001ff11007904000000ff0200000000000000000001ff00000104000000ff05000000000000000000000000000204000000ff020000000000000000000000000002"}, // icmp6hopbyhop_test.go icmp6HopByHopData next=MLDv2MulticastListenerReport
	{"icmp6", "v6:fe80000000000000c00054fffef50000:ff020000000000000000000000000001", "8600c4fe4000070800000000000000000101c20054f5000005010000000005dc030440c000278d0000093a800000000020010db8000000010000000000000000"}, // icmp6msg_test.go testPacketICMPv6RouterAdvertisement next=ICMPv6RouterAdvertisement
	{"icmp6", "v6:00000000000000000000000000000000:ff0200000000000000000001ff0e4c67", "8700b93000000000fe80000000000000020c29fffe0e4c67"}, // icmp6msg_test.go testPacketICMPv6NeighborSolicitation next=ICMPv6NeighborSolicitation
	{"icmp4", "v4:ac100101:ac100201", "0800d75f7a5a00010741335500000000a9db030000000000101112131415161718191a1b1c1d1e1f202122232425262728292a2b2c2d2e2f3031323334353637"}, // ipsec_test.go testPacketIPSecAHTunnel
	{"icmp6", "v6:fe80000000000000b2a86efffe0cd4e8:ff020000000000000000000000000001", "8200623a2710000000000000000000000000000000000000"}, // mldv1_test.go testPacketMulticastListenerQueryMessageV1 next=MLDv1MulticastListenerQuery
	{"icmp6", "v6:fe80000000000000b2a86efffe0cd4e8:ff020000000000000000000000000001", "8300623a27100000ff0200000000000000000db811223344"}, // mldv1_test.go testPacketMulticastListenerReportMessageV1 next=MLDv1MulticastListenerReport
	{"icmp6", "v6:fe80000000000000b2a86efffe0cd4e8:ff020000000000000000000000000001", "8400623a27100000ff0200000000000000000db811223344"}, // mldv1_test.go testPacketMulticastListenerDoneMessageV1 next=MLDv1MulticastListenerDone
	{"icmp6", "v6:fe80000000000000b2a86efffe0cd4e8:ff020000000000000000000000000001", "8200623a2710000000000000000000000000000000000000023c0000"}, // mldv2_test.go testPacketMulticastListenerQueryMessageV2 next=MLDv2MulticastListenerQuery
	{"icmp6", "v6:fe80000000000000021517fffecce546:ff020000000000000000000000000016", "8f002a0e0000000402000000ff0200000000000000000db81122334402000000ff0200000000000000000001ffcce54602000000ff0200000000000000000001ffa710ad02000000ff0200000000000000000001ff000002"}, // mldv2_test.go testPacketMulticastListenerReportMessageV2 next=MLDv2MulticastListenerReport
	{"icmp4", "v4:0c000001:02020202", "08003a6b000b000200000000003e4394abcdabcdabcdabcdabcdabcdabcdabcdabcdabcdabcdabcdabcdabcdabcdabcdabcdabcdabcdabcdabcdabcdabcdabcdabcdabcdabcdabcdabcdabcdabcdabcd"}, // mpls_test.go testPacketMPLS
}

type sample struct {
	kind string
	data []byte
}

func unhex(s string) []byte { b, _ := hex.DecodeString(s); return b }

var msgKinds = []string{"echo", "rs", "ra", "ns", "na", "redirect"}

func icmp6Type(kind string) uint8 {
	switch kind {
	case "echo":
		return 128
	case "rs":
		return 133
	case "ra":
		return 134
	case "ns":
		return 135
	case "na":
		return 136
	case "redirect":
		return 137
	}
	return 1
}

func hdrLen(kind string) int {
	return map[string]int{"icmp4": 8, "icmp6": 4, "echo": 4, "rs": 4, "ra": 12, "ns": 20, "na": 20, "redirect": 36}[kind]
}

// ---- raw option encodings (independent of the repo's serializer)

var optTypes = []int{1, 2, 3, 4, 5, 25, 0, 255, 14}

func rawOpt(t int, data []byte) []byte {
	return append([]byte{byte(t), byte((len(data) + 2) / 8)}, data...)
}

func randOptData(r *lib.Rand, t int) []byte {
	switch {
	case t == 3 && r.Chance(70):
		return r.Bytes(30)
	case t == 5 && r.Chance(70):
		return r.Bytes(6)
	case t == 25 && r.Chance(70):
		return r.Bytes(6 + 16*(1+r.Intn(2)))
	case (t == 1 || t == 2) && r.Chance(70):
		return r.Bytes(6)
	}
	return r.Bytes(6 + 8*r.Intn(4))
}

func randOptsRaw(r *lib.Rand, n int) []byte {
	var out []byte
	for i := 0; i < n; i++ {
		t := optTypes[r.Intn(len(optTypes))]
		out = append(out, rawOpt(t, randOptData(r, t))...)
	}
	return out
}

func randHdr(r *lib.Rand, kind string) []byte {
	h := r.Bytes(hdrLen(kind))
	if kind == "icmp6" && r.Chance(80) {
		ts := []byte{128, 129, 133, 134, 135, 136, 137, 130, 131, 132, 143, 1, 2, 3, 4}
		h[0] = ts[r.Intn(len(ts))]
	}
	return h
}

// randMsg: a mostly-valid message of the kind (header + well-formed options / payload).
func randMsg(r *lib.Rand, kind string) []byte {
	h := randHdr(r, kind)
	switch kind {
	case "icmp4", "echo":
		return append(h, r.Bytes(r.Pick([]int{0, 0, 1, 7, 8, 32, 57}))...)
	case "icmp6":
		k2 := msgKinds[r.Intn(len(msgKinds))]
		if r.Chance(80) {
			h[0] = icmp6Type(k2)
		}
		return append(h, randMsg(r, k2)...)
	}
	return append(h, randOptsRaw(r, r.Intn(4))...)
}

// malform: break an option list / message in the ways listed in the rule text.
func malform(r *lib.Rand, kind string, msg []byte) []byte {
	out := append([]byte(nil), msg...)
	h := hdrLen(kind)
	switch r.Intn(7) {
	case 0: // truncate anywhere
		return out[:r.Intn(len(out)+1)]
	case 1: // option length 0
		return append(out, byte(optTypes[r.Intn(len(optTypes))]), 0, 1, 2, 3, 4, 5, 6)
	case 2: // lone option type byte
		return append(out, byte(r.Intn(256)))
	case 3: // length beyond the data
		return append(out, byte(optTypes[r.Intn(len(optTypes))]), byte(2+r.Intn(254)), 1, 2, 3, 4, 5, 6)
	case 4: // flip a length byte of the first option
		if len(out) > h+1 {
			out[h+1] = byte(r.Pick([]int{0, 1, 2, 3, 255}))
		}
		return out
	case 5: // random byte mutation
		if len(out) > 0 {
			out[r.Intn(len(out))] = byte(r.Pick([]int{0, 1, 0x7f, 0x80, 0xff}))
		}
		return out
	default: // trailing garbage shorter than an option
		return append(out, r.Bytes(1+r.Intn(7))...)
	}
}

// ---- layer values for serialisation

func randOptsVal(r *lib.Rand, n int, wf bool) layers.ICMPv6Options {
	var o layers.ICMPv6Options
	for i := 0; i < n; i++ {
		t := optTypes[r.Intn(len(optTypes))]
		d := randOptData(r, t)
		if !wf && r.Chance(50) {
			d = r.Bytes(r.Pick([]int{0, 1, 3, 5, 7, 8, 13, 2039, 2046}))
		}
		o = append(o, layers.ICMPv6Option{Type: layers.ICMPv6Opt(t), Data: d})
	}
	return o
}

func randAddr(r *lib.Rand, wf bool) net.IP {
	if !wf && r.Chance(60) {
		return net.IP(r.Bytes(r.Pick([]int{0, 1, 4, 15, 17, 32})))
	}
	return net.IP(r.Bytes(16))
}

func randLayer(r *lib.Rand, kind string, wf bool) layer {
	nopt := r.Pick([]int{0, 1, 1, 2, 2, 3, 5})
	switch kind {
	case "icmp4":
		return &layers.ICMPv4{TypeCode: layers.ICMPv4TypeCode(r.Intn(65536)), Checksum: uint16(r.Intn(65536)), Id: uint16(r.Intn(65536)), Seq: uint16(r.Intn(65536))}
	case "icmp6":
		l := &layers.ICMPv6{TypeCode: layers.ICMPv6TypeCode(r.Intn(65536)), Checksum: uint16(r.Intn(65536))}
		if !wf && r.Chance(50) {
			l.TypeBytes = r.Bytes(1 + r.Intn(4))
		}
		return l
	case "echo":
		return &layers.ICMPv6Echo{Identifier: uint16(r.Intn(65536)), SeqNumber: uint16(r.Intn(65536))}
	case "rs":
		return &layers.ICMPv6RouterSolicitation{Options: randOptsVal(r, nopt, wf)}
	case "ra":
		return &layers.ICMPv6RouterAdvertisement{HopLimit: uint8(r.Intn(256)), Flags: uint8(r.Intn(256)), RouterLifetime: uint16(r.Intn(65536)),
			ReachableTime: uint32(r.U64()), RetransTimer: uint32(r.U64()), Options: randOptsVal(r, nopt, wf)}
	case "ns":
		return &layers.ICMPv6NeighborSolicitation{TargetAddress: randAddr(r, wf), Options: randOptsVal(r, nopt, wf)}
	case "na":
		return &layers.ICMPv6NeighborAdvertisement{Flags: uint8(r.Intn(256)), TargetAddress: randAddr(r, wf), Options: randOptsVal(r, nopt, wf)}
	case "redirect":
		return &layers.ICMPv6Redirect{TargetAddress: randAddr(r, wf), DestinationAddress: randAddr(r, wf), Options: randOptsVal(r, nopt, wf)}
	}
	return nil
}

func randNet(r *lib.Rand) string {
	switch r.Intn(5) {
	case 0:
		return "none"
	case 1:
		return "v4:" + lib.Hex(r.Bytes(4)) + ":" + lib.Hex(r.Bytes(4))
	}
	return "v6:" + lib.Hex(r.Bytes(16)) + ":" + lib.Hex(r.Bytes(16))
}

func randHist(r *lib.Rand) string {
	switch r.Intn(4) {
	case 0:
		return "fresh"
	case 1:
		return fmt.Sprintf("sized:%d:%d", r.Pick([]int{0, 1, 4, 8, 40, 200}), r.Pick([]int{0, 1, 9, 64}))
	}
	return fmt.Sprintf("dirty:%s:%d:%d", lib.Hex([]byte{byte(r.Pick([]int{0xa5, 0x5a, 0xff, 1}))}), r.Pick([]int{0, 1, 3, 8, 19, 36, 64, 300}), r.Pick([]int{0, 1, 5, 64}))
}

func payloadFor(r *lib.Rand, kind string, tier string) []byte {
	switch kind {
	case "icmp4", "icmp6", "echo":
		sizes := []int{0, 0, 1, 2, 3, 7, 8, 31, 56, 57, 1480, 1499, 1500, 1501, 1520}
		n := sizes[r.Intn(len(sizes))]
		if tier == "thorough" && r.Chance(1) {
			n = 65536 + r.Intn(70000) // beyond 64 KiB and beyond the point where the uint32 checksum accumulator wraps
		}
		return r.Bytes(n)
	}
	if r.Chance(85) {
		return nil // NDP messages carry no payload
	}
	return r.Bytes(r.Pick([]int{1, 8, 16}))
}

func serLine(kind string, fix, csum int, hist, netw string, l layer, payload []byte) string {
	return fmt.Sprintf("%s ser %s %d %d %s %s %s p=%s", E, kind, fix, csum, hist, netw, kvStr(pubFields(l)), lib.Hex(payload))
}

// ---------------------------------------------------------------- generator

func gen(r *lib.Rand, tier string, emit func(string)) {
	scale := 1
	if tier == "thorough" {
		scale = 12
	}
	// sample pool: fixtures, their inner messages, generated messages
	var pool []sample
	for _, f := range fixtures {
		d := unhex(f[2])
		pool = append(pool, sample{f[0], d})
		if f[0] == "icmp6" {
			if k := kindOfType((&layers.ICMPv6{TypeCode: layers.CreateICMPv6TypeCode(d[0], d[1])}).NextLayerType()); k != "" {
				pool = append(pool, sample{k, d[4:]})
			}
		}
	}
	nfix := len(pool)

	// 1. fixtures through every path
	for i, s := range pool[:nfix] {
		emit("reset")
		emit(fmt.Sprintf("# fixture %d", i))
		emit(fmt.Sprintf("%s dec %s 0 - %s", E, s.kind, lib.Hex(s.data)))
		emit(fmt.Sprintf("%s redec %s %s", E, s.kind, lib.Hex(s.data)))
		for fl := 0; fl < 4; fl++ {
			emit(fmt.Sprintf("%s pkt %s %d %s", E, s.kind, fl, lib.Hex(s.data)))
		}
		emit(fmt.Sprintf("%s dlp %s %s", E, s.kind, lib.Hex(s.data)))
		emit(fmt.Sprintf("%s dlp %s %s", E, s.kind, lib.Hex(s.data)))
	}
	// 2. every truncation of every fixture, as every kind that could plausibly see it
	for _, s := range pool[:nfix] {
		emit("reset")
		for n := 0; n <= len(s.data); n++ {
			emit(fmt.Sprintf("%s dec %s 0 - %s", E, s.kind, lib.Hex(s.data[:n])))
			if n <= 48 {
				f := r.Bytes(40 - n%8)
				emit(fmt.Sprintf("%s dec %s %d %s %s", E, s.kind, len(f), lib.Hex(f), lib.Hex(s.data[:n])))
				emit(fmt.Sprintf("%s pkt %s 2 %s", E, s.kind, lib.Hex(s.data[:n])))
			}
		}
	}
	// every kind on every short input length (all-zero, all-ff), with and without spare capacity
	for _, k := range kinds {
		emit("reset")
		for n := 0; n <= 44; n++ {
			for _, v := range []byte{0, 0xff, 1} {
				d := bytes0(n, v)
				emit(fmt.Sprintf("%s dec %s 0 - %s", E, k, lib.Hex(d)))
				emit(fmt.Sprintf("%s dec %s 64 %s %s", E, k, lib.Hex(bytes0(64, ^v)), lib.Hex(d)))
			}
			emit(fmt.Sprintf("%s pkt %s 0 %s", E, k, lib.Hex(bytes0(n, 1))))
			emit(fmt.Sprintf("%s dlp %s %s", E, k, lib.Hex(bytes0(n, 1))))
		}
	}
	// 3. single-byte mutations of the fixtures to boundary values
	for _, s := range pool[:nfix] {
		emit("reset")
		lim := len(s.data)
		if lim > 48 {
			lim = 48
		}
		for i := 0; i < lim; i++ {
			for _, v := range []byte{0, 1, 0x7f, 0x80, 0xff} {
				if s.data[i] == v {
					continue
				}
				d := append([]byte(nil), s.data...)
				d[i] = v
				emit(fmt.Sprintf("%s dec %s 0 - %s", E, s.kind, lib.Hex(d)))
				if i < 4 {
					emit(fmt.Sprintf("%s pkt %s 0 %s", E, s.kind, lib.Hex(d)))
				}
			}
		}
	}
	// 4. option lists of every kind, exhaustively small: every type x several lengths, lists of 0..3
	for _, k := range []string{"rs", "ra", "ns", "na", "redirect"} {
		emit("reset")
		h := bytes0(hdrLen(k), 0x11)
		for _, t := range optTypes {
			for _, n := range []int{6, 14, 22, 30, 38} {
				d := append(append([]byte(nil), h...), rawOpt(t, seq(n, byte(t)))...)
				emit(fmt.Sprintf("%s dec %s 0 - %s", E, k, lib.Hex(d)))
				// followed by a second and third option
				d2 := append(append([]byte(nil), d...), rawOpt(optTypes[(t+n)%len(optTypes)], seq(6, 0x40))...)
				emit(fmt.Sprintf("%s redec %s %s", E, k, lib.Hex(d2)))
				d3 := append(append([]byte(nil), d2...), rawOpt(25, seq(22, 0x60))...)
				emit(fmt.Sprintf("%s redec %s %s", E, k, lib.Hex(d3)))
				emit(fmt.Sprintf("%s redec %s %s", E, k, lib.Hex(d)))
			}
			// malformed lengths: 0, 1 (= 8 bytes) with fewer bytes, more than remaining
			for _, lb := range []int{0, 1, 2, 255} {
				for _, have := range []int{0, 1, 5, 6, 7, 14} {
					d := append(append([]byte(nil), h...), byte(t), byte(lb))
					d = append(d, seq(have, 0x20)...)
					emit(fmt.Sprintf("%s dec %s 0 - %s", E, k, lib.Hex(d)))
					emit(fmt.Sprintf("%s dec %s 24 %s %s", E, k, lib.Hex(seq(24, 0xe0)), lib.Hex(d)))
				}
			}
		}
		emit(fmt.Sprintf("%s dec %s 0 - %s", E, k, lib.Hex(append(append([]byte(nil), h...), 7))))
	}
	// 4b. ICMPv6 type dispatch: every type byte (NextLayerType), through dec / pkt / dlp; MLD query size boundary
	emit("reset")
	for ty := 0; ty < 256; ty++ {
		body := seq(24, byte(ty))
		d := append([]byte{byte(ty), byte(ty % 3), 0, 0}, body...)
		emit(fmt.Sprintf("%s dec icmp6 0 - %s", E, lib.Hex(d)))
		emit(fmt.Sprintf("%s pkt icmp6 %d %s", E, ty%4, lib.Hex(d)))
		if ty%8 == 0 || (ty >= 128 && ty <= 143) {
			emit(fmt.Sprintf("%s dlp icmp6 %s", E, lib.Hex(d)))
			emit(fmt.Sprintf("%s pkt icmp6 0 %s", E, lib.Hex(d[:4])))
		}
	}
	for _, n := range []int{0, 1, 19, 20, 21, 22} {
		d := append([]byte{130, 0, 0, 0}, seq(n, 1)...)
		emit(fmt.Sprintf("%s dec icmp6 0 - %s", E, lib.Hex(d)))
		emit(fmt.Sprintf("%s pkt icmp6 0 %s", E, lib.Hex(d)))
		emit(fmt.Sprintf("%s dlp icmp6 %s", E, lib.Hex(d)))
	}
	// generated pool
	for i := 0; i < 60*scale; i++ {
		k := kinds[r.Intn(len(kinds))]
		m := randMsg(r, k)
		if r.Chance(35) {
			m = malform(r, k, m)
		}
		pool = append(pool, sample{k, m})
	}
	// 5. reuse histories (C05): the same objects see a sequence of packets, through dec/redec and the parser
	for i := 0; i < 150*scale; i++ {
		emit("reset")
		k := kinds[r.Intn(len(kinds))]
		var same []sample
		for _, s := range pool {
			if s.kind == k {
				same = append(same, s)
			}
		}
		n := 2 + r.Intn(5)
		for j := 0; j < n; j++ {
			var d []byte
			if len(same) > 0 && r.Chance(70) {
				d = same[r.Intn(len(same))].data
			} else {
				d = randMsg(r, k)
			}
			if r.Chance(25) {
				d = malform(r, k, d)
			}
			switch {
			case j == 0 && r.Chance(50):
				f := r.Bytes(r.Pick([]int{0, 1, 8, 40}))
				emit(fmt.Sprintf("%s dec %s %d %s %s", E, k, len(f), lib.Hex(f), lib.Hex(d)))
			case r.Chance(30):
				emit(fmt.Sprintf("%s dlp %s %s", E, k, lib.Hex(d)))
			default:
				emit(fmt.Sprintf("%s redec %s %s", E, k, lib.Hex(d)))
			}
		}
	}
	// 6. packet / parser paths on the whole pool
	for i := 0; i < 120*scale; i++ {
		emit("reset")
		s := pool[r.Intn(len(pool))]
		d := s.data
		if r.Chance(30) {
			d = malform(r, s.kind, d)
		}
		emit(fmt.Sprintf("%s pkt %s %d %s", E, s.kind, r.Intn(4), lib.Hex(d)))
		emit(fmt.Sprintf("%s dlp %s %s", E, s.kind, lib.Hex(d)))
		s2 := pool[r.Intn(len(pool))]
		emit(fmt.Sprintf("%s dlp %s %s", E, s2.kind, lib.Hex(s2.data)))
		emit(fmt.Sprintf("%s dlp %s %s", E, s.kind, lib.Hex(d)))
	}
	// 7. serialisation: exhaustive small scope over option lists (0..3 options from a 3-letter alphabet)
	alpha := []layers.ICMPv6Option{
		{Type: 1, Data: seq(6, 0xa0)},
		{Type: 5, Data: seq(6, 0xb0)},
		{Type: 3, Data: seq(30, 0xc0)},
	}
	var lists []layers.ICMPv6Options
	lists = append(lists, nil)
	for a := 0; a < 3; a++ {
		lists = append(lists, layers.ICMPv6Options{alpha[a]})
		for b := 0; b < 3; b++ {
			lists = append(lists, layers.ICMPv6Options{alpha[a], alpha[b]})
			for c := 0; c < 3; c++ {
				if tier == "thorough" || (a+b+c)%3 == 0 {
					lists = append(lists, layers.ICMPv6Options{alpha[a], alpha[b], alpha[c]})
				}
			}
		}
	}
	tgt, dst := net.IP(seq(16, 0x20)), net.IP(seq(16, 0x40))
	for _, ol := range lists {
		emit("reset")
		ls := []layer{
			&layers.ICMPv6RouterSolicitation{Options: ol},
			&layers.ICMPv6RouterAdvertisement{HopLimit: 64, Flags: 0xc0, RouterLifetime: 1800, ReachableTime: 0x01020304, RetransTimer: 0xfffefdfc, Options: ol},
			&layers.ICMPv6NeighborSolicitation{TargetAddress: tgt, Options: ol},
			&layers.ICMPv6NeighborAdvertisement{Flags: 0xe0, TargetAddress: tgt, Options: ol},
			&layers.ICMPv6Redirect{TargetAddress: tgt, DestinationAddress: dst, Options: ol},
		}
		for i, l := range ls {
			k := []string{"rs", "ra", "ns", "na", "redirect"}[i]
			emit(serLine(k, 1, 1, "fresh", "none", l, nil))
			emit(serLine(k, 1, 1, "dirty:a5:64:8", "none", l, nil))
			emit(fmt.Sprintf("%s rt %s tc=%d ck=0 %s %s p=-", E, "v6:"+lib.Hex(seq(16, 1))+":"+lib.Hex(seq(16, 0x81)), int(icmp6Type(k))<<8, k, kvStr(pubFields(l))))
		}
	}
	// 8. serialisation: random layer values, all four option sets, buffer histories, payload sizes
	for i := 0; i < 220*scale; i++ {
		emit("reset")
		k := kinds[r.Intn(len(kinds))]
		wf := r.Chance(70)
		l := randLayer(r, k, wf)
		p := payloadFor(r, k, tier)
		netw := "none"
		if k == "icmp6" {
			netw = randNet(r)
		}
		for fc := 0; fc < 4; fc++ {
			emit(serLine(k, fc>>1, fc&1, randHist(r), netw, l, p))
		}
	}
	// serialising what decoding produced (decode + serialize happen at run time, under the watchdog)
	for i := 0; i < 80*scale; i++ {
		s := pool[r.Intn(len(pool))]
		emit("reset")
		netw := "none"
		if s.kind == "icmp6" && r.Chance(80) {
			netw = randNet(r)
		}
		emit(fmt.Sprintf("%s decser %s %s %s %s", E, s.kind, randHist(r), netw, lib.Hex(s.data)))
	}
	// 9. stacks through SerializeLayers + NewPacket
	for i := 0; i < 120*scale; i++ {
		emit("reset")
		if r.Chance(25) {
			l := randLayer(r, "icmp4", true)
			emit(fmt.Sprintf("%s rt4 %s p=%s", E, kvStr(pubFields(l)), lib.Hex(payloadFor(r, "icmp4", tier))))
			continue
		}
		k := msgKinds[r.Intn(len(msgKinds))]
		l := randLayer(r, k, r.Chance(80))
		tc := int(icmp6Type(k))<<8 | r.Pick([]int{0, 0, 0, 1, 255})
		if k == "echo" && r.Bool() {
			tc += 256 // echo reply
		}
		if r.Chance(10) {
			tc = r.Intn(65536)
		}
		emit(fmt.Sprintf("%s rt %s tc=%d ck=%d %s %s p=%s", E, randNet(r), tc, r.Intn(65536), k, kvStr(pubFields(l)), lib.Hex(payloadFor(r, k, tier))))
	}
	// 10. malformed op stream (both sides must answer bad-op)
	emit("reset")
	for _, l := range []string{"licmp", "licmp dec", "licmp dec icmp4 0 - zz", "licmp dec nope 0 - 00", "licmp dec icmp4 1 - 00", "licmp redec icmp4", "licmp ser icmp4 2 0 fresh none tc=1 ck=1 id=1 seq=1 p=-",
		"licmp ser icmp4 1 0 fresh none tc=70000 ck=1 id=1 seq=1 p=-", "licmp ser icmp4 1 0 stale none tc=1 ck=1 id=1 seq=1 p=-", "licmp ser ns 1 1 fresh none tgt=00 p=-",
		"licmp ser ns 1 1 fresh none tgt=00 opts=1 p=-", "licmp ser ns 1 1 fresh v6:00:00 tgt=00 opts=- p=-", "licmp pkt icmp4 9 00", "licmp dlp icmp4", "licmp rt none tc=1 ck=1 icmp4 p=-", "licmp frob"} {
		emit(l)
	}
	_ = strings.Join
	_ = randLayer
}

func bytes0(n int, v byte) []byte {
	b := make([]byte, n)
	for i := range b {
		b[i] = v
	}
	return b
}

func seq(n int, start byte) []byte {
	b := make([]byte, n)
	for i := range b {
		b[i] = start + byte(i)
	}
	return b
}
