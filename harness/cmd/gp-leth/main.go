// gp-leth: correspondence adapter + monitors for engine `leth`
// (layers/ethernet.go and layers/dot1q.go: DecodeFromBytes, SerializeTo, NextLayerType, LinkFlow,
// decodeEthernet/decodeDot1Q, and the DecodingLayerParser over these two layers).
//
// Properties served: C19 (no panics), C05 (no stale state / capacity independence), C06 (round trip),
// C07 (serializer totality, buffer independence, idempotence), C17 (LinkFlow).
package main

import (
	"bytes"
	"errors"
	"fmt"
	"net"
	"os"
	"runtime/debug"
	"sort"
	"strings"

	"github.com/gopacket/gopacket"
	"github.com/gopacket/gopacket/layers"
	"verif/harness/lib"
)

// ---------------------------------------------------------------- state of one case

var (
	curEth   *layers.Ethernet
	curDot1Q *layers.Dot1Q
	pEth     *layers.Ethernet
	pDot1Q   *layers.Dot1Q
	parser   *gopacket.DecodingLayerParser
)

func reset() {
	curEth, curDot1Q = &layers.Ethernet{}, &layers.Dot1Q{}
	newParser()
}

func newParser() {
	pEth, pDot1Q = &layers.Ethernet{}, &layers.Dot1Q{}
	parser = gopacket.NewDecodingLayerParser(layers.LayerTypeEthernet, pEth, pDot1Q)
	parser.IgnorePanic = true // let panics through (C19: "a layer parser that lets panics through")
}

type feedback struct{ truncated bool }

func (f *feedback) SetTruncated() { f.truncated = true }

func b01(b bool) string {
	if b {
		return "1"
	}
	return "0"
}

func renderEth(l *layers.Ethernet) string {
	return fmt.Sprintf("dst=%s src=%s type=%d len=%d contents=%s payload=%s next=%d",
		lib.Hex(l.DstMAC), lib.Hex(l.SrcMAC), uint16(l.EthernetType), l.Length, lib.Hex(l.Contents), lib.Hex(l.Payload),
		int(l.NextLayerType()))
}

func renderDot1Q(l *layers.Dot1Q) string {
	return fmt.Sprintf("prio=%d dei=%s vlan=%d type=%d contents=%s payload=%s next=%d",
		l.Priority, b01(l.DropEligible), l.VLANIdentifier, uint16(l.Type), lib.Hex(l.Contents), lib.Hex(l.Payload),
		int(l.NextLayerType()))
}

// inBuf places data at the start of a backing array with `len(foreign)` spare bytes of capacity holding
// the foreign bytes, and returns the slice data[:len] with cap = len + len(foreign).
func inBuf(data, foreign []byte) []byte {
	back := make([]byte, len(data)+len(foreign))
	copy(back, data)
	copy(back[len(data):], foreign)
	return back[:len(data)]
}

func exact(data []byte) []byte { // cap == len
	c := make([]byte, len(data))
	copy(c, data)
	return c[:len(data):len(data)]
}

func isOurSite(site string) bool {
	return strings.HasPrefix(site, "layers/ethernet.go") || strings.HasPrefix(site, "layers/dot1q.go")
}

// protect is lib.Protect with a panic-site extraction that also works when the repository under test
// is a scratch tree (VERIF_REPO): the site is the top-most stack frame inside the repository.
var lastSite, lastMsg string

func protect(f func() string) (reply string, panicked bool) {
	defer func() {
		if v := recover(); v != nil {
			lastMsg = fmt.Sprint(v)
			lastSite = siteOf(string(debug.Stack()))
			reply = "panic " + lib.PanicKind(v)
			panicked = true
		}
	}()
	return f(), false
}

func siteOf(stack string) string {
	root := os.Getenv("VERIF_REPO")
	if root == "" {
		root = "/repo"
	}
	root = strings.TrimRight(root, "/") + "/"
	for _, l := range strings.Split(stack, "\n") {
		l = strings.TrimSpace(l)
		if !strings.Contains(l, ".go:") {
			continue
		}
		f := strings.Fields(l)[0]
		if strings.HasPrefix(f, root) {
			return f[len(root):]
		}
		if j := strings.LastIndex(f, "gopacket/"); j >= 0 && !strings.Contains(f, "/verif/") {
			return f[j+len("gopacket/"):]
		}
	}
	return "?"
}

// guarded runs f; a panic is reported as a C19 finding with its site and returned as "panic <kind>".
func guarded(what string, f func() string) string {
	reply, panicked := protect(f)
	if panicked {
		lib.Finding("C19", "leth:panic:"+lastSite, what+" panicked: "+lastMsg)
		lib.Stat("panic")
	}
	return reply
}

// ---------------------------------------------------------------- decode ops

func decEthInto(obj *layers.Ethernet, data []byte) (string, error, bool) {
	fb := &feedback{}
	err := obj.DecodeFromBytes(data, fb)
	if err != nil {
		return "err trunc=" + b01(fb.truncated), err, fb.truncated
	}
	return "ok " + renderEth(obj) + " trunc=" + b01(fb.truncated), nil, fb.truncated
}

func decDot1QInto(obj *layers.Dot1Q, data []byte) (string, error, bool) {
	fb := &feedback{}
	err := obj.DecodeFromBytes(data, fb)
	if err != nil {
		return "err trunc=" + b01(fb.truncated), err, fb.truncated
	}
	return "ok " + renderDot1Q(obj) + " trunc=" + b01(fb.truncated), nil, fb.truncated
}

func statEth(l *layers.Ethernet, err error, tr bool) {
	switch {
	case err != nil:
		lib.Stat("eth:dec:err")
	case l.EthernetType == layers.EthernetTypeLLC && tr:
		lib.Stat("eth:dec:llc-truncated")
		lib.Nontrivial()
	case l.EthernetType == layers.EthernetTypeLLC && len(l.Contents)+len(l.Payload) > 0 && l.Length > 0:
		lib.Stat("eth:dec:llc")
		lib.Nontrivial()
	case l.EthernetType == layers.EthernetTypeLLC:
		lib.Stat("eth:dec:llc-len0")
	default:
		lib.Stat("eth:dec:ethII")
		if len(l.Payload) > 0 {
			lib.Nontrivial()
		}
	}
}

func opDec(kind string, extra int, foreign, data []byte) string {
	if len(foreign) != extra {
		return "bad-op"
	}
	switch kind {
	case "eth":
		return guarded("Ethernet.DecodeFromBytes", func() string {
			obj := &layers.Ethernet{}
			curEth = obj
			reply, err, tr := decEthInto(obj, inBuf(data, foreign))
			statEth(obj, err, tr)
			// C05/C04 oracle: the same bytes in a buffer with cap == len
			ref := &layers.Ethernet{}
			refReply, _, _ := decEthInto(ref, exact(data))
			if reply != refReply {
				lib.Finding("C05", "leth:cap-dependent", "Ethernet decode depends on spare capacity / foreign bytes: "+reply+" vs "+refReply)
			}
			if extra > 0 {
				lib.Stat("eth:dec:spare-cap")
			}
			return reply
		})
	case "dot1q":
		return guarded("Dot1Q.DecodeFromBytes", func() string {
			obj := &layers.Dot1Q{}
			curDot1Q = obj
			reply, err, _ := decDot1QInto(obj, inBuf(data, foreign))
			if err != nil {
				lib.Stat("dot1q:dec:err")
			} else {
				lib.Stat("dot1q:dec:ok")
				lib.Nontrivial()
			}
			ref := &layers.Dot1Q{}
			refReply, _, _ := decDot1QInto(ref, exact(data))
			if reply != refReply {
				lib.Finding("C05", "leth:cap-dependent", "Dot1Q decode depends on spare capacity / foreign bytes: "+reply+" vs "+refReply)
			}
			return reply
		})
	}
	return "bad-op"
}

func staleFieldEth(a, b *layers.Ethernet) string {
	switch {
	case !bytes.Equal(a.DstMAC, b.DstMAC):
		return "DstMAC"
	case !bytes.Equal(a.SrcMAC, b.SrcMAC):
		return "SrcMAC"
	case a.EthernetType != b.EthernetType:
		return "EthernetType"
	case a.Length != b.Length:
		return "Length"
	case !bytes.Equal(a.Contents, b.Contents):
		return "Contents"
	case !bytes.Equal(a.Payload, b.Payload):
		return "Payload"
	}
	return ""
}

func staleFieldDot1Q(a, b *layers.Dot1Q) string {
	switch {
	case a.Priority != b.Priority:
		return "Priority"
	case a.DropEligible != b.DropEligible:
		return "DropEligible"
	case a.VLANIdentifier != b.VLANIdentifier:
		return "VLANIdentifier"
	case a.Type != b.Type:
		return "Type"
	case !bytes.Equal(a.Contents, b.Contents):
		return "Contents"
	case !bytes.Equal(a.Payload, b.Payload):
		return "Payload"
	}
	return ""
}

func opRedec(kind string, data []byte) string {
	switch kind {
	case "eth":
		return guarded("Ethernet.DecodeFromBytes", func() string {
			reply, err, tr := decEthInto(curEth, exact(data))
			statEth(curEth, err, tr)
			lib.Stat("eth:redec")
			fresh := &layers.Ethernet{}
			fb := &feedback{}
			ferr := fresh.DecodeFromBytes(exact(data), fb)
			if (ferr != nil) != (err != nil) {
				lib.Finding("C05", "leth:stale:error", "Ethernet: reused object and fresh object disagree on the error")
			} else if err == nil {
				if f := staleFieldEth(curEth, fresh); f != "" {
					lib.Finding("C05", "leth:stale:"+f, "Ethernet."+f+" differs between a reused and a fresh object")
				}
				if fb.truncated != tr {
					lib.Finding("C05", "leth:stale:Truncated", "Ethernet: truncation flag differs between a reused and a fresh object")
				}
			}
			return reply
		})
	case "dot1q":
		return guarded("Dot1Q.DecodeFromBytes", func() string {
			reply, err, tr := decDot1QInto(curDot1Q, exact(data))
			lib.Stat("dot1q:redec")
			fresh := &layers.Dot1Q{}
			fb := &feedback{}
			ferr := fresh.DecodeFromBytes(exact(data), fb)
			if (ferr != nil) != (err != nil) {
				lib.Finding("C05", "leth:stale:error", "Dot1Q: reused object and fresh object disagree on the error")
			} else if err == nil {
				if f := staleFieldDot1Q(curDot1Q, fresh); f != "" {
					lib.Finding("C05", "leth:stale:"+f, "Dot1Q."+f+" differs between a reused and a fresh object")
				}
				if fb.truncated != tr {
					lib.Finding("C05", "leth:stale:Truncated", "Dot1Q: truncation flag differs between a reused and a fresh object")
				}
			}
			return reply
		})
	}
	return "bad-op"
}

// ---------------------------------------------------------------- serialize ops

func mkBuffer(hist string) (gopacket.SerializeBuffer, bool) {
	switch {
	case hist == "fresh":
		return gopacket.NewSerializeBuffer(), true
	case strings.HasPrefix(hist, "dirty"):
		v, ok := lib.Atoi(hist[5:])
		if !ok || v < 0 || v > 255 {
			return nil, false
		}
		b := gopacket.NewSerializeBuffer()
		s, _ := b.AppendBytes(64)
		for i := range s {
			s[i] = byte(v)
		}
		s, _ = b.PrependBytes(64)
		for i := range s {
			s[i] = byte(v)
		}
		b.Clear()
		return b, true
	case strings.HasPrefix(hist, "sized"):
		n, ok := lib.Atoi(hist[5:])
		if !ok || n < 0 || n >= 100000 {
			return nil, false
		}
		return gopacket.NewSerializeBufferExpectedSize(n, n), true
	}
	return nil, false
}

func parsePayload(s string) ([]byte, bool) {
	if strings.HasPrefix(s, "z") {
		parts := strings.Split(s[1:], "x")
		if len(parts) != 2 {
			return nil, false
		}
		n, ok := lib.Atoi(parts[0])
		v, ok2 := lib.UnHex(parts[1])
		if !ok || !ok2 || len(v) != 1 || n < 0 || n > 200000 {
			return nil, false
		}
		return bytes.Repeat(v, n), true
	}
	return lib.UnHex(s)
}

func putPayload(b gopacket.SerializeBuffer, p []byte) {
	gopacket.Payload(p).SerializeTo(b, gopacket.SerializeOptions{})
}

// serOnce serialises layer l over payload p into buffer b; returns (bytes, error?) and converts a
// panic into a C07 finding.
func serOnce(l gopacket.SerializableLayer, b gopacket.SerializeBuffer, p []byte, opts gopacket.SerializeOptions) (out []byte, failed bool, panicked bool) {
	reply, pk := protect(func() string {
		putPayload(b, p)
		if err := l.SerializeTo(b, opts); err != nil {
			return "err"
		}
		return "ok"
	})
	if pk {
		lib.Finding("C07", "leth:ser-panic:"+lastSite, "SerializeTo panicked: "+lastMsg)
		return nil, false, true
	}
	if reply == "err" {
		return nil, true, false
	}
	return append([]byte(nil), b.Bytes()...), false, false
}

// serMonitors: the C07 oracles on the real code for one (layer, payload, options).
// mk must return a NEW layer object with the same public field values on every call.
func serMonitors(name string, mk func() gopacket.SerializableLayer, p []byte, opts gopacket.SerializeOptions, got []byte, gotErr bool) {
	// (a) buffer independence: fresh, dirty 0xA5 / 0x5A, pre-sized
	for _, h := range []string{"fresh", "dirty165", "dirty90", "sized7", "sized2000"} {
		b, _ := mkBuffer(h)
		out, failed, pk := serOnce(mk(), b, p, opts)
		if pk {
			return
		}
		if failed != gotErr || (!failed && !bytes.Equal(out, got)) {
			lib.Finding("C07", "leth:dirty-buffer", name+": output differs between buffer histories ("+h+")")
			return
		}
	}
	// (b) idempotence: the same (mutated) object again over the same payload
	l := mk()
	o1, f1, pk := serOnce(l, gopacket.NewSerializeBuffer(), p, opts)
	if pk {
		return
	}
	o2, f2, pk := serOnce(l, gopacket.NewSerializeBuffer(), p, opts)
	if pk {
		return
	}
	if f1 != f2 || !bytes.Equal(o1, o2) {
		what := "bytes differ"
		if f1 != f2 {
			what = fmt.Sprintf("first call error=%v, second call error=%v", f1, f2)
		}
		lib.Finding("C07", "leth:not-idempotent", name+": serialising the same layer twice differs: "+what)
	}
}

func opSerEth(a []string) string {
	// fix csum hist dst src type len payload
	if len(a) != 8 {
		return "bad-op"
	}
	fix, ok1 := parseBool(a[0])
	csum, ok2 := parseBool(a[1])
	b, ok3 := mkBuffer(a[2])
	dst, ok4 := lib.UnHex(a[3])
	src, ok5 := lib.UnHex(a[4])
	ty, ok6 := lib.Atoi(a[5])
	ln, ok7 := lib.Atoi(a[6])
	p, ok8 := parsePayload(a[7])
	if !(ok1 && ok2 && ok3 && ok4 && ok5 && ok6 && ok7 && ok8) || ty < 0 || ty > 65535 || ln < 0 || ln > 65535 {
		return "bad-op"
	}
	opts := gopacket.SerializeOptions{FixLengths: fix, ComputeChecksums: csum}
	mk := func() gopacket.SerializableLayer {
		return &layers.Ethernet{DstMAC: net.HardwareAddr(append([]byte(nil), dst...)), SrcMAC: net.HardwareAddr(append([]byte(nil), src...)),
			EthernetType: layers.EthernetType(ty), Length: uint16(ln)}
	}
	l := mk().(*layers.Ethernet)
	out, failed, pk := serOnce(l, b, p, opts)
	if pk {
		return "panic " + lib.PanicKind(lastMsg)
	}
	serMonitors("Ethernet", mk, p, opts, out, failed)
	switch {
	case failed:
		lib.Stat("eth:ser:err")
	case ty == 0:
		lib.Stat("eth:ser:llc")
		lib.Nontrivial()
	default:
		lib.Stat("eth:ser:ethII")
		lib.Nontrivial()
	}
	if !failed && len(p) < 46 {
		lib.Stat("eth:ser:padded")
	}
	if a[2] != "fresh" {
		lib.Stat("ser:buf:" + strings.TrimRight(a[2], "0123456789"))
	}
	if failed {
		return "err" // (what a failed call did to the receiver is observed by the idempotence monitor, C07)
	}
	return fmt.Sprintf("ok bytes=%s len=%d", lib.Hex(out), l.Length)
}

func opSerDot1Q(a []string) string {
	// fix csum hist prio dei vlan type payload
	if len(a) != 8 {
		return "bad-op"
	}
	fix, ok1 := parseBool(a[0])
	csum, ok2 := parseBool(a[1])
	b, ok3 := mkBuffer(a[2])
	prio, ok4 := lib.Atoi(a[3])
	dei, ok5 := parseBool(a[4])
	vlan, ok6 := lib.Atoi(a[5])
	ty, ok7 := lib.Atoi(a[6])
	p, ok8 := parsePayload(a[7])
	if !(ok1 && ok2 && ok3 && ok4 && ok5 && ok6 && ok7 && ok8) || prio < 0 || prio > 255 || vlan < 0 || vlan > 65535 || ty < 0 || ty > 65535 {
		return "bad-op"
	}
	opts := gopacket.SerializeOptions{FixLengths: fix, ComputeChecksums: csum}
	mk := func() gopacket.SerializableLayer {
		return &layers.Dot1Q{Priority: uint8(prio), DropEligible: dei, VLANIdentifier: uint16(vlan), Type: layers.EthernetType(ty)}
	}
	out, failed, pk := serOnce(mk(), b, p, opts)
	if pk {
		return "panic " + lib.PanicKind(lastMsg)
	}
	serMonitors("Dot1Q", mk, p, opts, out, failed)
	if failed {
		lib.Stat("dot1q:ser:err")
		return "err"
	}
	lib.Stat("dot1q:ser:ok")
	lib.Nontrivial()
	return "ok bytes=" + lib.Hex(out)
}

func parseBool(s string) (bool, bool) {
	switch s {
	case "1":
		return true, true
	case "0":
		return false, true
	}
	return false, false
}

// ---------------------------------------------------------------- round trip

var rtOpts = gopacket.SerializeOptions{FixLengths: true, ComputeChecksums: true}

// rtEth: SerializeLayers(eth, payload) with fix+csum, decode, serialise the decoded layer again.
func rtEth(l *layers.Ethernet, p []byte, decoded bool) string {
	wantDst, wantSrc := append([]byte(nil), l.DstMAC...), append([]byte(nil), l.SrcMAC...)
	wantType, inLen := l.EthernetType, l.Length
	buf := gopacket.NewSerializeBuffer()
	if err := gopacket.SerializeLayers(buf, rtOpts, l, gopacket.Payload(p)); err != nil {
		lib.Stat("eth:rt:ser-err")
		return "ser-err"
	}
	out := append([]byte(nil), buf.Bytes()...)
	d := &layers.Ethernet{}
	dreply, derr, dtr := decEthInto(d, exact(out))
	again := "none"
	if derr == nil {
		buf2 := gopacket.NewSerializeBuffer()
		if err := gopacket.SerializeLayers(buf2, rtOpts, d, gopacket.Payload(d.Payload)); err != nil {
			again = "err"
		} else if bytes.Equal(buf2.Bytes(), out) {
			again = "same"
		} else {
			again = "diff"
		}
	}
	// C06 oracle (independent statement of the property for this layer)
	wf := len(wantDst) == 6 && len(wantSrc) == 6 &&
		((wantType == layers.EthernetTypeLLC && len(p) < 0x0600) || (wantType >= 0x0600 && inLen == 0 && len(p) >= 46))
	padCase := len(wantDst) == 6 && len(wantSrc) == 6 && wantType >= 0x0600 && inLen == 0 && len(p) < 46
	if wf || padCase {
		wantPayload := p
		if padCase {
			wantPayload = append(append([]byte(nil), p...), make([]byte, 46-len(p))...)
			lib.Stat("eth:rt:pad-case")
		} else {
			lib.Stat("eth:rt:wf")
			lib.Nontrivial()
		}
		wantLen := uint16(0)
		if wantType == layers.EthernetTypeLLC {
			wantLen = uint16(len(p))
		}
		switch {
		case derr != nil:
			lib.Finding("C06", "leth:roundtrip:error", "Ethernet: decoding the serialised well-formed layer fails")
		case dtr:
			lib.Finding("C06", "leth:roundtrip:Truncated", "Ethernet: truncation flag set on a round trip")
		case !bytes.Equal(d.DstMAC, wantDst):
			lib.Finding("C06", "leth:roundtrip:DstMAC", "Ethernet.DstMAC changed on a round trip")
		case !bytes.Equal(d.SrcMAC, wantSrc):
			lib.Finding("C06", "leth:roundtrip:SrcMAC", "Ethernet.SrcMAC changed on a round trip")
		case d.EthernetType != wantType:
			lib.Finding("C06", "leth:roundtrip:EthernetType", fmt.Sprintf("Ethernet.EthernetType %d -> %d", wantType, d.EthernetType))
		case d.Length != wantLen:
			lib.Finding("C06", "leth:roundtrip:Length", fmt.Sprintf("Ethernet.Length: want %d got %d", wantLen, d.Length))
		case !bytes.Equal(d.Payload, wantPayload):
			lib.Finding("C06", "leth:roundtrip:Payload", fmt.Sprintf("Ethernet payload changed on a round trip (%d -> %d bytes)", len(wantPayload), len(d.Payload)))
		case again != "same":
			lib.Finding("C06", "leth:roundtrip:reserialize", "Ethernet: serialising the decoded layer again gives "+again)
		}
	} else if decoded {
		// a layer obtained by decoding is always inside the claim except for the documented
		// Ethernet II short-payload case handled above
		lib.Stat("eth:rt:decoded-not-wf")
	} else {
		lib.Stat("eth:rt:not-wf")
	}
	return "ok bytes=" + lib.Hex(out) + " | " + dreply + " | again=" + again
}

func rtDot1Q(l *layers.Dot1Q, p []byte) string {
	want := *l
	buf := gopacket.NewSerializeBuffer()
	if err := gopacket.SerializeLayers(buf, rtOpts, l, gopacket.Payload(p)); err != nil {
		lib.Stat("dot1q:rt:ser-err")
		return "ser-err"
	}
	out := append([]byte(nil), buf.Bytes()...)
	d := &layers.Dot1Q{}
	dreply, derr, dtr := decDot1QInto(d, exact(out))
	again := "none"
	if derr == nil {
		buf2 := gopacket.NewSerializeBuffer()
		if err := gopacket.SerializeLayers(buf2, rtOpts, d, gopacket.Payload(d.Payload)); err != nil {
			again = "err"
		} else if bytes.Equal(buf2.Bytes(), out) {
			again = "same"
		} else {
			again = "diff"
		}
	}
	if want.Priority <= 7 && want.VLANIdentifier <= 0xFFF {
		lib.Stat("dot1q:rt:wf")
		lib.Nontrivial()
		switch {
		case derr != nil:
			lib.Finding("C06", "leth:roundtrip:error", "Dot1Q: decoding the serialised well-formed layer fails")
		case dtr:
			lib.Finding("C06", "leth:roundtrip:Truncated", "Dot1Q: truncation flag set on a round trip")
		case d.Priority != want.Priority:
			lib.Finding("C06", "leth:roundtrip:Priority", "Dot1Q.Priority changed on a round trip")
		case d.DropEligible != want.DropEligible:
			lib.Finding("C06", "leth:roundtrip:DropEligible", "Dot1Q.DropEligible changed on a round trip")
		case d.VLANIdentifier != want.VLANIdentifier:
			lib.Finding("C06", "leth:roundtrip:VLANIdentifier", "Dot1Q.VLANIdentifier changed on a round trip")
		case d.Type != want.Type:
			lib.Finding("C06", "leth:roundtrip:Type", "Dot1Q.Type changed on a round trip")
		case !bytes.Equal(d.Payload, p):
			lib.Finding("C06", "leth:roundtrip:Payload", "Dot1Q payload changed on a round trip")
		case again != "same":
			lib.Finding("C06", "leth:roundtrip:reserialize", "Dot1Q: serialising the decoded layer again gives "+again)
		}
	} else {
		lib.Stat("dot1q:rt:not-wf")
	}
	return "ok bytes=" + lib.Hex(out) + " | " + dreply + " | again=" + again
}

// ---------------------------------------------------------------- flows

func opFlow(data []byte) string {
	return guarded("Ethernet.LinkFlow", func() string {
		l := &layers.Ethernet{}
		if err := l.DecodeFromBytes(exact(data), &feedback{}); err != nil {
			return "err"
		}
		f := l.LinkFlow()
		src, dst := f.Endpoints()
		rs, rd := f.Reverse().Endpoints()
		// the same frame in the other direction
		sw := append(append(append([]byte(nil), data[6:12]...), data[0:6]...), data[12:]...)
		l2 := &layers.Ethernet{}
		sym := "x"
		if err := l2.DecodeFromBytes(sw, &feedback{}); err == nil {
			f2 := l2.LinkFlow()
			sym = b01(f2 == f.Reverse())
			if f2 != f.Reverse() {
				lib.Finding("C17", "leth:flow-reverse", "LinkFlow of the frame with swapped addresses is not the reversed flow")
			}
			if f2.FastHash() != f.FastHash() {
				lib.Finding("C17", "leth:flow-hash", "the two directions of one conversation have different FastHash")
			}
		}
		if f.EndpointType() != layers.EndpointMAC || !bytes.Equal(src.Raw(), data[6:12]) || !bytes.Equal(dst.Raw(), data[0:6]) {
			lib.Finding("C17", "leth:flow-bytes", "LinkFlow does not carry exactly the source/destination MAC bytes of the input")
		}
		if f.Reverse().Reverse() != f {
			lib.Finding("C17", "leth:flow-reverse", "Reverse twice is not the identity on a LinkFlow")
		}
		lib.Stat("eth:flow")
		if !bytes.Equal(data[0:6], data[6:12]) {
			lib.Nontrivial()
		}
		return fmt.Sprintf("ok et=%d src=%s dst=%s rsrc=%s rdst=%s sym=%s", int(f.EndpointType()),
			lib.Hex(src.Raw()), lib.Hex(dst.Raw()), lib.Hex(rs.Raw()), lib.Hex(rd.Raw()), sym)
	})
}

// ---------------------------------------------------------------- tracing PacketBuilder

type tracer struct {
	acts  []string
	tail  string
	added gopacket.Layer
}

func (t *tracer) SetTruncated()                                    { t.acts = append(t.acts, "trunc") }
func (t *tracer) AddLayer(l gopacket.Layer)                         { t.acts = append(t.acts, fmt.Sprintf("add:%d", int(l.LayerType()))); t.added = l }
func (t *tracer) SetLinkLayer(gopacket.LinkLayer)                   { t.acts = append(t.acts, "link") }
func (t *tracer) SetNetworkLayer(gopacket.NetworkLayer)             { t.acts = append(t.acts, "net") }
func (t *tracer) SetTransportLayer(gopacket.TransportLayer)         { t.acts = append(t.acts, "transport") }
func (t *tracer) SetApplicationLayer(gopacket.ApplicationLayer)     { t.acts = append(t.acts, "app") }
func (t *tracer) SetErrorLayer(gopacket.ErrorLayer)                 { t.acts = append(t.acts, "errlayer") }
func (t *tracer) DumpPacketData()                                   {}
func (t *tracer) DecodeOptions() *gopacket.DecodeOptions            { return &gopacket.DecodeOptions{} }
func (t *tracer) NextDecoder(next gopacket.Decoder) error {
	switch d := next.(type) {
	case layers.EthernetType:
		t.tail = fmt.Sprintf("eth:%d", uint16(d))
	case gopacket.LayerType:
		t.tail = fmt.Sprintf("lt:%d", int(d))
	case nil:
		t.tail = "nil"
	default:
		t.tail = "other"
	}
	return nil
}

func opPb(kind string, data []byte) string {
	var dec gopacket.Decoder
	switch kind {
	case "eth":
		dec = layers.LayerTypeEthernet
	case "dot1q":
		dec = layers.LayerTypeDot1Q
	default:
		return "bad-op"
	}
	return guarded("decode function of "+kind, func() string {
		t := &tracer{}
		err := dec.Decode(exact(data), t)
		tail := t.tail
		if err != nil {
			tail = "fail"
		} else if tail == "" {
			tail = "done"
		}
		acts := "-"
		if len(t.acts) > 0 {
			acts = strings.Join(t.acts, ",")
		}
		lib.Stat("pb:" + kind + ":" + strings.SplitN(tail, ":", 2)[0])
		s := "acts=" + acts + " tail=" + tail
		switch l := t.added.(type) {
		case *layers.Ethernet:
			s += " | " + renderEth(l)
		case *layers.Dot1Q:
			s += " | " + renderDot1Q(l)
		}
		return s
	})
}

// ---------------------------------------------------------------- NewPacket / DecodingLayerParser

func opPkt(kind, mode string, extra int, foreign, data []byte) string {
	if len(foreign) != extra || (mode != "copy" && mode != "nocopy" && mode != "lazy") {
		return "bad-op"
	}
	first := layers.LayerTypeEthernet
	if kind == "dot1q" {
		first = layers.LayerTypeDot1Q
	} else if kind != "eth" {
		return "bad-op"
	}
	if len(data) == 0 {
		return "empty"
	}
	build := func(skipRecovery bool) (gopacket.Packet, []gopacket.Layer) {
		opts := gopacket.DecodeOptions{SkipDecodeRecovery: skipRecovery}
		in := exact(data)
		switch mode {
		case "nocopy":
			opts.NoCopy = true
			in = inBuf(data, foreign)
		case "lazy":
			opts.Lazy = true
		}
		p := gopacket.NewPacket(in, first, opts)
		return p, p.Layers()
	}
	var p gopacket.Packet
	var ls []gopacket.Layer
	_, panicked := protect(func() string { p, ls = build(true); return "" })
	if panicked {
		if isOurSite(lastSite) {
			lib.Finding("C19", "leth:panic:"+lastSite, "NewPacket(SkipDecodeRecovery) panicked in this layer: "+lastMsg)
			return "panic " + lib.PanicKind(lastMsg)
		}
		// a decoder of a LATER layer panicked (other engines' business): observe this layer with recovery on
		lib.Stat("pkt:later-layer-panic")
		p, ls = build(false)
	}
	lib.Stat("pkt:" + kind + ":" + mode)
	if len(ls) == 0 {
		return "fail"
	}
	// oracle: the first layer equals a direct fresh decode
	switch l := ls[0].(type) {
	case *layers.Ethernet:
		if kind != "eth" {
			return "fail"
		}
		ref := &layers.Ethernet{}
		if err := ref.DecodeFromBytes(exact(data), &feedback{}); err != nil || staleFieldEth(l, ref) != "" {
			lib.Finding("C05", "leth:pkt-differs", "first layer built by NewPacket("+mode+") differs from a direct fresh DecodeFromBytes")
		}
		if p.LinkLayer() != gopacket.LinkLayer(l) {
			lib.Finding("C05", "leth:pkt-link", "NewPacket: LinkLayer is not the decoded Ethernet layer")
		}
		return "ok " + renderEth(l) + " link=" + b01(p.LinkLayer() != nil)
	case *layers.Dot1Q:
		if kind != "dot1q" {
			return "fail"
		}
		ref := &layers.Dot1Q{}
		if err := ref.DecodeFromBytes(exact(data), &feedback{}); err != nil || staleFieldDot1Q(l, ref) != "" {
			lib.Finding("C05", "leth:pkt-differs", "first layer built by NewPacket("+mode+") differs from a direct fresh DecodeFromBytes")
		}
		return "ok " + renderDot1Q(l) // (the link layer of a tag-first packet is set, if at all, by a later layer)
	}
	return "fail"
}

func opDlp(re bool, data []byte) string {
	if !re {
		newParser()
	}
	return guarded("DecodingLayerParser.DecodeLayers", func() string {
		var decoded []gopacket.LayerType
		err := parser.DecodeLayers(exact(data), &decoded)
		code := 0
		var unsup gopacket.UnsupportedLayerType
		if errors.As(err, &unsup) {
			code = 2
		} else if err != nil {
			code = 1
		}
		ds := make([]string, len(decoded))
		for i, t := range decoded {
			ds[i] = lib.Itoa(int(t))
		}
		dec := "-"
		if len(ds) > 0 {
			dec = strings.Join(ds, ",")
		}
		lib.Stat(fmt.Sprintf("dlp:layers=%d", len(decoded)))
		if len(decoded) >= 2 {
			lib.Nontrivial()
		}
		// C05 oracle: the run equals the leading run of NewPacket's layers with equal fields
		if len(data) > 0 {
			var pl []gopacket.Layer
			_, pk := protect(func() string {
				pl = gopacket.NewPacket(exact(data), layers.LayerTypeEthernet, gopacket.DecodeOptions{}).Layers()
				return ""
			})
			if !pk {
				nq := 0
				lastOf := map[gopacket.LayerType]int{}
				for i, t := range decoded {
					lastOf[t] = i
				}
				for i, t := range decoded {
					if i >= len(pl) || pl[i].LayerType() != t {
						lib.Finding("C05", "leth:dlp-differs", "parser run is not a prefix of the packet's layers")
						break
					}
					// the parser owns ONE object per type: after the run it holds the LAST layer of that type
					switch l := pl[i].(type) {
					case *layers.Ethernet:
						if lastOf[t] == i && staleFieldEth(l, pEth) != "" {
							lib.Finding("C05", "leth:dlp-differs", "parser's Ethernet differs from the packet's: "+staleFieldEth(l, pEth))
						}
					case *layers.Dot1Q:
						nq++
						if lastOf[t] == i && staleFieldDot1Q(l, pDot1Q) != "" {
							lib.Finding("C05", "leth:dlp-differs", "parser's Dot1Q differs from the packet's: "+staleFieldDot1Q(l, pDot1Q))
						}
					}
				}
				if nq >= 2 {
					lib.Stat("dlp:qinq")
				}
			}
		}
		return fmt.Sprintf("code=%d decoded=%s trunc=%s | %s | %s", code, dec, b01(parser.Truncated), renderEth(pEth), renderDot1Q(pDot1Q))
	})
}

func opNltTab() string {
	var rows []string
	type row struct{ k, v int }
	var rs []row
	for i := 0; i < 65536; i++ {
		if layers.EthernetTypeMetadata[i].DecodeWith != nil {
			rs = append(rs, row{i, int(layers.EthernetType(i).LayerType())})
		} else if layers.EthernetType(i).LayerType() != gopacket.LayerTypeZero {
			rs = append(rs, row{i, -1})
		}
	}
	sort.Slice(rs, func(a, b int) bool { return rs[a].k < rs[b].k })
	for _, r := range rs {
		rows = append(rows, fmt.Sprintf("%d:%d", r.k, r.v))
	}
	lib.Stat("nlttab")
	return "ok " + strings.Join(rows, ",")
}

// ---------------------------------------------------------------- dispatcher

func exec(a []string) string {
	if len(a) < 2 || a[0] != "leth" {
		return "bad-op"
	}
	switch a[1] {
	case "dec":
		if len(a) != 6 {
			return "bad-op"
		}
		extra, ok1 := lib.Atoi(a[3])
		foreign, ok2 := lib.UnHex(a[4])
		data, ok3 := lib.UnHex(a[5])
		if !ok1 || !ok2 || !ok3 || extra < 0 {
			return "bad-op"
		}
		return opDec(a[2], extra, foreign, data)
	case "redec":
		if len(a) != 4 {
			return "bad-op"
		}
		data, ok := lib.UnHex(a[3])
		if !ok {
			return "bad-op"
		}
		return opRedec(a[2], data)
	case "ser":
		if len(a) != 11 {
			return "bad-op"
		}
		switch a[2] {
		case "eth":
			return opSerEth(a[3:])
		case "dot1q":
			return opSerDot1Q(a[3:])
		}
		return "bad-op"
	case "rt":
		if len(a) != 8 {
			return "bad-op"
		}
		switch a[2] {
		case "eth":
			dst, ok1 := lib.UnHex(a[3])
			src, ok2 := lib.UnHex(a[4])
			ty, ok3 := lib.Atoi(a[5])
			ln, ok4 := lib.Atoi(a[6])
			p, ok5 := parsePayload(a[7])
			if !(ok1 && ok2 && ok3 && ok4 && ok5) || ty < 0 || ty > 65535 || ln < 0 || ln > 65535 {
				return "bad-op"
			}
			r, pk := protect(func() string {
				return rtEth(&layers.Ethernet{DstMAC: dst, SrcMAC: src, EthernetType: layers.EthernetType(ty), Length: uint16(ln)}, p, false)
			})
			if pk {
				lib.Finding("C07", "leth:ser-panic:"+lastSite, "round trip panicked: "+lastMsg)
			}
			return r
		case "dot1q":
			prio, ok1 := lib.Atoi(a[3])
			dei, ok2 := parseBool(a[4])
			vlan, ok3 := lib.Atoi(a[5])
			ty, ok4 := lib.Atoi(a[6])
			p, ok5 := parsePayload(a[7])
			if !(ok1 && ok2 && ok3 && ok4 && ok5) || prio < 0 || prio > 255 || vlan < 0 || vlan > 65535 || ty < 0 || ty > 65535 {
				return "bad-op"
			}
			r, pk := protect(func() string {
				return rtDot1Q(&layers.Dot1Q{Priority: uint8(prio), DropEligible: dei, VLANIdentifier: uint16(vlan), Type: layers.EthernetType(ty)}, p)
			})
			if pk {
				lib.Finding("C07", "leth:ser-panic:"+lastSite, "round trip panicked: "+lastMsg)
			}
			return r
		}
		return "bad-op"
	case "rtdec":
		if len(a) != 4 {
			return "bad-op"
		}
		data, ok := lib.UnHex(a[3])
		if !ok {
			return "bad-op"
		}
		switch a[2] {
		case "eth":
			return guarded("decode+round trip", func() string {
				l := &layers.Ethernet{}
				if err := l.DecodeFromBytes(exact(data), &feedback{}); err != nil {
					return "dec-err"
				}
				lib.Stat("eth:rtdec")
				return rtEth(l, l.Payload, true)
			})
		case "dot1q":
			return guarded("decode+round trip", func() string {
				l := &layers.Dot1Q{}
				if err := l.DecodeFromBytes(exact(data), &feedback{}); err != nil {
					return "dec-err"
				}
				lib.Stat("dot1q:rtdec")
				return rtDot1Q(l, l.Payload)
			})
		}
		return "bad-op"
	case "flow":
		if len(a) != 3 {
			return "bad-op"
		}
		data, ok := lib.UnHex(a[2])
		if !ok {
			return "bad-op"
		}
		return opFlow(data)
	case "pb":
		if len(a) != 4 {
			return "bad-op"
		}
		data, ok := lib.UnHex(a[3])
		if !ok {
			return "bad-op"
		}
		return opPb(a[2], data)
	case "pkt":
		if len(a) != 7 {
			return "bad-op"
		}
		extra, ok1 := lib.Atoi(a[4])
		foreign, ok2 := lib.UnHex(a[5])
		data, ok3 := lib.UnHex(a[6])
		if !ok1 || !ok2 || !ok3 || extra < 0 {
			return "bad-op"
		}
		return opPkt(a[2], a[3], extra, foreign, data)
	case "dlp", "redlp":
		if len(a) != 3 {
			return "bad-op"
		}
		data, ok := lib.UnHex(a[2])
		if !ok {
			return "bad-op"
		}
		return opDlp(a[1] == "redlp", data)
	case "nlttab":
		if len(a) != 2 {
			return "bad-op"
		}
		return opNltTab()
	}
	return "bad-op"
}

func main() {
	reset()
	lib.Main(lib.Engine{Name: "leth", Gen: gen, Reset: reset, Exec: exec})
}
