package main

import (
	"fmt"
	"go/ast"
	goparser "go/parser"
	"go/token"
	"net"
	"os"
	"path/filepath"
	"sort"
	"strconv"

	"github.com/gopacket/gopacket"
	"github.com/gopacket/gopacket/layers"
	"verif/harness/lib"
)

// ---------------------------------------------------------------- fixtures

// harvest collects every `[]byte{…}` literal (all elements literal) from the repository's own
// layers/*_test.go files; almost all of them are captured Ethernet frames.
func harvest() [][]byte {
	repo := os.Getenv("VERIF_REPO")
	if repo == "" {
		repo = "/repo"
	}
	files, _ := filepath.Glob(filepath.Join(repo, "layers", "*_test.go"))
	sort.Strings(files)
	var out [][]byte
	fset := token.NewFileSet()
	for _, fn := range files {
		f, err := goparser.ParseFile(fset, fn, nil, 0)
		if err != nil {
			continue
		}
		ast.Inspect(f, func(n ast.Node) bool {
			cl, ok := n.(*ast.CompositeLit)
			if !ok {
				return true
			}
			at, ok := cl.Type.(*ast.ArrayType)
			if !ok || at.Len != nil {
				return true
			}
			id, ok := at.Elt.(*ast.Ident)
			if !ok || (id.Name != "byte" && id.Name != "uint8") {
				return true
			}
			b := make([]byte, 0, len(cl.Elts))
			for _, e := range cl.Elts {
				bl, ok := e.(*ast.BasicLit)
				if !ok {
					return true
				}
				switch bl.Kind {
				case token.INT:
					v, err := strconv.ParseUint(bl.Value, 0, 8)
					if err != nil {
						return true
					}
					b = append(b, byte(v))
				case token.CHAR:
					s, err := strconv.Unquote(bl.Value)
					if err != nil || len(s) != 1 {
						return true
					}
					b = append(b, s[0])
				default:
					return true
				}
			}
			if len(b) >= 14 && len(b) <= 1600 {
				out = append(out, b)
			}
			return true
		})
	}
	return out
}

var (
	macA = []byte{0x00, 0x1b, 0x21, 0x3c, 0xab, 0x10}
	macB = []byte{0x52, 0x54, 0x00, 0x12, 0x35, 0x02}
)

// built fixtures: frames produced by the repository's own serializers.
func built(r *lib.Rand) [][]byte {
	var out [][]byte
	add := func(ls ...gopacket.SerializableLayer) {
		b := gopacket.NewSerializeBuffer()
		if err := gopacket.SerializeLayers(b, gopacket.SerializeOptions{FixLengths: true, ComputeChecksums: true}, ls...); err == nil {
			out = append(out, append([]byte(nil), b.Bytes()...))
		}
	}
	eth := func(t layers.EthernetType) *layers.Ethernet {
		return &layers.Ethernet{SrcMAC: net.HardwareAddr(macA), DstMAC: net.HardwareAddr(macB), EthernetType: t}
	}
	ip := &layers.IPv4{Version: 4, IHL: 5, TTL: 64, Protocol: layers.IPProtocolUDP, SrcIP: net.IP{10, 0, 0, 1}, DstIP: net.IP{10, 0, 0, 2}}
	udp := &layers.UDP{SrcPort: 1000, DstPort: 2000}
	udp.SetNetworkLayerForChecksum(ip)
	for _, n := range []int{0, 1, 17, 18, 19, 100} {
		add(eth(layers.EthernetTypeIPv4), ip, udp, gopacket.Payload(r.Bytes(n)))
		add(eth(layers.EthernetTypeDot1Q), &layers.Dot1Q{Priority: 5, DropEligible: true, VLANIdentifier: 100, Type: layers.EthernetTypeIPv4}, ip, udp, gopacket.Payload(r.Bytes(n)))
		add(eth(layers.EthernetTypeQinQ), &layers.Dot1Q{Priority: 1, VLANIdentifier: 4095, Type: layers.EthernetTypeDot1Q},
			&layers.Dot1Q{Priority: 7, VLANIdentifier: 1, Type: layers.EthernetTypeIPv4}, ip, udp, gopacket.Payload(r.Bytes(n)))
		add(eth(layers.EthernetTypeLLC), &layers.LLC{DSAP: 0x42, SSAP: 0x42, Control: 3}, gopacket.Payload(r.Bytes(n)))
		add(eth(layers.EthernetTypeLLC), gopacket.Payload(r.Bytes(n)))
		// Ethernet in Ethernet (transparent bridging) with a tag in between: re-uses parser objects
		add(eth(layers.EthernetTypeDot1Q), &layers.Dot1Q{VLANIdentifier: 7, Type: layers.EthernetTypeTransparentEthernetBridging},
			eth(layers.EthernetTypeLLC), gopacket.Payload(r.Bytes(n)))
	}
	add(eth(layers.EthernetTypeARP), gopacket.Payload(r.Bytes(28)))
	add(eth(0x1234), gopacket.Payload(r.Bytes(50)))
	return out
}

func hx(b []byte) string { return lib.Hex(b) }

func setU16(b []byte, off int, v int) []byte {
	c := append([]byte(nil), b...)
	if off+1 < len(c) {
		c[off] = byte(v >> 8)
		c[off+1] = byte(v)
	}
	return c
}

// ---------------------------------------------------------------- generator

func gen(r *lib.Rand, tier string, emit func(string)) {
	thorough := tier == "thorough"
	emit("reset")
	emit("leth nlttab")

	fx := append(built(r), harvest()...)
	// deterministic order, then a seeded shuffle so that different seeds favour different fixtures
	for i := len(fx) - 1; i > 0; i-- {
		j := r.Intn(i + 1)
		fx[i], fx[j] = fx[j], fx[i]
	}
	nfull := 120
	if thorough {
		nfull = len(fx)
	}
	if nfull > len(fx) {
		nfull = len(fx)
	}
	foreignOf := func(n int) []byte { return r.Bytes(n) }

	// dot1q fixtures: the tag + rest of every tagged frame
	var qfx [][]byte
	for _, f := range fx {
		if len(f) >= 18 && ((f[12] == 0x81 && f[13] == 0x00) || (f[12] == 0x88 && f[13] == 0xa8)) {
			qfx = append(qfx, f[14:])
		}
	}

	// A. every fixture through every decode path
	for i := 0; i < nfull; i++ {
		f := fx[i]
		emit("reset")
		emit("leth dec eth 0 - " + hx(f))
		k := 1 + r.Intn(40)
		emit(fmt.Sprintf("leth dec eth %d %s %s", k, hx(foreignOf(k)), hx(f)))
		emit("leth pb eth " + hx(f))
		emit("leth pkt eth copy 0 - " + hx(f))
		emit(fmt.Sprintf("leth pkt eth nocopy %d %s %s", k, hx(foreignOf(k)), hx(f)))
		emit("leth pkt eth lazy 0 - " + hx(f))
		emit("leth dlp " + hx(f))
		emit("leth flow " + hx(f))
		emit("leth rtdec eth " + hx(f))
	}
	for i, q := range qfx {
		if !thorough && i >= 40 {
			break
		}
		emit("reset")
		emit("leth dec dot1q 0 - " + hx(q))
		k := 1 + r.Intn(40)
		emit(fmt.Sprintf("leth dec dot1q %d %s %s", k, hx(foreignOf(k)), hx(q)))
		emit("leth pb dot1q " + hx(q))
		emit("leth pkt dot1q copy 0 - " + hx(q))
		emit(fmt.Sprintf("leth pkt dot1q nocopy %d %s %s", k, hx(foreignOf(k)), hx(q)))
		emit("leth pkt dot1q lazy 0 - " + hx(q))
		emit("leth rtdec dot1q " + hx(q))
	}

	// B. truncations 0…len (all for short fixtures / 802.3 frames, head and tail otherwise)
	ntr := 60
	if thorough {
		ntr = len(fx)
	}
	for i := 0; i < ntr && i < len(fx); i++ {
		f := fx[i]
		llc := int(f[12])<<8|int(f[13]) < 0x0600
		emit("reset")
		for n := 0; n <= len(f); n++ {
			if !(n <= 24 || n >= len(f)-2 || (llc && len(f) <= 200) || (thorough && len(f) <= 128) || r.Chance(3)) {
				continue
			}
			t := f[:n]
			k := r.Intn(8)
			emit(fmt.Sprintf("leth dec eth %d %s %s", k, hx(foreignOf(k)), hx(t)))
			if n <= 20 || r.Chance(20) {
				emit("leth pb eth " + hx(t))
				emit(fmt.Sprintf("leth pkt eth nocopy %d %s %s", k, hx(foreignOf(k)), hx(t)))
				emit("leth redlp " + hx(t))
			}
			if n <= 8 {
				emit(fmt.Sprintf("leth dec dot1q %d %s %s", k, hx(foreignOf(k)), hx(t)))
				emit("leth pb dot1q " + hx(t))
				emit(fmt.Sprintf("leth pkt dot1q nocopy %d %s %s", k, hx(foreignOf(k)), hx(t)))
				emit("leth pkt dot1q lazy 0 - " + hx(t))
			}
		}
	}

	// C. single-field mutations of the type/length field to boundary values
	bounds := []int{0, 1, 2, 3, 4, 45, 46, 47, 59, 60, 61, 100, 1499, 1500, 1501, 0x05fe, 0x05ff, 0x0600, 0x0601, 0x0800, 0x0806,
		0x6558, 0x8100, 0x86dd, 0x88a8, 0x8847, 0x9000, 0xfffe, 0xffff}
	nmut := 25
	if thorough {
		nmut = 200
	}
	for i := 0; i < nmut && i < len(fx); i++ {
		f := fx[r.Intn(len(fx))]
		if len(f) > 300 {
			f = f[:300]
		}
		pl := len(f) - 14
		emit("reset")
		for _, v := range append(append([]int(nil), bounds...), pl-1, pl, pl+1) {
			if v < 0 || v > 0xffff {
				continue
			}
			m := setU16(f, 12, v)
			emit("leth redec eth " + hx(m))
			emit("leth rtdec eth " + hx(m))
			if r.Chance(30) {
				emit("leth redlp " + hx(m))
				emit("leth pb eth " + hx(m))
			}
		}
	}
	// exhaustive type/length field (thorough: all 65536; quick: all lengths plus a sample of types)
	{
		base := append(append(append([]byte(nil), macB...), macA...), 0, 0)
		base = append(base, r.Bytes(20)...)
		emit("reset")
		for v := 0; v < 65536; v++ {
			if thorough || v < 0x0610 || r.Chance(1) {
				emit("leth redec eth " + hx(setU16(base, 12, v)))
			}
		}
		// exhaustive first two bytes of a Dot1Q tag
		emit("reset")
		tag := []byte{0, 0, 0x08, 0x00, 0xde, 0xad}
		for v := 0; v < 65536; v++ {
			if thorough || v%257 == 0 || v < 32 || r.Chance(2) {
				emit("leth redec dot1q " + hx(setU16(tag, 0, v)))
				if thorough || r.Chance(10) {
					emit("leth rtdec dot1q " + hx(setU16(tag, 0, v)))
				}
			}
		}
	}

	// D. stale-state sequences: ordered pairs/triples into the same objects (direct and via the parser)
	nseq := 150
	if thorough {
		nseq = 3000
	}
	pick := func() []byte {
		f := fx[r.Intn(len(fx))]
		switch r.Intn(8) {
		case 0:
			return f[:r.Intn(len(f)+1)] // truncated (maybe an error)
		case 1:
			return setU16(f, 12, r.Pick([]int{0, 3, 46, len(f) - 14, len(f) - 13, len(f) - 15, 0x5ff, 2000}) & 0xffff)
		case 2:
			return f[:r.Intn(14)] // always an error: the object must stay as it was
		}
		return f
	}
	for c := 0; c < nseq; c++ {
		emit("reset")
		n := 2 + r.Intn(3)
		for i := 0; i < n; i++ {
			f := pick()
			if len(f) > 400 {
				f = f[:400]
			}
			emit("leth redec eth " + hx(f))
			emit("leth redlp " + hx(f))
			if len(f) > 14 {
				emit("leth redec dot1q " + hx(f[14:]))
			} else {
				emit("leth redec dot1q " + hx(f))
			}
		}
	}

	// E. serialisation: in-range and out-of-range layer values, all four option sets, buffer histories
	psizes := []int{0, 1, 3, 45, 46, 47, 59, 60, 101, 1480, 1499, 1500, 1501, 1520, 1535, 1536, 1537}
	hists := []string{"fresh", "dirty165", "dirty90", "dirty255", "sized0", "sized14", "sized60", "sized3000"}
	macs := [][]byte{macA, macB, {0xff, 0xff, 0xff, 0xff, 0xff, 0xff}, {}, {1, 2, 3, 4, 5}, {1, 2, 3, 4, 5, 6, 7}, r.Bytes(6), r.Bytes(17)}
	types := []int{0, 0, 0, 1, 0x05ff, 0x0600, 0x0800, 0x0800, 0x8100, 0x86dd, 0xffff, 0x1234}
	lens := []int{0, 0, 0, 1, 46, 100, 1500, 0x05ff, 0x0600, 0x0601, 0xffff}
	nser := 700
	if thorough {
		nser = 20000
	}
	payloadTok := func(n int) string {
		if n > 200 && r.Chance(70) {
			return fmt.Sprintf("z%dx%02x", n, r.Intn(256))
		}
		return hx(r.Bytes(n))
	}
	for c := 0; c < nser; c++ {
		emit("reset")
		dst, src := macs[r.Intn(2)], macs[r.Intn(2)]
		if r.Chance(12) {
			dst = macs[r.Intn(len(macs))]
		}
		if r.Chance(12) {
			src = macs[r.Intn(len(macs))]
		}
		ty, ln := r.Pick(types), r.Pick(lens)
		if r.Chance(30) {
			ty = r.Intn(65536)
		}
		if r.Chance(20) {
			ln = r.Intn(65536)
		}
		if ty != 0 && r.Chance(70) {
			ln = 0 // coherent Ethernet II layer (a non-zero Length with an EtherType is always rejected)
		}
		n := r.Pick(psizes)
		if r.Chance(25) {
			n = r.Intn(1600)
		}
		emit(fmt.Sprintf("leth ser eth %d %d %s %s %s %d %d %s", r.Intn(2), r.Intn(2), hists[r.Intn(len(hists))], hx(dst), hx(src), ty, ln, payloadTok(n)))
		if r.Chance(60) {
			emit(fmt.Sprintf("leth rt eth %s %s %d %d %s", hx(dst), hx(src), ty, ln, payloadTok(n)))
		}
		prio, vlan := r.Intn(8), r.Intn(4096)
		if r.Chance(15) {
			prio = r.Intn(256)
		}
		if r.Chance(15) {
			vlan = r.Pick([]int{0, 1, 0xfff, 0x1000, 0x1001, 0xffff, r.Intn(65536)})
		}
		qn := r.Pick([]int{0, 1, 2, 3, 46, 101, 1500})
		emit(fmt.Sprintf("leth ser dot1q %d %d %s %d %d %d %d %s", r.Intn(2), r.Intn(2), hists[r.Intn(len(hists))], prio, r.Intn(2), vlan, r.Pick(types), payloadTok(qn)))
		if r.Chance(60) {
			emit(fmt.Sprintf("leth rt dot1q %d %d %d %d %s", prio, r.Intn(2), vlan, r.Pick(types), payloadTok(qn)))
		}
	}
	// every {fix,csum} x every history on the interesting Ethernet shapes
	for _, ty := range []int{0, 0x0800} {
		for _, ln := range []int{0, 7} {
			for _, n := range []int{0, 5, 46, 1536} {
				for fix := 0; fix < 2; fix++ {
					for cs := 0; cs < 2; cs++ {
						emit("reset")
						for _, h := range hists {
							emit(fmt.Sprintf("leth ser eth %d %d %s %s %s %d %d %s", fix, cs, h, hx(macA), hx(macB), ty, ln, payloadTok(n)))
						}
					}
				}
			}
		}
	}
	// payloads beyond 64 KiB (Ethernet II carries them; 802.3 cannot express them)
	big := []int{65535, 65536, 65537, 65536 + 46, 70000}
	if !thorough {
		big = []int{65536 + 46}
	}
	for _, n := range big {
		emit("reset")
		emit(fmt.Sprintf("leth ser eth 1 1 fresh %s %s %d 0 z%dx5a", hx(macA), hx(macB), 0x0800, n))
		emit(fmt.Sprintf("leth rt eth %s %s %d 0 z%dx5a", hx(macA), hx(macB), 0x0800, n))
		emit(fmt.Sprintf("leth ser eth 1 1 dirty165 %s %s 0 0 z%dx5a", hx(macA), hx(macB), n))
		emit(fmt.Sprintf("leth rt eth %s %s 0 0 z%dx5a", hx(macA), hx(macB), n))
		emit(fmt.Sprintf("leth rt dot1q 3 1 77 2048 z%dx5a", n))
	}

	// F. malformed stream: random bytes of every small length
	nmal := 300
	if thorough {
		nmal = 10000
	}
	for c := 0; c < nmal; c++ {
		emit("reset")
		n := r.Intn(40)
		if r.Chance(10) {
			n = r.Intn(1700)
		}
		d := r.Bytes(n)
		if n >= 14 && r.Chance(50) {
			d = setU16(d, 12, r.Intn(0x0600))
		}
		k := r.Intn(20)
		emit(fmt.Sprintf("leth dec eth %d %s %s", k, hx(foreignOf(k)), hx(d)))
		emit(fmt.Sprintf("leth dec dot1q %d %s %s", k, hx(foreignOf(k)), hx(d)))
		emit("leth dlp " + hx(d))
		emit("leth rtdec eth " + hx(d))
		if n >= 14 {
			emit("leth flow " + hx(d))
		}
	}
}
