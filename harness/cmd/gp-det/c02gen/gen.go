// Package c02gen is shared by the two C02 adapters (gp-det, gp-race): input generation
// (packets harvested from the repository's own tests, packets built with the repository's
// serialisers, mutations) and the deep canonical signature of a decoded packet.
package c02gen

import (
	"go/ast"
	"go/parser"
	"go/token"
	"net"
	"os"
	"path/filepath"
	"sort"
	"strconv"

	"github.com/gopacket/gopacket"
	"github.com/gopacket/gopacket/layers"
	"verif/harness/lib"
)

// Input is one decode job: first-layer decoder name (key of gopacket.DecodersByLayerName),
// DecodeStreamsAsDatagrams flag, bytes.
type Input struct {
	First string
	DSD   bool
	Data  []byte
	Kind  string // corpus | built | mutated | random (evidence only)
}

func (in Input) Flags() string {
	if in.DSD {
		return "d"
	}
	return "-"
}

// RepoDir is the tree the adapter was built against (the check exports VERIF_REPO).
func RepoDir() string {
	if d := os.Getenv("VERIF_REPO"); d != "" {
		return d
	}
	return "/repo"
}

// Harvest returns every []byte{...} literal (>= 14 constant elements) of layers/*_test.go and
// the top-level *_test.go files, in a deterministic order, without duplicates.
func Harvest(repo string) [][]byte {
	var files []string
	for _, pat := range []string{"layers/*_test.go", "*_test.go"} {
		m, _ := filepath.Glob(filepath.Join(repo, pat))
		sort.Strings(m)
		files = append(files, m...)
	}
	seen := map[string]bool{}
	var out [][]byte
	for _, f := range files {
		fs := token.NewFileSet()
		af, err := parser.ParseFile(fs, f, nil, 0)
		if err != nil {
			continue
		}
		ast.Inspect(af, func(n ast.Node) bool {
			cl, ok := n.(*ast.CompositeLit)
			if !ok {
				return true
			}
			at, ok := cl.Type.(*ast.ArrayType)
			if !ok || at.Len != nil {
				return true
			}
			if id, ok := at.Elt.(*ast.Ident); !ok || (id.Name != "byte" && id.Name != "uint8") {
				return true
			}
			b := make([]byte, 0, len(cl.Elts))
			for _, e := range cl.Elts {
				bl, ok := e.(*ast.BasicLit)
				if !ok {
					return true
				}
				switch bl.Kind {
				case token.INT:
					v, err := strconv.ParseUint(bl.Value, 0, 8)
					if err != nil {
						return true
					}
					b = append(b, byte(v))
				case token.CHAR:
					s, err := strconv.Unquote(bl.Value)
					if err != nil || len(s) != 1 {
						return true
					}
					b = append(b, s[0])
				default:
					return true
				}
			}
			if len(b) >= 14 && len(b) <= 4096 && !seen[string(b)] {
				seen[string(b)] = true
				out = append(out, b)
			}
			return true
		})
	}
	return out
}

// DecoderNames: sorted keys of the registry.
func DecoderNames() []string {
	var ns []string
	for n := range gopacket.DecodersByLayerName {
		ns = append(ns, n)
	}
	sort.Strings(ns)
	return ns
}

// preferred first layers, tried before the rest and winning ties
var preferred = []string{"Ethernet", "IPv4", "IPv6", "LinuxSLL", "Loopback", "RadioTap", "Dot11", "PPP", "TCP", "UDP", "DNS"}

// BestFirst picks the first-layer decoder under which the bytes decode into the most layers
// without an error layer (ties: preferred order).  Used only at generation time.
func BestFirst(data []byte) string {
	best, bestScore := "Ethernet", -1
	try := func(name string) {
		dec, ok := gopacket.DecodersByLayerName[name]
		if !ok || dec == nil {
			return
		}
		score := func() (s int) {
			defer func() {
				if recover() != nil {
					s = -1
				}
			}()
			p := gopacket.NewPacket(data, dec, gopacket.Default)
			n := len(p.Layers())
			if p.ErrorLayer() != nil {
				return n - 1
			}
			if p.Metadata().Truncated {
				return 2*n - 1
			}
			return 2 * n
		}()
		if score > bestScore {
			best, bestScore = name, score
		}
	}
	for _, n := range preferred {
		try(n)
	}
	if bestScore >= 6 { // three clean layers under a common link type: good enough
		return best
	}
	for _, n := range DecoderNames() {
		try(n)
	}
	return best
}

// ---------------------------------------------------------------- structured packets

var serOpts = gopacket.SerializeOptions{FixLengths: true, ComputeChecksums: true}

func ip4(r *lib.Rand, proto layers.IPProtocol) *layers.IPv4 {
	ip := &layers.IPv4{Version: 4, IHL: 5, TTL: uint8(1 + r.Intn(255)), Id: uint16(r.U64()), Protocol: proto,
		SrcIP: net.IP(r.Bytes(4)), DstIP: net.IP(r.Bytes(4))}
	if r.Chance(20) {
		ip.Options = []layers.IPv4Option{{OptionType: 7, OptionLength: 7, OptionData: r.Bytes(5)}, {OptionType: 0, OptionLength: 1}}
		ip.IHL = 7
	}
	return ip
}

func ip6(r *lib.Rand, nh layers.IPProtocol) *layers.IPv6 {
	return &layers.IPv6{Version: 6, HopLimit: uint8(1 + r.Intn(255)), NextHeader: nh, FlowLabel: uint32(r.Intn(1 << 20)),
		SrcIP: net.IP(r.Bytes(16)), DstIP: net.IP(r.Bytes(16))}
}

func payload(r *lib.Rand) []byte {
	switch r.Intn(6) {
	case 0:
		return nil
	case 1:
		return r.Bytes(1)
	case 2:
		return r.Bytes(1 + r.Intn(8))
	case 3:
		return r.Bytes(1400 + r.Intn(200))
	default:
		return r.Bytes(r.Intn(120))
	}
}

func tcpOpts(r *lib.Rand) []layers.TCPOption {
	var o []layers.TCPOption
	if r.Chance(40) {
		o = append(o, layers.TCPOption{OptionType: layers.TCPOptionKindMSS, OptionLength: 4, OptionData: r.Bytes(2)})
	}
	if r.Chance(30) {
		o = append(o, layers.TCPOption{OptionType: layers.TCPOptionKindTimestamps, OptionLength: 10, OptionData: r.Bytes(8)})
	}
	if r.Chance(30) {
		o = append(o, layers.TCPOption{OptionType: layers.TCPOptionKindNop, OptionLength: 1})
	}
	if r.Chance(20) {
		o = append(o, layers.TCPOption{OptionType: layers.TCPOptionKindSACKPermitted, OptionLength: 2})
	}
	return o
}

func dnsQuery(r *lib.Rand) *layers.DNS {
	return &layers.DNS{ID: uint16(r.U64()), RD: true, OpCode: layers.DNSOpCodeQuery, QDCount: 1,
		Questions: []layers.DNSQuestion{{Name: []byte("example" + strconv.Itoa(r.Intn(10)) + ".org"), Type: layers.DNSTypeA, Class: layers.DNSClassIN}}}
}

// Built builds one mostly valid packet of the core stack with the repository's serialisers.
// Returns the bytes, a name for the shape and whether DecodeStreamsAsDatagrams is interesting.
func Built(r *lib.Rand) (data []byte, shape string, dsd bool) {
	eth := &layers.Ethernet{SrcMAC: net.HardwareAddr(r.Bytes(6)), DstMAC: net.HardwareAddr(r.Bytes(6))}
	var ls []gopacket.SerializableLayer
	ls = append(ls, eth)
	shape = "eth"
	var vlan *layers.Dot1Q
	if r.Chance(15) {
		vlan = &layers.Dot1Q{VLANIdentifier: uint16(r.Intn(4096)), Priority: uint8(r.Intn(8))}
		eth.EthernetType = layers.EthernetTypeDot1Q
		ls = append(ls, vlan)
		shape += "/vlan"
	}
	setEtherType := func(t layers.EthernetType) {
		if vlan != nil {
			vlan.Type = t
		} else {
			eth.EthernetType = t
		}
	}
	v6 := r.Chance(35)
	type netl interface {
		gopacket.SerializableLayer
		gopacket.NetworkLayer
	}
	mkNet := func(proto layers.IPProtocol) netl {
		if v6 {
			return ip6(r, proto)
		}
		return ip4(r, proto)
	}
	var nl netl
	addNet := func(proto layers.IPProtocol) {
		nl = mkNet(proto)
		if len(ls) <= 2 {
			if v6 {
				setEtherType(layers.EthernetTypeIPv6)
			} else {
				setEtherType(layers.EthernetTypeIPv4)
			}
		}
		ls = append(ls, nl)
		if v6 {
			shape += "/ip6"
		} else {
			shape += "/ip4"
		}
	}
	pl := payload(r)
	opts := serOpts
	if r.Chance(12) {
		opts.ComputeChecksums = false // garbage checksums: the mismatch branch of the verifiers
	}
	kind := r.Intn(10)
	if kind == 6 { // GRE tunnel: outer IP, GRE, inner IP, UDP
		addNet(layers.IPProtocolGRE)
		g := &layers.GRE{Protocol: layers.EthernetTypeIPv4, ChecksumPresent: r.Bool(), KeyPresent: r.Chance(30), Key: uint32(r.U64()),
			SeqPresent: r.Chance(30), Seq: uint32(r.U64())}
		ls = append(ls, g)
		shape += "/gre"
		v6 = r.Chance(30)
		if v6 {
			g.Protocol = layers.EthernetTypeIPv6
		}
		kind = r.Intn(4)
	}
	switch kind {
	case 0, 1, 2:
		addNet(layers.IPProtocolTCP)
		t := &layers.TCP{SrcPort: layers.TCPPort(r.Intn(65536)), DstPort: layers.TCPPort(r.Intn(65536)), Seq: uint32(r.U64()), Ack: uint32(r.U64()),
			SYN: r.Bool(), ACK: r.Bool(), PSH: r.Bool(), FIN: r.Chance(10), Window: uint16(r.U64()), Options: tcpOpts(r)}
		t.SetNetworkLayerForChecksum(nl)
		ls = append(ls, t)
		shape += "/tcp"
		if r.Chance(15) {
			t.DstPort = 53
			d := dnsQuery(r)
			buf := gopacket.NewSerializeBuffer()
			if gopacket.SerializeLayers(buf, serOpts, d) == nil {
				b := buf.Bytes()
				pl = append([]byte{byte(len(b) >> 8), byte(len(b))}, b...)
				dsd = true
				shape += "/dns"
			}
		}
	case 3, 4:
		addNet(layers.IPProtocolUDP)
		u := &layers.UDP{SrcPort: layers.UDPPort(r.Intn(65536)), DstPort: layers.UDPPort(r.Intn(65536))}
		u.SetNetworkLayerForChecksum(nl)
		ls = append(ls, u)
		shape += "/udp"
		if r.Chance(30) {
			u.DstPort = 53
			d := dnsQuery(r)
			buf := gopacket.NewSerializeBuffer()
			if gopacket.SerializeLayers(buf, serOpts, d) == nil {
				pl = append([]byte(nil), buf.Bytes()...)
				shape += "/dns"
			}
		}
	case 5, 7:
		if v6 {
			addNet(layers.IPProtocolICMPv6)
			ic := &layers.ICMPv6{TypeCode: layers.CreateICMPv6TypeCode(uint8(128+r.Intn(2)), 0)}
			ic.SetNetworkLayerForChecksum(nl)
			ls = append(ls, ic)
			shape += "/icmp6"
			pl = append(r.Bytes(4), pl...) // echo id/seq
		} else {
			addNet(layers.IPProtocolICMPv4)
			ls = append(ls, &layers.ICMPv4{TypeCode: layers.CreateICMPv4TypeCode(uint8(8*r.Intn(2)), 0), Id: uint16(r.U64()), Seq: uint16(r.U64())})
			shape += "/icmp4"
		}
	case 8:
		addNet(layers.IPProtocolSCTP)
		shape += "/raw"
	default:
		// ARP / bare ethernet payload
		if r.Bool() {
			setEtherType(layers.EthernetTypeARP)
			ls = append(ls, &layers.ARP{AddrType: layers.LinkTypeEthernet, Protocol: layers.EthernetTypeIPv4, HwAddressSize: 6, ProtAddressSize: 4,
				Operation: 1, SourceHwAddress: r.Bytes(6), SourceProtAddress: r.Bytes(4), DstHwAddress: r.Bytes(6), DstProtAddress: r.Bytes(4)})
			shape += "/arp"
			pl = nil
		} else {
			setEtherType(layers.EthernetType(0x88b5))
			shape += "/exp"
		}
	}
	if len(pl) > 0 {
		ls = append(ls, gopacket.Payload(pl))
	}
	buf := gopacket.NewSerializeBuffer()
	if err := gopacket.SerializeLayers(buf, opts, ls...); err != nil {
		return nil, shape + "!sererr", false
	}
	data = append([]byte(nil), buf.Bytes()...)
	if r.Chance(25) { // link-layer trailer / padding after the IP datagram: payload slices end before cap
		data = append(data, r.Bytes(1+r.Intn(12))...)
		shape += "+trailer"
	}
	return data, shape, dsd
}

// Mutate returns a damaged copy.
func Mutate(r *lib.Rand, b []byte) []byte {
	c := append([]byte(nil), b...)
	if len(c) == 0 {
		return c
	}
	switch r.Intn(6) {
	case 0: // truncate
		c = c[:r.Intn(len(c))]
	case 1: // flip a few bytes
		for k := 0; k < 1+r.Intn(4); k++ {
			c[r.Intn(len(c))] ^= byte(1 << r.Intn(8))
		}
	case 2: // overwrite a byte in the first 64 (headers)
		n := len(c)
		if n > 64 {
			n = 64
		}
		c[r.Intn(n)] = byte(r.U64())
	case 3: // extend
		c = append(c, r.Bytes(1+r.Intn(16))...)
	case 4: // set a 16-bit word to an extreme
		if len(c) >= 2 {
			i := r.Intn(len(c) - 1)
			v := []uint16{0, 1, 0xffff, 0x8000, uint16(len(c))}[r.Intn(5)]
			c[i], c[i+1] = byte(v>>8), byte(v)
		}
	default: // splice two halves
		i := r.Intn(len(c))
		c = append(c[:i:i], c[r.Intn(len(c)):]...)
	}
	return c
}

// Inputs produces the deterministic input stream shared by both engines:
// the harvested corpus, then nBuilt built packets, each followed by mutations with
// probability mutPct, then nRandom short random inputs under several first layers.
func Inputs(r *lib.Rand, nCorpus, nBuilt, mutPct, nRandom int) []Input {
	var out []Input
	corpus := Harvest(RepoDir())
	if nCorpus >= 0 && len(corpus) > nCorpus {
		// deterministic thinning: keep an evenly spaced subset
		var sub [][]byte
		for i := 0; i < nCorpus; i++ {
			sub = append(sub, corpus[i*len(corpus)/nCorpus])
		}
		corpus = sub
	}
	for _, b := range corpus {
		f := BestFirst(b)
		out = append(out, Input{First: f, DSD: false, Data: b, Kind: "corpus"})
		if f == "Ethernet" || f == "IPv4" || f == "IPv6" || f == "LinuxSLL" {
			out = append(out, Input{First: f, DSD: true, Data: b, Kind: "corpus"})
		}
		if r.Chance(mutPct) {
			out = append(out, Input{First: f, Data: Mutate(r, b), Kind: "mutated"})
		}
	}
	for i := 0; i < nBuilt; i++ {
		b, _, dsd := Built(r)
		if b == nil {
			continue
		}
		out = append(out, Input{First: "Ethernet", DSD: dsd, Data: b, Kind: "built"})
		if r.Chance(mutPct) {
			out = append(out, Input{First: "Ethernet", DSD: dsd, Data: Mutate(r, b), Kind: "mutated"})
		}
		if r.Chance(10) && len(b) > 14 { // start at the network layer
			f := "IPv4"
			if b[14]>>4 == 6 {
				f = "IPv6"
			}
			if b[12] == 0x08 && b[13] == 0x00 || b[12] == 0x86 && b[13] == 0xdd {
				out = append(out, Input{First: f, DSD: dsd, Data: b[14:], Kind: "built"})
			}
		}
	}
	firsts := []string{"Ethernet", "IPv4", "IPv6", "TCP", "UDP", "ICMPv4", "ICMPv6", "GRE", "DNS"}
	for i := 0; i < nRandom; i++ {
		out = append(out, Input{First: firsts[r.Intn(len(firsts))], Data: r.Bytes(r.Intn(80)), Kind: "random"})
	}
	return out
}
