package c02gen

import (
	"encoding/hex"
	"fmt"
	"reflect"
	"regexp"
	"sort"
	"strings"

	"github.com/gopacket/gopacket"
)

// Sig is the deep canonical signature of a decoded packet as a list of named segments
// (so that a difference can be reported by name).  It only READS the packet.
type Sig []string

func (s Sig) String() string { return strings.Join(s, "\n") }

// Diff names the first differing segment ("" when equal).
func (s Sig) Diff(t Sig) string {
	for i := 0; i < len(s) && i < len(t); i++ {
		if s[i] != t[i] {
			a, b := s[i], t[i]
			if len(a) > 160 {
				a = a[:160] + "…"
			}
			if len(b) > 160 {
				b = b[:160] + "…"
			}
			return fmt.Sprintf("segment %d: %q vs %q", i, a, b)
		}
	}
	if len(s) != len(t) {
		return fmt.Sprintf("%d vs %d segments", len(s), len(t))
	}
	return ""
}

func hx(b []byte) string {
	if len(b) == 0 {
		return "-"
	}
	return hex.EncodeToString(b)
}

// OnPanic / AfterCall are hooks for the adapters: every accessor of the packet is called
// through call(where, …); OnPanic sees a recovered panic value (gp-det recognises memory faults on
// its write-protected input there), AfterCall runs after the accessor returned (gp-det compares the
// input buffer and its guard zones).
var (
	OnPanic   func(where string, r interface{})
	AfterCall func(where string)
)

// call runs f and renders a panic as the answer "panic" (rendering panics are C01's subject;
// for C02 a reader only has to get the SAME answer every time).
func call(where string, f func() string) (s string) {
	defer func() {
		if r := recover(); r != nil {
			s = "panic"
			if OnPanic != nil {
				OnPanic(where, r)
			}
		}
		if AfterCall != nil {
			AfterCall(where)
		}
	}()
	return f()
}

// Call is call for the adapters.
func Call(where string, f func() string) string { return call(where, f) }

// Fields renders all exported fields of a value by reflection: no methods are called, no
// addresses or map orders leak into the result.
func Fields(v interface{}) string {
	var b strings.Builder
	walk(&b, reflect.ValueOf(v), 0, map[uintptr]bool{})
	return b.String()
}

func walk(b *strings.Builder, v reflect.Value, depth int, seen map[uintptr]bool) {
	if !v.IsValid() {
		b.WriteString("nil")
		return
	}
	if depth > 7 {
		b.WriteString("…")
		return
	}
	switch v.Kind() {
	case reflect.Ptr:
		if v.IsNil() {
			b.WriteString("nil")
			return
		}
		if seen[v.Pointer()] {
			b.WriteString("&cycle")
			return
		}
		seen[v.Pointer()] = true
		b.WriteByte('&')
		walk(b, v.Elem(), depth+1, seen)
		delete(seen, v.Pointer())
	case reflect.Interface:
		if v.IsNil() {
			b.WriteString("nil")
			return
		}
		b.WriteString(v.Elem().Type().String())
		b.WriteByte(':')
		walk(b, v.Elem(), depth+1, seen)
	case reflect.Struct:
		t := v.Type()
		b.WriteByte('{')
		for i := 0; i < v.NumField(); i++ {
			f := t.Field(i)
			if f.PkgPath != "" { // unexported
				continue
			}
			b.WriteString(f.Name)
			b.WriteByte(':')
			walk(b, v.Field(i), depth+1, seen)
			b.WriteByte(' ')
		}
		b.WriteByte('}')
	case reflect.Slice, reflect.Array:
		if v.Kind() == reflect.Slice && v.IsNil() {
			b.WriteString("nil")
			return
		}
		if v.Type().Elem().Kind() == reflect.Uint8 {
			n := v.Len()
			bs := make([]byte, n)
			for i := 0; i < n; i++ {
				bs[i] = byte(v.Index(i).Uint())
			}
			b.WriteString(hx(bs))
			return
		}
		b.WriteByte('[')
		for i := 0; i < v.Len() && i < 2048; i++ {
			walk(b, v.Index(i), depth+1, seen)
			b.WriteByte(' ')
		}
		b.WriteByte(']')
	case reflect.Map:
		if v.IsNil() {
			b.WriteString("nil")
			return
		}
		var items []string
		for _, k := range v.MapKeys() {
			var kb, vb strings.Builder
			walk(&kb, k, depth+1, seen)
			walk(&vb, v.MapIndex(k), depth+1, seen)
			items = append(items, kb.String()+"=>"+vb.String())
		}
		sort.Strings(items)
		b.WriteString("map[" + strings.Join(items, " ") + "]")
	case reflect.Func, reflect.Chan, reflect.UnsafePointer:
		if v.IsNil() {
			b.WriteString("nil")
		} else {
			b.WriteString("fn")
		}
	case reflect.String:
		fmt.Fprintf(b, "%q", v.String())
	case reflect.Bool:
		fmt.Fprintf(b, "%v", v.Bool())
	case reflect.Int, reflect.Int8, reflect.Int16, reflect.Int32, reflect.Int64:
		fmt.Fprintf(b, "%d", v.Int())
	case reflect.Uint, reflect.Uint8, reflect.Uint16, reflect.Uint32, reflect.Uint64, reflect.Uintptr:
		fmt.Fprintf(b, "%d", v.Uint())
	case reflect.Float32, reflect.Float64:
		fmt.Fprintf(b, "%v", v.Float())
	case reflect.Complex64, reflect.Complex128:
		fmt.Fprintf(b, "%v", v.Complex())
	default:
		b.WriteString("?")
	}
}

func indexOf(ls []gopacket.Layer, l interface{}) int {
	if l == nil || reflect.ValueOf(l).Kind() == reflect.Ptr && reflect.ValueOf(l).IsNil() {
		return -1
	}
	for i, x := range ls {
		if sameLayer(x, l) {
			return i
		}
	}
	return -2 // a layer that is not in Layers()
}

// sameLayer: identity for pointer layers, value equality for the few value-typed layers
// (comparing those with == panics when the struct holds slices).
func sameLayer(a, b interface{}) bool {
	va, vb := reflect.ValueOf(a), reflect.ValueOf(b)
	if va.Type() != vb.Type() {
		return false
	}
	if va.Kind() == reflect.Ptr {
		return va.Pointer() == vb.Pointer()
	}
	if va.Type().Comparable() {
		defer func() { recover() }()
		return a == b
	}
	return reflect.DeepEqual(a, b)
}

// Structure: layers (types, contents, payload, all exported fields), special-layer indices,
// flows, metadata.  No String()/Dump()/VerifyChecksum calls.
func Structure(p gopacket.Packet) Sig {
	var s Sig
	ls := p.Layers()
	s = append(s, fmt.Sprintf("nlayers=%d data=%s", len(ls), hx(p.Data())))
	for i, l := range ls {
		s = append(s, fmt.Sprintf("L%d type=%v contents=%s payload=%s", i, call("LayerType", func() string { return l.LayerType().String() }), hx(l.LayerContents()), hx(l.LayerPayload())))
		s = append(s, fmt.Sprintf("L%d fields=%s", i, call("Fields", func() string { return Fields(l) })))
	}
	var li, ni, ti, ai, ei interface{}
	if x := p.LinkLayer(); x != nil {
		li = x
		s = append(s, "linkflow="+call("LinkFlow", func() string { return x.LinkFlow().String() }))
	}
	if x := p.NetworkLayer(); x != nil {
		ni = x
		s = append(s, "netflow="+call("NetworkFlow", func() string { return x.NetworkFlow().String() }))
	}
	if x := p.TransportLayer(); x != nil {
		ti = x
		s = append(s, "transflow="+call("TransportFlow", func() string { return x.TransportFlow().String() }))
	}
	if x := p.ApplicationLayer(); x != nil {
		ai = x
		s = append(s, "apppayload="+call("ApplicationPayload", func() string { return hx(x.Payload()) }))
	}
	if x := p.ErrorLayer(); x != nil {
		ei = x
		s = append(s, "error=set")
	}
	s = append(s, fmt.Sprintf("special link=%d net=%d trans=%d app=%d err=%d", indexOf(ls, li), indexOf(ls, ni), indexOf(ls, ti), indexOf(ls, ai), indexOf(ls, ei)))
	m := p.Metadata()
	s = append(s, fmt.Sprintf("meta trunc=%v caplen=%d len=%d", m.Truncated, m.CaptureLength, m.Length))
	for i, l := range ls { // Layer(t) returns the first layer of that type
		t := l.LayerType()
		s = append(s, fmt.Sprintf("Layer(%d)=%d", int64(t), indexOf(ls, p.Layer(t))))
		_ = i
	}
	return s
}

// noErrText removes the error message of a DecodeFailure line: error texts are never compared
// (a recovered bounds panic quotes the slice capacity, which legitimately differs with the
// place the bytes live; WHERE a decoder fails is compared through the layer structure).
var reErrText = regexp.MustCompile(`(DecodeFailure\t)[^\n]*`)

func noErrText(s string) string { return reErrText.ReplaceAllString(s, "${1}<error text>") }

// NoErrText is noErrText for the adapters.
func NoErrText(s string) string { return noErrText(s) }

// Rendering: String() of the packet and LayerString of every layer; Dump() only when the packet has
// no error layer (a DecodeFailure's dump is a goroutine stack trace: addresses, goroutine ids).
func Rendering(p gopacket.Packet) Sig {
	var s Sig
	s = append(s, "string="+noErrText(call("String", p.String)))
	for i, l := range p.Layers() {
		s = append(s, fmt.Sprintf("L%d string=%s", i, noErrText(call("LayerString", func() string { return gopacket.LayerString(l) }))))
	}
	if p.ErrorLayer() == nil {
		s = append(s, "dump="+call("Dump", p.Dump))
		for i, l := range p.Layers() {
			s = append(s, fmt.Sprintf("L%d dump=%s", i, call("LayerDump", func() string { return gopacket.LayerDump(l) })))
		}
	}
	return s
}

func layerName(l gopacket.Layer) (s string) {
	defer func() {
		if recover() != nil {
			s = "?"
		}
	}()
	return l.LayerType().String()
}

// Checksums: every layer's VerifyChecksum and Packet.VerifyChecksums (errors as "err").
func Checksums(p gopacket.Packet) Sig {
	var s Sig
	for i, l := range p.Layers() {
		if c, ok := l.(gopacket.LayerWithChecksum); ok {
			s = append(s, fmt.Sprintf("L%d verify=%s", i, call("VerifyChecksum:"+layerName(l), func() string {
				err, r := c.VerifyChecksum()
				if err != nil {
					return "err"
				}
				return fmt.Sprintf("%v %d %d", r.Valid, r.Correct, r.Actual)
			})))
		}
	}
	s = append(s, "verifychecksums="+call("VerifyChecksums", func() string {
		err, mm := p.VerifyChecksums()
		if err != nil {
			return "err"
		}
		var parts []string
		for _, m := range mm {
			parts = append(parts, fmt.Sprintf("%d:%v:%d:%d", m.LayerIndex, m.Valid, m.Correct, m.Actual))
		}
		return fmt.Sprintf("%d[%s]", len(mm), strings.Join(parts, ","))
	}))
	return s
}

// AttachNetworkLayers performs the documented setup step for transport checksums
// (SetNetworkLayerForChecksum with the enclosing network layer); it MUTATES the layers and is
// therefore done once, before a packet is shared.  Returns how many layers were set up.
func AttachNetworkLayers(p gopacket.Packet) int {
	n := 0
	var cur gopacket.NetworkLayer
	for _, l := range p.Layers() {
		if nl, ok := l.(gopacket.NetworkLayer); ok {
			cur = nl
			continue
		}
		if s, ok := l.(interface {
			SetNetworkLayerForChecksum(gopacket.NetworkLayer) error
		}); ok && cur != nil {
			func() {
				defer func() { recover() }()
				if s.SetNetworkLayerForChecksum(cur) == nil {
					n++
				}
			}()
		}
	}
	return n
}

// Full = Structure ++ Rendering ++ Checksums.
func Full(p gopacket.Packet) Sig {
	s := Structure(p)
	s = append(s, Rendering(p)...)
	s = append(s, Checksums(p)...)
	return s
}
