// gp-det: model-less engine `det` of property C02 ("what decoding returns depends only on the
// bytes, the first layer type and the options: decoding the same bytes again, after any other
// packets have been decoded, or while other goroutines decode other packets, yields an identical
// packet, and the caller's input buffer is never written to").  It runs monitors on the REAL code;
// the Lean side (Gp.Props.C02.Effects) is the effect model the monitors instantiate.
//
// Op (cases are `reset` followed by several ops; the history of packets decoded earlier in the case
// is the "unrelated traffic" of the following ops):
//
//	det <first> <flags> <hex>     -> ok <nlayers> <signature-hash> | hang | bad-op
//
//	first  key of gopacket.DecodersByLayerName;  flags  "d" = DecodeStreamsAsDatagrams, "-" none
//
// For one input the adapter decodes the bytes
//
//	(base) with default options from a buffer with cap == len                → signature S
//	(a)    again, immediately
//	(b)    again after decoding the earlier packets of the case and six fixed packets
//	(c)    again (default and Pool) while three goroutines keep decoding other packets
//	       (default and Pool+Dispose, so pool blocks circulate)
//	(d)    with NoCopy inside buffers with 0 / 7 / 64 bytes of spare capacity holding
//	       0x00 / 0xff / pseudo-random foreign bytes, and with Pool after the pool was dirtied
//	(e)    with default options, NoCopy and Pool from a WRITE-PROTECTED memory mapping
//	       (mprotect PROT_READ; debug.SetPanicOnFault turns a store into a recoverable panic
//	       carrying the fault address): detects writes that store the same values
//	(f)    finally takes the signature of the packet decoded FIRST once more
//
// and compares deep canonical signatures (c02gen.Full: all layers, all exported fields by
// reflection, contents/payload bytes, special layers, flows, metadata, String/LayerString/Dump,
// every VerifyChecksum after the documented SetNetworkLayerForChecksum setup, VerifyChecksums).
// After NewPacket and after EVERY accessor call the input buffer and 64-byte guard zones before
// and after it are compared with their expected contents.
//
// Monitors (property C02):
//
//	det:nondeterministic:<Layer>       (a)/(b)/(c) signature differs from S  (<Layer> = type of the first
//	                                   layer that differs, see culprit())
//	det:cap-dependent:<Layer>          (d)/(e) signature differs from S (foreign bytes beyond len(data)
//	                                   or the place where the bytes live influenced the result)
//	det:input-written:<accessor>       the caller's buffer or a guard zone changed, or a store into
//	                                   the protected mapping faulted; accessor ∈ NewPacket, String,
//	                                   VerifyChecksum:<LayerType>, VerifyChecksums, …
//	det:packet-changed-later:<Layer>   (f) the packet decoded first answers differently after all the
//	                                   other decodes of the op (decoding is not side-effect free)
//	det:hang                           a decode/accessor did not return within 30 s
package main

import (
	"bytes"
	"fmt"
	"hash/fnv"
	"runtime/debug"
	"sync"
	"sync/atomic"
	"syscall"
	"time"
	"unsafe"

	"github.com/gopacket/gopacket"
	_ "github.com/gopacket/gopacket/layers"
	"verif/harness/cmd/gp-det/c02gen"
	"verif/harness/lib"
)

const P = "C02"
const guard = 64

type job struct {
	dec  gopacket.Decoder
	data []byte
	dsd  bool
}

var (
	history []job // packets decoded earlier in this case
	fixed   []job // six fixed packets (built once, deterministic)
	mapping []byte
	pageSz  = syscall.Getpagesize()
)

func initFixed() {
	if fixed != nil {
		return
	}
	r := lib.NewRand(424242)
	for len(fixed) < 6 {
		b, _, dsd := c02gen.Built(r)
		if b != nil {
			fixed = append(fixed, job{gopacket.DecodersByLayerName["Ethernet"], b, dsd})
		}
	}
	m, err := syscall.Mmap(-1, 0, 4*pageSz, syscall.PROT_READ|syscall.PROT_WRITE, syscall.MAP_ANON|syscall.MAP_PRIVATE)
	if err == nil {
		mapping = m
	}
}

func reset() { history = nil }

func exact(b []byte) []byte { // cap == len
	c := make([]byte, len(b))
	copy(c, b)
	return c[:len(b):len(b)]
}

func decodeQuiet(j job, opts gopacket.DecodeOptions) {
	defer func() { recover() }()
	opts.DecodeStreamsAsDatagrams = j.dsd
	p := gopacket.NewPacket(exact(j.data), j.dec, opts)
	if pp, ok := p.(gopacket.PooledPacket); ok {
		pp.Dispose()
	}
}

// ---------------------------------------------------------------- input-write detection

type watch struct {
	region []byte // input plus guard zones (and spare capacity)
	expect []byte
	prot   bool
	sigs   map[string]bool
	what   string
}

var cur *watch

var (
	opSigs   = map[string]bool{} // findings already raised for the current op
	sigCount = map[string]int{}  // per run: at most 25 findings per signature are written out
)

func unsafePtr(b []byte) unsafe.Pointer { return unsafe.Pointer(&b[0]) }

func finding(sig, what string) {
	if opSigs[sig] || sigCount[sig] >= 25 {
		return
	}
	opSigs[sig] = true
	sigCount[sig]++
	lib.Finding(P, sig, what)
}

func inMapping(addr uintptr) bool {
	if mapping == nil {
		return false
	}
	base := uintptr(unsafePtr(mapping))
	return addr >= base && addr < base+uintptr(len(mapping))
}

func report(sig, what string) {
	if cur != nil {
		cur.sigs[sig] = true
	}
	finding(sig, what)
}

func onPanic(where string, r interface{}) {
	if cur == nil || !cur.prot {
		return
	}
	if e, ok := r.(interface{ Addr() uintptr }); ok && inMapping(e.Addr()) {
		lib.Stat("fault:" + where)
		report("det:input-written:"+where, fmt.Sprintf("%s stored into the caller's write-protected input buffer (%s; fault at offset %d of the mapping, input at %d..%d)",
			where, cur.what, e.Addr()-uintptr(unsafePtr(mapping)), pageSz, pageSz+len(cur.expect)))
	}
}

func afterCall(where string) {
	if cur == nil || cur.prot {
		return
	}
	if !bytes.Equal(cur.region, cur.expect) {
		i := 0
		for i < len(cur.expect) && cur.region[i] == cur.expect[i] {
			i++
		}
		report("det:input-written:"+where, fmt.Sprintf("%s changed byte %d of the caller's buffer region (%s; input occupies %d..) from %02x to %02x", where, i, cur.what, guard, cur.expect[i], cur.region[i]))
		copy(cur.region, cur.expect)
	}
}

// ---------------------------------------------------------------- one decode + all accessors

// observe decodes buf and runs every accessor; returns the signature (nil if NewPacket panicked
// past recovery).
func observe(buf []byte, j job, opts gopacket.DecodeOptions, w *watch) (sig c02gen.Sig) {
	sig, _ = observeKeep(buf, j, opts, w)
	return sig
}

// signatureOf takes all accessor answers of an already decoded packet.
func signatureOf(p gopacket.Packet) (sig c02gen.Sig) {
	sig = c02gen.Structure(p)
	sig = append(sig, c02gen.Rendering(p)...)
	c02gen.AttachNetworkLayers(p)
	sig = append(sig, c02gen.Checksums(p)...)
	sig = append(sig, "string-after-verify="+c02gen.NoErrText(c02gen.Call("String", p.String)))
	return sig
}

func observeKeep(buf []byte, j job, opts gopacket.DecodeOptions, w *watch) (sig c02gen.Sig, kept gopacket.Packet) {
	cur = w
	defer func() { cur = nil }()
	opts.DecodeStreamsAsDatagrams = j.dsd
	var p gopacket.Packet
	try := func(o gopacket.DecodeOptions) (panicked bool) {
		defer func() {
			if r := recover(); r != nil {
				onPanic("NewPacket", r)
				p, panicked = nil, true
			}
		}()
		p = gopacket.NewPacket(buf, j.dec, o)
		return false
	}
	if w != nil && w.prot {
		// a store into the protected input must not be swallowed by the decoder's own recover()
		o := opts
		o.SkipDecodeRecovery = true
		if try(o) {
			if len(w.sigs) > 0 {
				return nil, nil // it was a fault on the input: reported
			}
			try(opts) // some other decoder panic (C01/C19 matter): decode with recovery as usual
		}
	} else {
		try(opts)
	}
	if w != nil {
		afterCall("NewPacket")
	}
	if p == nil {
		return nil, nil
	}
	sig = c02gen.Structure(p)
	sig = append(sig, c02gen.Rendering(p)...)
	c02gen.AttachNetworkLayers(p)
	if w != nil {
		afterCall("SetNetworkLayerForChecksum")
	}
	sig = append(sig, c02gen.Checksums(p)...)
	sig = append(sig, "string-after-verify="+c02gen.NoErrText(c02gen.Call("String", p.String))) // rendering AFTER verification: must not have changed
	if pp, ok := p.(gopacket.PooledPacket); ok {
		pp.Dispose()
		return sig, nil
	}
	return sig, p
}

func fill(b []byte, kind int, seed uint64) {
	switch kind {
	case 0:
		for i := range b {
			b[i] = 0
		}
	case 1:
		for i := range b {
			b[i] = 0xff
		}
	default:
		r := lib.NewRand(seed)
		copy(b, r.Bytes(len(b)))
	}
}

// layerTypes extracts the layer type names from a signature ("L<i> type=<name> contents=…").
func layerTypes(s c02gen.Sig) []string {
	var out []string
	for _, seg := range s {
		var i int
		var name string
		if k, _ := fmt.Sscanf(seg, "L%d type=%s", &i, &name); k == 2 && i == len(out) {
			out = append(out, name)
		}
	}
	return out
}

// culprit names the layer whose decoding differs between two signatures of the same bytes: the
// type of the first layer that differs (in the variant unless that is the DecodeFailure), or of
// the last common layer; falls back to the first-layer name.  Only used to make signatures specific.
func culprit(base, variant c02gen.Sig, first string) string {
	a, b := layerTypes(base), layerTypes(variant)
	// first differing layer segment
	idx := -1
	for i := 0; i < len(base) && i < len(variant); i++ {
		if base[i] != variant[i] {
			var li int
			if k, _ := fmt.Sscanf(base[i], "L%d ", &li); k == 1 {
				idx = li
			}
			break
		}
	}
	if idx < 0 { // number of layers or a packet-level segment differs: first index where the types differ
		for idx = 0; idx < len(a) && idx < len(b) && a[idx] == b[idx]; idx++ {
		}
	}
	pick := func(ts []string, i int) string {
		if i >= 0 && i < len(ts) && ts[i] != "DecodeFailure" {
			return ts[i]
		}
		return ""
	}
	for _, c := range []string{pick(b, idx), pick(a, idx), pick(b, idx-1), pick(a, idx-1)} {
		if c != "" {
			return c
		}
	}
	return first
}

func execOne(first, flags string, data []byte, dec gopacket.Decoder) string {
	debug.SetPanicOnFault(true)
	initFixed()
	opSigs = map[string]bool{}
	j := job{dec, data, flags == "d"}
	n := len(data)
	lib.Stat("first:" + first)

	// (base)
	base, basePkt := observeKeep(exact(data), j, gopacket.Default, nil)
	if base == nil {
		lib.Stat("base-decode-panicked")
		return "ok 0 0"
	}
	nl := 0
	fmt.Sscanf(base[0], "nlayers=%d", &nl)
	lib.Stat(fmt.Sprintf("layers:%d", min(nl, 8)))
	if nl >= 2 {
		lib.Nontrivial()
	}
	differ := func(kind, how string, s c02gen.Sig) {
		if s == nil {
			finding("det:"+kind+":"+first, fmt.Sprintf("decoding %d bytes as %s %s: NewPacket panicked past recovery although the base decode did not", n, first, how))
			return
		}
		if d := base.Diff(s); d != "" {
			finding("det:"+kind+":"+culprit(base, s, first), fmt.Sprintf("decoding %d bytes as %s %s gives a different packet: %s", n, first, how, d))
		}
	}
	// (a)
	differ("nondeterministic", "a second time", observe(exact(data), j, gopacket.Default, nil))
	// (b)
	for _, h := range history {
		decodeQuiet(h, gopacket.Default)
	}
	for _, h := range fixed {
		decodeQuiet(h, gopacket.Default)
		decodeQuiet(h, gopacket.DecodeOptions{Pool: true})
	}
	lib.Stat(fmt.Sprintf("history:%d", min(len(history), 8)))
	differ("nondeterministic", fmt.Sprintf("after %d unrelated packets", len(history)+2*len(fixed)), observe(exact(data), j, gopacket.Default, nil))
	// (c)
	{
		var stop int32
		var started int32
		var wg sync.WaitGroup
		others := append(append([]job(nil), history...), fixed...)
		for g := 0; g < 3; g++ {
			wg.Add(1)
			go func(g int) {
				defer wg.Done()
				for k := 0; ; k++ {
					o := others[(g+k)%len(others)]
					decodeQuiet(o, gopacket.Default)
					decodeQuiet(o, gopacket.DecodeOptions{Pool: true})
					if k == 0 {
						atomic.AddInt32(&started, 1)
					}
					if atomic.LoadInt32(&stop) != 0 {
						return
					}
				}
			}(g)
		}
		for atomic.LoadInt32(&started) < 3 {
			time.Sleep(50 * time.Microsecond)
		}
		s1 := observe(exact(data), j, gopacket.Default, nil)
		s2 := observe(exact(data), j, gopacket.DecodeOptions{Pool: true}, nil)
		atomic.StoreInt32(&stop, 1)
		wg.Wait()
		differ("nondeterministic", "while three goroutines decode other packets", s1)
		differ("nondeterministic", "with Pool while three goroutines decode other packets", s2)
	}
	// (d) spare capacity with foreign bytes
	seed := uint64(n)*131 + uint64(len(history))
	for vi, tail := range []int{0, 7, 64, 64} {
		{
			kind := []int{0, 1, 2, 0}[vi]
			region := make([]byte, guard+n+tail+guard)
			fill(region, kind, seed)
			copy(region[guard:], data)
			buf := region[guard : guard+n : guard+n+tail]
			w := &watch{region: region, expect: append([]byte(nil), region...), sigs: map[string]bool{},
				what: fmt.Sprintf("NoCopy, first=%s, %d spare bytes of kind %d", first, tail, kind)}
			lib.Stat(fmt.Sprintf("variant:nocopy-tail%d", tail))
			if s := observe(buf, j, gopacket.NoCopy, w); len(w.sigs) == 0 { // (a reported write was undone under the packet's feet: not comparable)
				differ("cap-dependent", fmt.Sprintf("with NoCopy inside a buffer with %d spare bytes (fill kind %d)", tail, kind), s)
			}
		}
	}
	if n <= 1500 {
		// dirty the pool: blocks come back holding 0xEE / 0x11 bytes beyond len(data)
		for _, v := range []byte{0xee, 0x11} {
			big := bytes.Repeat([]byte{v}, 1500)
			decodeQuiet(job{gopacket.DecodersByLayerName["Payload"], big, false}, gopacket.DecodeOptions{Pool: true})
			region := make([]byte, guard+n+guard)
			fill(region, 2, seed+uint64(v))
			copy(region[guard:], data)
			w := &watch{region: region, expect: append([]byte(nil), region...), sigs: map[string]bool{}, what: "Pool, first=" + first}
			lib.Stat("variant:pool")
			differ("cap-dependent", fmt.Sprintf("with Pool (pool blocks pre-filled with %02x)", v), observe(region[guard:guard+n:guard+n], j, gopacket.DecodeOptions{Pool: true}, w))
		}
	} else {
		lib.Stat("variant:pool-oversize")
		differ("cap-dependent", "with Pool (larger than a pool block)", observe(exact(data), j, gopacket.DecodeOptions{Pool: true}, nil))
	}
	// (e) write-protected input
	if mapping != nil && n <= 2*pageSz-guard {
		for vi, opts := range []gopacket.DecodeOptions{{NoCopy: true}, {}, {Pool: true}} {
			for _, spare := range []int{0, 32} {
				if vi > 0 && spare > 0 {
					continue
				}
				syscall.Mprotect(mapping, syscall.PROT_READ|syscall.PROT_WRITE)
				fill(mapping, 2, seed+7)
				copy(mapping[pageSz:], data)
				syscall.Mprotect(mapping, syscall.PROT_READ)
				buf := mapping[pageSz : pageSz+n : pageSz+n+spare]
				name := []string{"NoCopy", "default options", "Pool"}[vi]
				w := &watch{prot: true, expect: data, sigs: map[string]bool{}, what: fmt.Sprintf("%s, first=%s, %d spare bytes, read-only mapping", name, first, spare)}
				lib.Stat("variant:protected-" + name)
				if s := observe(buf, j, opts, w); len(w.sigs) == 0 { // a faulting store was reported; the accessor did not complete
					differ("cap-dependent", "from a write-protected buffer with "+name, s)
				}
			}
		}
		syscall.Mprotect(mapping, syscall.PROT_READ|syscall.PROT_WRITE)
	}
	// (f) side-effect freedom: everything decoded since must have left the FIRST packet alone
	if basePkt != nil {
		if d := base.Diff(signatureOf(basePkt)); d != "" {
			finding("det:packet-changed-later:"+culprit(base, signatureOf(basePkt), first), fmt.Sprintf("a packet decoded from %d bytes as %s answers differently after other packets were decoded: %s", n, first, d))
		}
	}
	history = append(history, j)
	if len(history) > 12 {
		history = history[1:]
	}
	h := fnv.New64a()
	h.Write([]byte(base.String()))
	return fmt.Sprintf("ok %d %016x", nl, h.Sum64())
}

func exec(a []string) string {
	if len(a) != 4 || a[0] != "det" {
		return "bad-op"
	}
	first, flags := a[1], a[2]
	data, ok := lib.UnHex(a[3])
	dec, okd := gopacket.DecodersByLayerName[first]
	if !ok || !okd || dec == nil || (flags != "-" && flags != "d") || len(data) > 1<<16 {
		return "bad-op"
	}
	done := make(chan string, 1)
	go func() {
		reply, _ := lib.Protect(func() string { return execOne(first, flags, data, dec) })
		done <- reply
	}()
	select {
	case r := <-done:
		return r
	case <-time.After(30 * time.Second):
		lib.Finding(P, "det:hang", "decoding or an accessor did not return within 30s (first="+first+")")
		return "hang"
	}
}

func gen(r *lib.Rand, tier string, emit func(string)) {
	nCorpus, nBuilt, nRandom := 180, 220, 60
	if tier == "thorough" {
		nCorpus, nBuilt, nRandom = -1, 5000, 1500
	}
	ins := c02gen.Inputs(r, nCorpus, nBuilt, 30, nRandom)
	for i, in := range ins {
		if i%8 == 0 {
			emit("reset")
		}
		emit(fmt.Sprintf("det %s %s %s", in.First, in.Flags(), lib.Hex(in.Data)))
	}
}

func main() {
	c02gen.OnPanic = onPanic
	c02gen.AfterCall = afterCall
	lib.Main(lib.Engine{Name: "det", Gen: gen, Reset: reset, Exec: exec})
}
