// gp-reasm: correspondence adapter for engine `reasm` (C09, reassembly half of C11):
// drives the real reassembly.Assembler / StreamPool (reassembly/tcpassembly.go, memory.go)
// with layers.TCP values, a scripted Stream/StreamFactory and integer timestamps.
//
// Ops (one per line, see notes/reasm.md):
//
//	reasm opts <maxPerConn> <maxTotal>
//	reasm stream <conn> <dir> <isn> <hexS>          declare the sender stream (monitor oracle only)
//	reasm seg <conn> <dir> <seq> <flags> <ts> <acc> <keep> <cmpl> <hex>
//	reasm flush <T> <TC> <keep> <cmpl>
//	reasm flushall <keep> <cmpl>
//	reasm seqdiff <s> <t> | reasm seqadd <s> <n>
//
// Reply: `ok [f=<flushed> c=<closed>] u=<pages used> n=<conns> q=<queued pages> s=<saved pages>`
// followed by ` ; <event>` per callback: `new c sid`, `sg c sid dir skip start end savedhex newhex`,
// `done c sid answer`.  Events of a flush are grouped by connection id (map order is random).
package main

import (
	"bytes"
	"fmt"
	"regexp"
	"runtime/debug"
	"sort"
	"strconv"
	"strings"
	"time"

	"github.com/gopacket/gopacket"
	"github.com/gopacket/gopacket/layers"
	"github.com/gopacket/gopacket/reassembly"
	"verif/harness/lib"
)

const pageBytes = 1900

// ---------------------------------------------------------------- scripted stream

type event struct {
	conn int
	text string
}

type stream struct {
	conn, sid int
	completed int
	removed   bool // answer given to ReassemblyComplete
	sgs       int
}

type actx struct{ ci gopacket.CaptureInfo }

func (c *actx) GetCaptureInfo() gopacket.CaptureInfo { return c.ci }

var (
	pool    *reassembly.StreamPool
	asm     *reassembly.Assembler
	streams []*stream
	events  []event
	dead    bool

	// per-op callback answers
	curConn  int
	curAcc   int
	curKeep  string
	curCmpl  string
	curOp    string // seg | flush | flushall
	curT     int    // cut-off T of the flush being executed
	optPer   int
	optTotal int

	oracles map[[2]int]*oracle // (conn,dir as sent) -> oracle
	// a flush with a close cut-off ran: halves may have been closed without the stream seeing `end`
	closingFlush bool
	segsFed      int  // segments fed in this case
	optsLate     bool // limits were changed after segments had been fed: the bound is not monitored
	multiPage    bool // a packet larger than one page was fed
	pendingFed   bool // the oracle has not been told about the current segment yet

	// whole-run state (survives reset)
	hangs        int  // operations that did not return
	giveUp       bool // two operations hung: the real code is not driven any more, every op answers `dead`
	lostSegments int  // reasm:queue:lost-segment findings so far
)

type factory struct{}

func (factory) New(netFlow, tcpFlow gopacket.Flow, tcp *layers.TCP, ac reassembly.AssemblerContext) reassembly.Stream {
	s := &stream{conn: curConn, sid: len(streams)}
	streams = append(streams, s)
	events = append(events, event{s.conn, fmt.Sprintf("new %d %d", s.conn, s.sid)})
	lib.Stat("stream-new")
	firstDir[s.sid] = curSeg.dir
	// a new connection object: whatever an earlier incarnation of this flow saw does not count
	// (`used` still describes the operations BEFORE this one: the current segment is fed below)
	for d := 0; d < 2; d++ {
		if o := oracles[[2]int{s.conn, d}]; o != nil && o.used {
			oracles[[2]int{s.conn, d}] = &oracle{S: o.S, isn: o.isn, covered: make([]bool, len(o.S)), reopen: true}
			lib.Stat("stream-reopened")
		}
	}
	feedPending()
	return s
}

// feedPending tells the oracle about the segment being processed — once, and before any callback that
// delivers data: from New (new connection), else from Accept, else after the operation.
func feedPending() {
	if pendingFed {
		pendingFed = false
		monSegFed(curSeg.conn, curSeg.dir, curSeg.seq, curSeg.flags, curSeg.acc, curSeg.pay, curSeg.ts)
	}
}

func (s *stream) Accept(tcp *layers.TCP, ci gopacket.CaptureInfo, dir reassembly.TCPFlowDirection, nextSeq reassembly.Sequence, start *bool, ac reassembly.AssemblerContext) bool {
	feedPending()
	if s.completed > 0 {
		lib.Stat("accept-after-complete")
	}
	switch curAcc {
	case 0:
		return false
	case 2:
		*start = true
	}
	return true
}

func keepOffset(rule string, total int) int {
	if rule == "" || rule == "n" {
		return -1
	}
	n, _ := strconv.Atoi(rule[1:])
	switch rule[0] {
	case 'a':
		return n
	case 'e':
		if total-n < 0 {
			return 0
		}
		return total - n
	case 'm':
		if n <= 0 {
			return -1
		}
		return total - total%n
	}
	return -1
}

func b2i(b bool) int {
	if b {
		return 1
	}
	return 0
}

func (s *stream) ReassembledSG(sg reassembly.ScatterGather, ac reassembly.AssemblerContext) {
	total, saved := sg.Lengths()
	dir, start, end, skip := sg.Info()
	all := append([]byte(nil), sg.Fetch(total)...)
	if saved > total || saved < 0 {
		lib.Finding("C09", "reasm:sg:saved-length", fmt.Sprintf("Lengths() = (%d,%d)", total, saved))
		saved = 0
	}
	off := keepOffset(curKeep, total)
	if off >= 0 {
		sg.KeepFrom(off)
		lib.Stat("keepfrom")
	}
	s.sgs++
	events = append(events, event{s.conn, fmt.Sprintf("sg %d %d %d %d %d %d %s %s", s.conn, s.sid, b2i(bool(dir)), skip, b2i(start), b2i(end), lib.Hex(all[:saved]), lib.Hex(all[saved:]))})
	monSG(s, bool(dir), skip, start, end, all[:saved], all[saved:], off)
}

func (s *stream) ReassemblyComplete(ac reassembly.AssemblerContext) bool {
	s.completed++
	if s.completed > 1 {
		lib.Finding("C11", "reasm:complete-twice", fmt.Sprintf("stream %d of conn %d got ReassemblyComplete %d times", s.sid, s.conn, s.completed))
	}
	ans := false
	switch curCmpl {
	case "1":
		ans = true
	case "p":
		ans = s.conn%2 == 0
	}
	s.removed = ans
	events = append(events, event{s.conn, fmt.Sprintf("done %d %d %d", s.conn, s.sid, b2i(ans))})
	lib.Stat("complete")
	return ans
}

// ---------------------------------------------------------------- monitors (independent of the Lean model)

type oracle struct {
	S        []byte
	isn      uint32
	c2s      int  // direction bit as reported by the SG (learned), -1 unknown
	started  bool // a start (SYN, or a start forced by Accept) was accepted by the half
	unsynced bool // data was released before any start: position unknown from here on
	pos      int  // replay position in S
	kept     []byte
	haveKept bool
	covered  []bool
	skipped  int
	ended    bool
	bad      bool
	sawLimit bool
	used     bool // a segment of this direction was fed to the current incarnation
	reopen   bool // second incarnation of the connection id: completeness is not checked
	// classification tags for signatures
	synRetxData bool
	finQueued   bool
	// bookkeeping for the queue guard and the age-flush monitors: accepted segments with payload, as fed
	fed     []fedSeg
	overlap bool // a fed segment overlapped an undelivered one: the bookkeeping below is not exact any more
}

// fedSeg: payload [off, off+n) of the sender stream, seen at integer time ts.
type fedSeg struct{ off, n, ts int }

// exact: the oracle knows exactly which fed segments are still queued (those with off >= pos).
func (o *oracle) exact() bool {
	return !o.bad && !o.unsynced && !o.reopen && !o.overlap && !o.ended
}

func oracleFor(conn int, dir int) *oracle {
	return oracles[[2]int{conn, dir}]
}

// which sent-direction does an SG direction bit correspond to?  The first packet of a
// connection defines client->server (dir bit 0).
type segRec struct {
	conn, dir int
	seq       uint32
	flags     string
	acc       int
	pay       []byte
	ts        int
}

var curSeg segRec

var firstDir = map[int]int{} // sid -> sent dir of the connection's first packet

func monSG(s *stream, dir bool, skip int, start, end bool, saved, nw []byte, keepOff int) {
	if s.completed > 0 {
		lib.Finding("C11", "reasm:data-after-complete", fmt.Sprintf("stream %d of conn %d got ReassembledSG after ReassemblyComplete", s.sid, s.conn))
	}
	fd, ok := firstDir[s.sid]
	if !ok {
		return
	}
	sent := fd
	if dir {
		sent = 1 - fd
	}
	o := oracleFor(s.conn, sent)
	if o == nil {
		return
	}
	all := append(append([]byte(nil), saved...), nw...)
	defer func() {
		// what the stream asked to keep must come back, unchanged, in front of the next new data
		if keepOff >= 0 && keepOff <= len(all) {
			o.kept = append([]byte(nil), all[keepOff:]...)
		} else {
			o.kept = nil
		}
		o.haveKept = true
		if end {
			o.ended = true
		}
	}()
	if o.haveKept && !bytes.Equal(saved, o.kept) && !(skip != 0 && len(saved) == 0) {
		lib.Finding("C09", "reasm:sg:kept-bytes", fmt.Sprintf("conn %d dir %d: stream kept %d bytes (%s) but the next SG presents %d saved bytes (%s)", s.conn, sent, len(o.kept), lib.Hex(trunc(o.kept)), len(saved), lib.Hex(trunc(saved))))
	}
	if o.bad {
		return
	}
	if skip == -1 {
		if o.started {
			o.bad = true
			lib.Finding("C09", "reasm:sg:skip-1-after-start", fmt.Sprintf("conn %d dir %d: skip=-1 although the start of the stream was seen", s.conn, sent))
			return
		}
		o.unsynced = true
		lib.Stat("sg-skip-1")
		return
	}
	if o.unsynced {
		return
	}
	if skip < 0 {
		o.bad = true
		lib.Finding("C09", "reasm:sg:negative-skip", fmt.Sprintf("conn %d dir %d: skip=%d", s.conn, sent, skip))
		return
	}
	if skip > 0 {
		lib.Stat("sg-skip-pos")
		if curOp == "seg" && optPer <= 0 && optTotal <= 0 {
			o.bad = true
			lib.Finding("C09", "reasm:sg:gap-without-flush", fmt.Sprintf("conn %d dir %d: Assemble without limits released data beyond a gap (skip=%d)", s.conn, sent, skip))
			return
		}
		if curOp == "seg" {
			o.sawLimit = true
			lib.Stat("sg-limit-release")
		}
	}
	o.pos += skip
	o.skipped += skip
	if o.pos+len(nw) > len(o.S) || !bytes.Equal(nw, o.S[o.pos:o.pos+len(nw)]) {
		o.bad = true
		tag := ""
		if o.synRetxData {
			tag += "+synretx-data"
		}
		if o.finQueued && o.sawLimit {
			tag += "+fin-queued-limit"
		}
		want := []byte{}
		if o.pos <= len(o.S) {
			want = o.S[o.pos:imin(len(o.S), o.pos+len(nw))]
		}
		lib.Finding("C09", "reasm:sg:content"+tag, fmt.Sprintf("conn %d dir %d: new bytes at stream offset %d (after skip %d) are %s, sender stream has %s", s.conn, sent, o.pos, skip, lib.Hex(trunc(nw)), lib.Hex(trunc(want))))
		return
	}
	if curOp == "flush" && len(nw) > 0 && !o.overlap && !o.reopen {
		// age clause 2: the first new byte of a ScatterGather released by an age flush was seen before T
		for _, f := range o.fed {
			if f.off <= o.pos && o.pos < f.off+f.n {
				if f.ts >= curT {
					lib.Finding("C11", "reasm:age-flush:new-data-released", fmt.Sprintf("conn %d dir %d: FlushWithOptions{T=%d} released bytes at offset %d seen at t=%d, not behind older data", s.conn, sent, curT, o.pos, f.ts))
				} else {
					lib.Stat("age-flush-old-group")
				}
				break
			}
		}
	}
	o.pos += len(nw)
	if len(nw) > 0 {
		lib.Stat("sg-data-ok")
	}
}

func trunc(b []byte) []byte {
	if len(b) > 24 {
		return b[:24]
	}
	return b
}

func imin(a, b int) int {
	if a < b {
		return a
	}
	return b
}

// monSegFed notes what the sender put on the wire (for coverage / completeness).
func monSegFed(conn, dir int, seq uint32, flags string, acc int, payload []byte, tsn int) {
	o := oracleFor(conn, dir)
	if o == nil {
		return
	}
	o.used = true
	if acc == 0 || o.ended {
		return
	}
	syn := strings.Contains(flags, "S")
	base := o.isn + 1
	off := int(int32(seq - base))
	if syn {
		off = int(int32(seq + 1 - base))
		if o.started && len(payload) > 0 {
			o.synRetxData = true
		}
	}
	if acc == 2 && !syn && !o.started {
		// the stream itself forces a start in the middle: outside the property (no start was SEEN)
		o.unsynced = true
	}
	if syn && !o.started && !o.unsynced {
		o.started = true
	}
	if strings.Contains(flags, "F") && !syn {
		if !o.started || off > o.pos {
			o.finQueued = true
		}
	}
	for i := range payload {
		if off+i >= 0 && off+i < len(o.covered) {
			o.covered[off+i] = true
		}
	}
	if len(payload) > 0 {
		lo, hi := off, off+len(payload)
		for _, f := range o.fed {
			if f.off+f.n > o.pos && lo < f.off+f.n && f.off < hi {
				o.overlap = true
			}
		}
		if lo < 0 || hi > len(o.S) {
			o.overlap = true
		}
		o.fed = append(o.fed, fedSeg{lo, len(payload), tsn})
	}
}

// monQueueGuard (C09): a segment that was accepted beyond a gap and has not been handed over must be in the
// queue of its half connection.  If the exact oracles know of such segments and the pool queues NOTHING, the
// segment can never be delivered (e.g. a page linked behind a stale half.last): reported at once, and the case
// is abandoned before the corrupted lists can make a later operation spin.
func monQueueGuard() {
	if closingFlush || dead {
		return
	}
	want, where := 0, ""
	for k, o := range oracles {
		if !o.exact() {
			continue
		}
		for _, f := range o.fed {
			if f.off >= o.pos && (f.off > o.pos || !o.started) {
				want++
				where = fmt.Sprintf("conn %d dir %d: bytes [%d,%d) accepted at t=%d, %d delivered", k[0], k[1], f.off, f.off+f.n, f.ts, o.pos)
			}
		}
	}
	if want == 0 {
		return
	}
	lib.Stat("queue-guard-checked")
	if q, _, _ := pool.VerifPages(); q == 0 {
		dead = true
		lostSegments++
		lib.Finding("C09", "reasm:queue:lost-segment", fmt.Sprintf("%d accepted out-of-order segment(s) are in no queue and can never be delivered (%s)", want, where))
	}
}

// monAfterFlush (C11, age clause 1): after FlushWithOptions{T} (no close cut-off) no connection may still wait
// on queued data seen before T.
func monAfterFlush(T int) {
	if closingFlush || dead {
		return
	}
	for k, o := range oracles {
		if !o.exact() {
			continue
		}
		for _, f := range o.fed {
			if f.off >= o.pos && (f.off > o.pos || !o.started) && f.ts < T {
				lib.Finding("C11", "reasm:age-flush:old-data-left", fmt.Sprintf("conn %d dir %d: after FlushWithOptions{T=%d} bytes [%d,%d) seen at t=%d are still queued (%d delivered)", k[0], k[1], T, f.off, f.off+f.n, f.ts, o.pos))
				break
			}
		}
	}
}

// monEndOfCase: after the final FlushAll.
func monAfterFlushAll() {
	// C11: every kept stream completed exactly once; removed connections are gone; no page in use
	remain := 0
	for _, s := range streams {
		if s.completed == 0 {
			lib.Finding("C11", "reasm:never-completed", fmt.Sprintf("stream %d of conn %d never got ReassemblyComplete although FlushAll ran", s.sid, s.conn))
		}
		if s.completed > 0 && !s.removed {
			remain++
		}
	}
	if n := pool.VerifConnCount(); n > remain {
		lib.Finding("C11", "reasm:flushall-conns-remain", fmt.Sprintf("after FlushAll %d connections are in the pool, %d streams refused removal", n, remain))
	}
	if u := asm.VerifPagesUsed(); u != 0 {
		_, _, sv := pool.VerifPages()
		sig := "reasm:flushall-pages-used"
		if sv == u {
			sig += ":saved"
		}
		lib.Finding("C11", sig, fmt.Sprintf("after FlushAll %d pages are still in use (%d of them saved pages of live connections)", u, sv))
	}
	// C09 completeness: every byte and the start arrived, nothing was skipped => everything delivered
	for k, o := range oracles {
		if o.bad || o.unsynced || !o.started || o.reopen || closingFlush {
			continue
		}
		full := true
		for _, c := range o.covered {
			full = full && c
		}
		if full && o.skipped == 0 && !o.sawLimit && o.pos != len(o.S) && !o.ended {
			lib.Finding("C09", "reasm:complete:missing-bytes", fmt.Sprintf("conn %d dir %d: all %d bytes and the start arrived, %d delivered", k[0], k[1], len(o.S), o.pos))
		}
		if full && o.pos == len(o.S) {
			lib.Stat("stream-fully-delivered")
			if len(o.S) >= 4 {
				lib.Nontrivial()
			}
		}
	}
}

// monLimit: C11 limit bound after an Assemble step.
func monLimit(npay int) {
	if (optPer <= 0 && optTotal <= 0) || optsLate {
		return
	}
	tag := ""
	if multiPage {
		tag = ":multipage"
	}
	pk := (npay + pageBytes - 1) / pageBytes
	queued, maxHalf, _ := pool.VerifPages()
	if optPer > 0 && maxHalf > optPer+pk {
		lib.Finding("C11", "reasm:limit:per-connection"+tag, fmt.Sprintf("MaxBufferedPagesPerConnection=%d, packet of %d page(s): a half connection holds %d queued pages", optPer, pk, maxHalf))
	}
	if optTotal > 0 && queued > optTotal+pk {
		lib.Finding("C11", "reasm:limit:total"+tag, fmt.Sprintf("MaxBufferedPagesTotal=%d, packet of %d page(s): %d pages queued", optTotal, pk, queued))
	}
}

// ---------------------------------------------------------------- executor

func reset() {
	// A fresh pool allocates 1024 connection objects on first use; when the previous case left the
	// pool and the page cache empty (checked through the hooks) the objects are reused.
	if pool == nil || dead || pool.VerifConnCount() != 0 || asm.VerifPagesUsed() != 0 {
		pool = reassembly.NewStreamPool(factory{})
		asm = reassembly.NewAssembler(pool)
	}
	asm.MaxBufferedPagesPerConnection, asm.MaxBufferedPagesTotal = 0, 0
	streams = nil
	events = nil
	dead = false
	optPer, optTotal = 0, 0
	oracles = map[[2]int]*oracle{}
	firstDir = map[int]int{}
	closingFlush = false
	segsFed, optsLate, multiPage = 0, false, false
}

func ts(n int) time.Time { return time.Unix(1000000+int64(n), 0) }

func okKeep(r string) bool {
	if r == "n" {
		return true
	}
	if len(r) < 2 || !strings.ContainsRune("aem", rune(r[0])) {
		return false
	}
	n, err := strconv.Atoi(r[1:])
	if err != nil || n < 0 || n > 1<<20 {
		return false
	}
	return !(r[0] == 'm' && n == 0)
}

func okCmpl(r string) bool { return r == "0" || r == "1" || r == "p" }

func status() string {
	q, _, s := pool.VerifPages()
	return fmt.Sprintf("u=%d n=%d q=%d s=%d", asm.VerifPagesUsed(), pool.VerifConnCount(), q, s)
}

func renderEvents(grouped bool) string {
	evs := events
	if grouped {
		sort.SliceStable(evs, func(i, j int) bool { return evs[i].conn < evs[j].conn })
	}
	var sb strings.Builder
	for _, e := range evs {
		sb.WriteString(" ; ")
		sb.WriteString(e.text)
	}
	return sb.String()
}

var (
	panicMsg, panicSite string
	siteRe              = regexp.MustCompile(`reassembly/[a-z_]+\.go:\d+`)
)

// guarded runs f with a watchdog; a panic inside f is converted to "panic <kind>".
func guarded(f func()) (res string) {
	done := make(chan string, 1)
	go func() {
		defer func() {
			if v := recover(); v != nil {
				panicMsg = fmt.Sprint(v)
				panicSite = "?"
				if m := siteRe.FindString(string(debug.Stack())); m != "" {
					panicSite = m
				}
				done <- "panic " + lib.PanicKind(v)
			}
		}()
		f()
		done <- ""
	}()
	wd := time.NewTimer(10 * time.Second)
	defer wd.Stop()
	select {
	case r := <-done:
		return r
	case <-wd.C:
		dead = true
		hangs++
		if hangs >= 2 {
			// the real code spins (every hung operation leaves a goroutine burning a CPU): stop driving it, so
			// that the run ends and what the monitors found is reported instead of a timeout of the whole run
			giveUp = true
		}
		if lostSegments == 0 {
			lib.Finding("*", "reasm:hang:"+curOp, "operation did not return within 10 s")
		} else {
			lib.Stat("hang-after-lost-segment") // consequence of the corrupted queue already reported
		}
		return "hang"
	}
}

func exec(a []string) string {
	if len(a) < 2 || a[0] != "reasm" {
		return "bad-op"
	}
	switch a[1] {
	case "seqdiff", "seqadd":
		if len(a) != 4 {
			return "bad-op"
		}
		s, e1 := strconv.ParseInt(a[2], 10, 64)
		t, e2 := strconv.ParseInt(a[3], 10, 64)
		if e1 != nil || e2 != nil || s < 0 || s > 0xffffffff {
			return "bad-op"
		}
		if a[1] == "seqadd" {
			if t < -(1<<40) || t > 1<<40 {
				return "bad-op"
			}
			got := int64(reassembly.Sequence(s).Add(int(t)))
			want := ((s+t)%(1<<32) + (1 << 32)) % (1 << 32)
			if got != want {
				lib.Finding("C09", "reasm:seqadd-wrap", fmt.Sprintf("Sequence(%d).Add(%d) = %d, want %d", s, t, got, want))
			}
			lib.Stat("seqadd")
			return "ok " + strconv.FormatInt(got, 10)
		}
		if t < 0 || t > 0xffffffff {
			return "bad-op"
		}
		got := reassembly.Sequence(s).Difference(reassembly.Sequence(t))
		// mathematical definition: the representative of t-s (mod 2^32) in [-2^31, 2^31);
		// the property only speaks about distances below 2^30
		d := (t - s) % (1 << 32)
		if d < 0 {
			d += 1 << 32
		}
		if d >= 1<<31 {
			d -= 1 << 32
		}
		if d > -(1<<30) && d < 1<<30 && int64(got) != d {
			lib.Finding("C09", "reasm:seqdiff-wrap", fmt.Sprintf("Sequence(%d).Difference(%d) = %d, want %d", s, t, got, d))
		}
		lib.Stat("seqdiff")
		return "ok " + strconv.Itoa(got)
	}
	if dead || giveUp {
		if giveUp {
			lib.Stat("gave-up")
		}
		return "dead"
	}
	switch a[1] {
	case "opts":
		if len(a) != 4 {
			return "bad-op"
		}
		p, ok1 := lib.Atoi(a[2])
		t, ok2 := lib.Atoi(a[3])
		if !ok1 || !ok2 || p < 0 || t < 0 {
			return "bad-op"
		}
		optPer, optTotal = p, t
		if segsFed > 0 {
			optsLate = true
		}
		asm.MaxBufferedPagesPerConnection = p
		asm.MaxBufferedPagesTotal = t
		if p > 0 || t > 0 {
			lib.Stat("opts-limit")
		}
		return "ok"
	case "stream":
		if len(a) != 6 {
			return "bad-op"
		}
		c, ok1 := lib.Atoi(a[2])
		d, ok2 := lib.Atoi(a[3])
		isn, ok3 := lib.Atou(a[4])
		S, ok4 := lib.UnHex(a[5])
		if !ok1 || !ok2 || !ok3 || !ok4 || c < 0 || c > 1000 || d < 0 || d > 1 || isn > 0xffffffff {
			return "bad-op"
		}
		_, again := oracles[[2]int{c, d}]
		oracles[[2]int{c, d}] = &oracle{S: S, isn: uint32(isn), covered: make([]bool, len(S)), reopen: again}
		return "ok"
	case "seg":
		if len(a) != 11 {
			return "bad-op"
		}
		c, ok1 := lib.Atoi(a[2])
		d, ok2 := lib.Atoi(a[3])
		seq, ok3 := lib.Atou(a[4])
		flags := a[5]
		tsn, ok5 := lib.Atoi(a[6])
		acc, ok6 := lib.Atoi(a[7])
		keep, cmpl := a[8], a[9]
		pay, ok9 := lib.UnHex(a[10])
		if !ok1 || !ok2 || !ok3 || !ok5 || !ok6 || !ok9 || c < 0 || c > 1000 || d < 0 || d > 1 || seq > 0xffffffff ||
			tsn < 0 || tsn > 1<<30 || acc < 0 || acc > 2 || !okKeep(keep) || !okCmpl(cmpl) || len(pay) > 1<<16 {
			return "bad-op"
		}
		for _, ch := range flags {
			if !strings.ContainsRune("SFRA-", ch) {
				return "bad-op"
			}
		}
		tcp := &layers.TCP{
			SrcPort: layers.TCPPort(1000 + d), DstPort: layers.TCPPort(1001 - d),
			Seq: uint32(seq), Ack: 0,
			SYN: strings.Contains(flags, "S"), FIN: strings.Contains(flags, "F"),
			RST: strings.Contains(flags, "R"), ACK: strings.Contains(flags, "A"),
		}
		tcp.Payload = append([]byte(nil), pay...)
		tcp.SetInternalPortsForTesting()
		ipA := []byte{10, byte(c >> 8), byte(c), 1}
		ipB := []byte{10, byte(c >> 8), byte(c), 2}
		var nf gopacket.Flow
		if d == 0 {
			nf = gopacket.NewFlow(layers.EndpointIPv4, ipA, ipB)
		} else {
			nf = gopacket.NewFlow(layers.EndpointIPv4, ipB, ipA)
		}
		curConn, curAcc, curKeep, curCmpl, curOp = c, acc, keep, cmpl, "seg"
		events = events[:0]
		segsFed++
		if len(pay) > pageBytes {
			multiPage = true
		}
		curSeg = segRec{c, d, uint32(seq), flags, acc, pay, tsn}
		pendingFed = true
		r := guarded(func() {
			asm.AssembleWithContext(nf, tcp, &actx{gopacket.CaptureInfo{Timestamp: ts(tsn)}})
		})
		if r == "" {
			feedPending()
		}
		pendingFed = false
		lib.Stat("seg")
		if len(pay) > pageBytes {
			lib.Stat("seg-multipage")
		}
		if r != "" {
			dead = true
			if r != "hang" { // a hang was reported by the watchdog itself
				lib.Finding("*", "reasm:"+strings.ReplaceAll(r, " ", ":")+":"+panicSite, "AssembleWithContext panicked: "+panicMsg)
			}
			return r
		}
		monLimit(len(pay))
		monQueueGuard()
		return "ok " + status() + renderEvents(false)
	case "flush":
		if len(a) != 6 {
			return "bad-op"
		}
		t, ok1 := lib.Atoi(a[2])
		tc, ok2 := lib.Atoi(a[3])
		if !ok1 || !ok2 || t < 0 || tc < 0 || t > 1<<30 || tc > 1<<30 || !okKeep(a[4]) || !okCmpl(a[5]) {
			return "bad-op"
		}
		curAcc, curKeep, curCmpl, curOp, curT = 1, a[4], a[5], "flush", t
		if tc > 0 {
			closingFlush = true
		}
		events = events[:0]
		var fl, cl int
		r := guarded(func() {
			fl, cl = asm.FlushWithOptions(reassembly.FlushOptions{T: ts(t), TC: ts(tc)})
		})
		lib.Stat("flush")
		if r != "" {
			dead = true
			if r != "hang" { // a hang was reported by the watchdog itself
				lib.Finding("*", "reasm:"+strings.ReplaceAll(r, " ", ":")+":"+panicSite, "FlushWithOptions panicked: "+panicMsg)
			}
			return r
		}
		monAfterFlush(t)
		monQueueGuard()
		return fmt.Sprintf("ok f=%d c=%d %s", fl, cl, status()) + renderEvents(true)
	case "flushall":
		if len(a) != 4 || !okKeep(a[2]) || !okCmpl(a[3]) {
			return "bad-op"
		}
		curAcc, curKeep, curCmpl, curOp = 1, a[2], a[3], "flushall"
		events = events[:0]
		var cl int
		r := guarded(func() { cl = asm.FlushAll() })
		lib.Stat("flushall")
		if r != "" {
			dead = true
			if r != "hang" { // a hang was reported by the watchdog itself
				lib.Finding("*", "reasm:"+strings.ReplaceAll(r, " ", ":")+":"+panicSite, "FlushAll panicked: "+panicMsg)
			}
			return r
		}
		monAfterFlushAll()
		return fmt.Sprintf("ok c=%d %s", cl, status()) + renderEvents(true)
	}
	return "bad-op"
}

func main() {
	reset()
	lib.Main(lib.Engine{Name: "reasm", Gen: gen, Reset: reset, Exec: exec})
}
