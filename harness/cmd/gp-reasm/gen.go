package main

// Generators of engine `reasm` (see notes/reasm.md).  Every random choice comes from r.

import (
	"fmt"

	"verif/harness/lib"
)

type segm struct {
	off   int // offset in S of the first payload byte
	n     int
	syn   bool
	fin   bool
	rst   bool
	empty bool
}

type flowGen struct {
	conn, dir int
	isn       uint32
	S         []byte
	segs      []segm
	next      int
}

type cgen struct {
	r    *lib.Rand
	emit func(string)
	ts   int
	keep string // case-level keep style: "", "mix" or a rule
	cmpl string
}

func (g *cgen) tick() int {
	g.ts += g.r.Intn(3)
	return g.ts
}

func (g *cgen) keepRule() string {
	switch g.keep {
	case "":
		return "n"
	case "mix":
		switch g.r.Intn(5) {
		case 0:
			return fmt.Sprintf("a%d", g.r.Intn(12))
		case 1:
			return fmt.Sprintf("e%d", 1+g.r.Intn(6))
		case 2:
			return fmt.Sprintf("m%d", 2+g.r.Intn(6))
		}
		return "n"
	}
	return g.keep
}

func pickKeepStyle(r *lib.Rand) string {
	switch x := r.Intn(100); {
	case x < 45:
		return ""
	case x < 65:
		return fmt.Sprintf("m%d", r.Pick([]int{2, 3, 5, 7, 16, 1000, 1900, 2000}))
	case x < 75:
		return fmt.Sprintf("e%d", r.Pick([]int{1, 2, 3, 8, 1899, 1901, 2500}))
	case x < 85:
		return fmt.Sprintf("a%d", r.Pick([]int{0, 0, 1, 2, 3, 5, 9, 1900, 4000}))
	}
	return "mix"
}

func pickCmpl(r *lib.Rand) string {
	switch x := r.Intn(100); {
	case x < 60:
		return "1"
	case x < 75:
		return "0"
	}
	return "p"
}

func pickISN(r *lib.Rand, n int) uint32 {
	few := uint32(r.Intn(7)) - 3
	switch r.Intn(12) {
	case 0:
		return 0
	case 1:
		return 0xffffffff - uint32(r.Intn(3))
	case 2: // wrap at a random place inside S
		return uint32(0x100000000 - int64(1+r.Intn(n+2)))
	case 3: // payload byte 0 is exactly at 0 / SYN at 2^32-1 ... last byte at 2^32-1
		return uint32(0x100000000 - int64(n) - int64(r.Intn(3)))
	case 4:
		return 1<<30 + few
	case 5:
		return 3<<30 + few
	case 6:
		return 1<<31 + few
	case 7:
		return uint32(0x100000000 - int64(n/2) - 1)
	case 8:
		return uint32(r.Intn(1000))
	}
	return uint32(r.U64())
}

func pickLen(r *lib.Rand, tier string) int {
	x := r.Intn(100)
	switch {
	case x < 35:
		return 1 + r.Intn(8)
	case x < 70:
		return 9 + r.Intn(52)
	case x < 85:
		return 61 + r.Intn(340)
	}
	if tier == "thorough" {
		return 1901 + r.Intn(6000)
	}
	return 1901 + r.Intn(3000)
}

// partition [0,n) into chunks
func partition(r *lib.Rand, n int) []segm {
	var out []segm
	style := r.Intn(4)
	for o := 0; o < n; {
		var l int
		switch style {
		case 0:
			l = 1 + r.Intn(4)
		case 1:
			l = 1 + r.Intn(40)
		case 2:
			l = 1 + r.Intn(2600)
		default:
			l = 1 + r.Intn(1+n/2)
		}
		if o+l > n {
			l = n - o
		}
		out = append(out, segm{off: o, n: l})
		o += l
	}
	return out
}

func shuffle(r *lib.Rand, s []segm) {
	for i := len(s) - 1; i > 0; i-- {
		j := r.Intn(i + 1)
		s[i], s[j] = s[j], s[i]
	}
}

func insertAt(s []segm, i int, x segm) []segm {
	s = append(s, segm{})
	copy(s[i+1:], s[i:])
	s[i] = x
	return s
}

// buildFlow makes the wire history of one direction.
func buildFlow(r *lib.Rand, tier string, conn, dir int, short bool) *flowGen {
	n := pickLen(r, tier)
	if short {
		n = 1 + r.Intn(30)
	}
	f := &flowGen{conn: conn, dir: dir, S: r.Bytes(n)}
	f.isn = pickISN(r, n)
	segs := partition(r, n)
	// FIN / RST
	switch x := r.Intn(100); {
	case x < 40:
		segs[len(segs)-1].fin = true
	case x < 60:
		segs = append(segs, segm{off: n, n: 0, fin: true, empty: true})
	case x < 68:
		segs = append(segs, segm{off: n, n: 0, rst: true, empty: true})
	}
	// order
	switch r.Intn(6) {
	case 0, 1: // in order
	case 2: // reversed
		for i, j := 0, len(segs)-1; i < j; i, j = i+1, j-1 {
			segs[i], segs[j] = segs[j], segs[i]
		}
	case 3:
		shuffle(r, segs)
	default: // a few local swaps
		for k := r.Intn(4); k >= 0 && len(segs) > 1; k-- {
			i := r.Intn(len(segs) - 1)
			j := i + 1 + r.Intn(imin(3, len(segs)-1-i))
			segs[i], segs[j] = segs[j], segs[i]
		}
	}
	// duplicates and overlapping retransmissions (consistent data)
	for k := r.Intn(5); k > 0; k-- {
		var x segm
		if r.Bool() && len(segs) > 0 {
			x = segs[r.Intn(len(segs))]
			x.fin = x.fin && r.Bool()
		} else {
			a := r.Intn(n)
			l := 1 + r.Intn(imin(n-a, 1+r.Pick([]int{3, 10, 60, 3000})))
			x = segm{off: a, n: l}
		}
		segs = insertAt(segs, r.Intn(len(segs)+1), x)
	}
	// empty ACK-only segments
	if r.Chance(20) {
		segs = insertAt(segs, r.Intn(len(segs)+1), segm{off: r.Intn(n + 1), n: 0, empty: true})
	}
	// SYN
	syn := segm{off: 0, n: 0, syn: true, empty: true}
	if r.Chance(15) { // SYN carrying data
		syn.n = 1 + r.Intn(imin(n, 5))
		syn.empty = false
	}
	switch x := r.Intn(100); {
	case x < 65:
		segs = insertAt(segs, 0, syn)
	case x < 80:
		segs = insertAt(segs, r.Intn(len(segs)+1), syn)
	case x < 90: // retransmitted SYN
		segs = insertAt(segs, 0, syn)
		s2 := syn
		if r.Chance(30) {
			s2.n = imin(n, 1+r.Intn(4))
			s2.empty = false
		}
		segs = insertAt(segs, 1+r.Intn(len(segs)), s2)
	default: // start never seen
	}
	f.segs = segs
	return f
}

func (g *cgen) emitStream(f *flowGen) {
	g.emit(fmt.Sprintf("reasm stream %d %d %d %s", f.conn, f.dir, f.isn, lib.Hex(f.S)))
}

func (g *cgen) emitSeg(f *flowGen, s segm) {
	seq := f.isn + 1 + uint32(s.off)
	flags := "A"
	if s.syn {
		seq = f.isn
		flags = "S"
	}
	if s.fin {
		flags += "F"
	}
	if s.rst {
		flags += "R"
	}
	acc := 1
	if x := g.r.Intn(100); x < 2 {
		acc = 0
	} else if x < 3 {
		acc = 2
	}
	g.emit(fmt.Sprintf("reasm seg %d %d %d %s %d %d %s %s %s", f.conn, f.dir, seq, flags, g.tick(), acc, g.keepRule(), g.cmpl, lib.Hex(f.S[s.off:s.off+s.n])))
}

func (g *cgen) emitFlush() {
	t := g.ts - 2 + g.r.Intn(6)
	if t < 0 {
		t = 0
	}
	tc := 0
	switch x := g.r.Intn(100); {
	case x < 15:
		tc = t
	case x < 25:
		tc = g.ts + 5
	case x < 30:
		tc = imax(0, g.ts-3)
	}
	if g.r.Chance(15) {
		t = g.ts + 5
	}
	g.emit(fmt.Sprintf("reasm flush %d %d %s %s", t, tc, g.keepRule(), g.cmpl))
}

func imax(a, b int) int {
	if a > b {
		return a
	}
	return b
}

func (g *cgen) emitOpts() {
	L := g.r.Pick([]int{1, 2, 3, 10})
	switch g.r.Intn(3) {
	case 0:
		g.emit(fmt.Sprintf("reasm opts %d 0", L))
	case 1:
		g.emit(fmt.Sprintf("reasm opts 0 %d", L))
	default:
		g.emit(fmt.Sprintf("reasm opts %d %d", L, g.r.Pick([]int{1, 2, 3, 10})))
	}
}

// streamCase: nconn connections, each with one or two directions, interleaved.
func streamCase(r *lib.Rand, tier string, emit func(string), nconn int) {
	g := &cgen{r: r, emit: emit, keep: pickKeepStyle(r), cmpl: pickCmpl(r)}
	emit("reset")
	if r.Chance(45) {
		g.emitOpts()
	}
	var flows []*flowGen
	for c := 0; c < nconn; c++ {
		id := 1 + c
		if nconn == 1 {
			id = 1 + r.Intn(9)
		}
		d0 := r.Intn(2)
		flows = append(flows, buildFlow(r, tier, id, d0, nconn > 2))
		if r.Chance(40) {
			flows = append(flows, buildFlow(r, tier, id, 1-d0, true))
		}
	}
	for _, f := range flows {
		g.emitStream(f)
	}
	flushP := r.Pick([]int{0, 0, 5, 10, 25})
	live := len(flows)
	for live > 0 {
		f := flows[r.Intn(len(flows))]
		if f.next >= len(f.segs) {
			continue
		}
		g.emitSeg(f, f.segs[f.next])
		f.next++
		if f.next == len(f.segs) {
			live--
		}
		if r.Chance(flushP) {
			g.emitFlush()
		}
		if r.Chance(2) {
			if r.Bool() {
				g.emitOpts()
			} else {
				emit("reasm opts 0 0")
			}
		}
	}
	// sometimes a second incarnation of a connection after everything was closed
	if r.Chance(15) {
		emit(fmt.Sprintf("reasm flush %d %d %s %s", g.ts+10, g.ts+10, g.keepRule(), g.cmpl))
		f := buildFlow(r, tier, flows[0].conn, r.Intn(2), true)
		g.emitStream(f)
		for _, s := range f.segs {
			g.emitSeg(f, s)
		}
	}
	if r.Chance(10) {
		g.emitFlush()
	}
	emit(fmt.Sprintf("reasm flushall %s %s", g.keepRule(), g.cmpl))
	if r.Chance(10) { // FlushAll twice: nothing may happen the second time
		emit(fmt.Sprintf("reasm flushall %s %s", g.keepRule(), g.cmpl))
	}
}

// junkCase: segments that are not consistent with any sender stream (but stay within a small window).
func junkCase(r *lib.Rand, emit func(string)) {
	g := &cgen{r: r, emit: emit, keep: pickKeepStyle(r), cmpl: pickCmpl(r)}
	emit("reset")
	if r.Chance(50) {
		g.emitOpts()
	}
	base := pickISN(r, 40)
	nops := 3 + r.Intn(25)
	for i := 0; i < nops; i++ {
		if r.Chance(12) {
			g.emitFlush()
			continue
		}
		seq := base + uint32(r.Intn(60))
		flags := ""
		if r.Chance(12) {
			flags += "S"
		}
		if r.Chance(8) {
			flags += "F"
		}
		if r.Chance(4) {
			flags += "R"
		}
		if r.Chance(70) {
			flags += "A"
		}
		if flags == "" {
			flags = "-"
		}
		n := r.Pick([]int{0, 1, 1, 2, 3, 5, 8, 13})
		if r.Chance(3) {
			n = 1900 + r.Intn(2100)
		}
		acc := 1
		if r.Chance(4) {
			acc = r.Pick([]int{0, 2})
		}
		emit(fmt.Sprintf("reasm seg %d %d %d %s %d %d %s %s %s", 1+r.Intn(2), r.Intn(2), seq, flags, g.tick(), acc, g.keepRule(), g.cmpl, lib.Hex(r.Bytes(n))))
	}
	emit(fmt.Sprintf("reasm flushall %s %s", g.keepRule(), g.cmpl))
}

// seqCase: Sequence.Difference / Add against the mathematical definition on boundary values.
func seqCase(r *lib.Rand, emit func(string), nrand int) {
	emit("reset")
	var B []uint64
	for _, c := range []uint64{0, 1 << 30, 1 << 31, 3 << 30, 1 << 32} {
		for d := int64(-3); d <= 3; d++ {
			v := int64(c) + d
			if v >= 0 && v < 1<<32 {
				B = append(B, uint64(v))
			}
		}
	}
	K := []int64{0, 1, 2, 3, 100, 1899, 1900, 1<<30 - 1, 1<<30 - 2, 1 << 29}
	for _, s := range B {
		for _, k := range K {
			for _, sg := range []int64{1, -1} {
				t := (int64(s) + sg*k + 1<<32) % (1 << 32)
				emit(fmt.Sprintf("reasm seqdiff %d %d", s, t))
			}
			emit(fmt.Sprintf("reasm seqadd %d %d", s, k))
			emit(fmt.Sprintf("reasm seqadd %d %d", s, -k))
		}
	}
	for i := 0; i < nrand; i++ {
		s := r.U64() % (1 << 32)
		k := int64(r.U64()%(1<<30)) * int64(1-2*r.Intn(2))
		t := (int64(s) + k + 1<<32) % (1 << 32)
		emit(fmt.Sprintf("reasm seqdiff %d %d", s, t))
		emit(fmt.Sprintf("reasm seqadd %d %d", s, k))
	}
}

// smallScope: every sequence of `depth` symbols over a small alphabet of segments of S = "abcdef".
func smallScope(emit func(string), depth int) {
	S := []byte("abcdef")
	type sym struct {
		off, n   int
		syn, fin bool
		flush    bool
	}
	alpha := []sym{
		{off: 0, n: 0, syn: true}, {off: 0, n: 2}, {off: 2, n: 2}, {off: 4, n: 2, fin: true},
		{off: 1, n: 4}, {off: 0, n: 6}, {off: 3, n: 1}, {off: 2, n: 4}, {flush: true},
	}
	idx := make([]int, depth)
	caseNo := 0
	for {
		for _, isn := range []uint32{0xfffffffc, 5} {
			emit("reset")
			keep := "n"
			if caseNo%3 == 1 {
				keep = "m4"
			} else if caseNo%3 == 2 {
				keep = "a1"
			}
			if caseNo%2 == 1 {
				emit("reasm opts 2 0")
			}
			emit(fmt.Sprintf("reasm stream 1 0 %d %s", isn, lib.Hex(S)))
			for i, k := range idx {
				a := alpha[k]
				if a.flush {
					emit(fmt.Sprintf("reasm flush %d 0 %s 1", i+10, keep))
					continue
				}
				seq, flags := isn+1+uint32(a.off), "A"
				if a.syn {
					seq, flags = isn, "S"
				}
				if a.fin {
					flags += "F"
				}
				emit(fmt.Sprintf("reasm seg 1 0 %d %s %d 1 %s 1 %s", seq, flags, i+1, keep, lib.Hex(S[a.off:a.off+a.n])))
			}
			emit(fmt.Sprintf("reasm flushall %s 1", keep))
			caseNo++
		}
		i := depth - 1
		for i >= 0 {
			idx[i]++
			if idx[i] < len(alpha) {
				break
			}
			idx[i] = 0
			i--
		}
		if i < 0 {
			break
		}
	}
}

// limitGrowth: the scenario of DESIGN §7 — nine queued one-page segments, then three-page segments.
func limitGrowth(emit func(string), L int, perConn bool) {
	emit("reset")
	if perConn {
		emit(fmt.Sprintf("reasm opts %d 0", L))
	} else {
		emit(fmt.Sprintf("reasm opts 0 %d", L))
	}
	emit("reasm seg 1 0 1000 S 1 1 n 1 -")
	seq := 1001 + 10
	for i := 0; i < L-1; i++ {
		emit(fmt.Sprintf("reasm seg 1 0 %d A %d 1 n 1 %s", seq, 2+i, lib.Hex(make([]byte, 100))))
		seq += 110
	}
	for i := 0; i < 12; i++ {
		emit(fmt.Sprintf("reasm seg 1 0 %d A %d 1 n 1 %s", seq, 20+i, lib.Hex(make([]byte, 4000))))
		seq += 4010
	}
	emit("reasm flushall n 1")
}

// ageCase: the age-based flush.  Behind a gap, a few chunks arrive in an order that differs from their sequence
// order (so that a newer page can sit in front of an older one), with distinct timestamps; then
// FlushWithOptions with a cut-off T placed at / between / around the arrival times (no close cut-off), the gap
// is filled, FlushAll.
func ageCase(r *lib.Rand, emit func(string)) {
	emit("reset")
	n := 30 + r.Intn(90)
	big := r.Chance(8)
	if big {
		n = 2500 + r.Intn(2500)
	}
	S := r.Bytes(n)
	isn := pickISN(r, n)
	conn, dir := 1+r.Intn(3), r.Intn(2)
	emit(fmt.Sprintf("reasm stream %d %d %d %s", conn, dir, isn, lib.Hex(S)))
	ts := 1
	seg := func(off, l int, flags string) {
		seq := isn + 1 + uint32(off)
		if flags == "S" {
			seq = isn
		}
		emit(fmt.Sprintf("reasm seg %d %d %d %s %d 1 n 1 %s", conn, dir, seq, flags, ts, lib.Hex(S[off:off+l])))
	}
	synFirst := r.Chance(85)
	if synFirst {
		seg(0, 0, "S")
	}
	gap := 1 + r.Intn(6)
	// chunks behind the gap, some contiguous, some separated
	type ch struct{ off, l int }
	var chunks []ch
	o := gap
	k := 2 + r.Intn(4)
	for i := 0; i < k && o < n; i++ {
		l := 1 + r.Intn(6)
		if big && i == 0 {
			l = 1901 + r.Intn(500)
		}
		if o+l > n {
			l = n - o
		}
		chunks = append(chunks, ch{o, l})
		o += l
		if r.Chance(60) {
			o += 1 + r.Intn(4)
		}
	}
	order := make([]int, len(chunks))
	for i := range order {
		order[i] = i
	}
	if r.Chance(80) {
		for i := len(order) - 1; i > 0; i-- {
			j := r.Intn(i + 1)
			order[i], order[j] = order[j], order[i]
		}
	}
	var times []int
	for _, i := range order {
		ts += 3 + r.Intn(10)
		times = append(times, ts)
		seg(chunks[i].off, chunks[i].l, "A")
	}
	flush := func() {
		var T int
		switch r.Intn(5) {
		case 0:
			T = times[r.Intn(len(times))]
		case 1:
			T = times[r.Intn(len(times))] + 1
		case 2:
			T = times[0] - 1
		case 3:
			T = ts + 5
		default:
			T = times[0] + r.Intn(ts-times[0]+2)
		}
		emit(fmt.Sprintf("reasm flush %d 0 n 1", T))
	}
	flush()
	if r.Chance(40) {
		ts += 2
		flush()
	}
	if !synFirst && r.Chance(50) {
		ts++
		seg(0, 0, "S")
	}
	if r.Chance(70) { // fill the gap
		ts++
		seg(0, gap, "A")
	}
	if r.Chance(30) {
		flush()
	}
	emit("reasm flushall n 1")
}

// staleCase: a half connection whose ONLY queued page is popped (by an age flush that keeps the connection
// open, or by a page limit), then further out-of-order segments, then FlushAll: the queue must be rebuilt from
// an empty list (first == last == nil).
func staleCase(r *lib.Rand, emit func(string)) {
	emit("reset")
	byLimit := r.Chance(35)
	if byLimit {
		if r.Bool() {
			emit("reasm opts 1 0")
		} else {
			emit("reasm opts 0 1")
		}
	}
	n := 40 + r.Intn(40)
	S := r.Bytes(n)
	isn := pickISN(r, n)
	conn, dir := 1+r.Intn(3), r.Intn(2)
	emit(fmt.Sprintf("reasm stream %d %d %d %s", conn, dir, isn, lib.Hex(S)))
	ts := 1
	seg := func(off, l int, flags string) {
		seq := isn + 1 + uint32(off)
		if flags == "S" {
			seq = isn
		}
		ts++
		emit(fmt.Sprintf("reasm seg %d %d %d %s %d 1 %s 1 %s", conn, dir, seq, flags, ts, []string{"n", "n", "n", "e1", "a0"}[r.Intn(5)], lib.Hex(S[off:off+l])))
	}
	if r.Chance(90) {
		seg(0, 0, "S")
	}
	a := 3 + r.Intn(5)
	la := 1 + r.Intn(4)
	seg(a, la, "A") // the single queued page (popped at once when a limit of 1 is set)
	if !byLimit {
		emit(fmt.Sprintf("reasm flush %d 0 n 1", ts+5)) // releases it, the connection stays open
	}
	b := a + la + 1 + r.Intn(4)
	lb := 1 + r.Intn(4)
	seg(b, lb, "A") // queued into the empty list
	if r.Chance(50) {
		c := b + lb + 1 + r.Intn(4)
		seg(c, 1+r.Intn(4), "A")
		if r.Chance(50) { // one in front of it
			seg(b+lb, 1, "A")
		}
	}
	if r.Chance(50) {
		emit(fmt.Sprintf("reasm flush %d 0 n 1", ts+5))
	}
	emit("reasm flushall n 1")
}

func gen(r *lib.Rand, tier string, emit func(string)) {
	thorough := tier == "thorough"
	seqCase(r.Fork(), emit, map[bool]int{false: 2000, true: 50000}[thorough])
	smallScope(emit, map[bool]int{false: 4, true: 5}[thorough])
	limitGrowth(emit, 10, true)
	limitGrowth(emit, 10, false)
	limitGrowth(emit, 3, true)
	n1, n2, n3 := 2500, 700, 600
	n4, n5 := 400, 300
	if thorough {
		n1, n2, n3 = 40000, 10000, 8000
		n4, n5 = 6000, 4000
	}
	for i := 0; i < n5; i++ {
		staleCase(r.Fork(), emit)
	}
	for i := 0; i < n4; i++ {
		ageCase(r.Fork(), emit)
	}
	for i := 0; i < n1; i++ {
		streamCase(r.Fork(), tier, emit, 1)
	}
	for i := 0; i < n2; i++ {
		streamCase(r.Fork(), tier, emit, 2+r.Intn(4))
	}
	for i := 0; i < n3; i++ {
		junkCase(r.Fork(), emit)
	}
}
