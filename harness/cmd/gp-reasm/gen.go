package main

import "verif/harness/lib"

func gen(r *lib.Rand, tier string, emit func(string)) {
	emit("reset")
}
