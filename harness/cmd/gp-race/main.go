// gp-race: model-less engine `race` of property C02 ("a fully decoded packet may be read by any
// number of goroutines at once — including checksum verification and string rendering — with
// every reader getting the same answers and no data race").  The check builds this adapter
// with `go build -race` and runs it with GORACE="halt_on_error=1 exitcode=66".
//
// Op (one case = `reset` + one op):
//
//	race <group> <mode> <first> <flags> <hex>     -> ok <nlayers> <answers-hash> | race <site> | bad-op
//
//	group  acc  Layers, Layer(t), LayerClass, Link/Network/Transport/Application/ErrorLayer, Data,
//	            Metadata, LayerContents/LayerPayload, all exported fields (reflection), flows
//	       str  String, Dump, LayerString/LayerDump of every layer
//	       vfy  VerifyChecksum of every layer with one, Packet.VerifyChecksums
//	       mix  goroutine k runs group (acc,str,vfy,all)[k%4]: cross-group conflicts
//	            (e.g. a verifier writing what String reads)
//	mode   copy | nocopy   (nocopy: one more goroutine, standing for the CALLER, keeps reading
//	                        the input buffer it still owns while the packet is being read)
//	first  key of gopacket.DecodersByLayerName;  flags  "d" = DecodeStreamsAsDatagrams, "-" none
//
// The packet is built (eagerly: Lazy=false) and SetNetworkLayerForChecksum is applied by ONE
// goroutine before sharing — that setup is not a concurrent read.  Then N=4 goroutines run the
// group simultaneously (released together by closing a channel).
//
// Process structure.  The check runs this adapter with halt_on_error=1, under which the first
// report halts the process; the shared runner (harness/lib) buffers its replies, so a halted
// runner would lose the replies of all earlier cases and the check could not tell which case
// raced — and starting a race-instrumented process costs ~2 s (package initialisation of
// `layers` under the detector), too slow to restart per racing case.  Therefore the ops are
// executed in ONE long-lived CHILD process (`gp-race child`, same binary, line in / line out,
// flushed) started with GORACE="halt_on_error=0 log_path=<tmp>": after every op the child reads what
// the detector appended to its log, and the parent turns each report into a finding whose
// signature names the function performing the WRITE (`race:write:<func>`) and answers
// `race <func>,…`.  The detector prints each distinct pair of stacks once per process, so a site is
// reported with the first op that exhibits it.  If the child dies the parent reports
// `race:child-died` and starts a new one; should the parent itself ever be halted by a report the
// check reports `crash:race:race`.
//
// Monitors:  race:write:<func> / race:report:<func>   data race reported by the Go race detector
//            race:answers-differ:<group>              two readers of one packet got different answers
//            race:hang                                 a reader did not finish within 20 s
package main

import (
	"bufio"
	"bytes"
	"fmt"
	"hash/fnv"
	"io"
	"os"
	"os/exec"
	"regexp"
	"sort"
	"strings"
	"sync"
	"time"

	"github.com/gopacket/gopacket"
	_ "github.com/gopacket/gopacket/layers"
	"verif/harness/cmd/gp-det/c02gen"
	"verif/harness/lib"
)

const P = "C02"
const N = 4

var groups = []string{"acc", "str", "vfy", "all"}

func runGroup(g string, p gopacket.Packet) c02gen.Sig {
	switch g {
	case "acc":
		s := c02gen.Structure(p)
		for _, l := range p.Layers() { // LayerClass with the singleton class of each type
			t := l.LayerType()
			if x := p.LayerClass(t); x == nil {
				s = append(s, "LayerClass=nil")
			} else {
				s = append(s, "LayerClass="+x.LayerType().String())
			}
		}
		return s
	case "str":
		return c02gen.Rendering(p)
	case "vfy":
		return c02gen.Checksums(p)
	default:
		return c02gen.Full(p)
	}
}

// childExec executes one op inside the child process; returns reply \t stats \t findingSig \t findingWhat
func childExec(a []string) string {
	if len(a) != 6 || a[0] != "race" {
		return "bad-op"
	}
	group, mode, first, flags := a[1], a[2], a[3], a[4]
	data, ok := lib.UnHex(a[5])
	dec, okd := gopacket.DecodersByLayerName[first]
	if !ok || !okd || dec == nil || (mode != "copy" && mode != "nocopy") || (flags != "-" && flags != "d") {
		return "bad-op"
	}
	okg := group == "mix"
	for _, g := range groups {
		okg = okg || g == group
	}
	if !okg {
		return "bad-op"
	}
	opts := gopacket.DecodeOptions{NoCopy: mode == "nocopy", DecodeStreamsAsDatagrams: flags == "d"}
	// the caller's buffer: exact length plus spare capacity holding foreign bytes
	backing := make([]byte, len(data)+32)
	for i := range backing {
		backing[i] = 0xa5
	}
	input := backing[:len(data)]
	copy(input, data)
	p := gopacket.NewPacket(input, dec, opts)
	attached := c02gen.AttachNetworkLayers(p)
	nl := len(p.Layers())
	var stats []string
	stats = append(stats, "group:"+group, "mode:"+mode, fmt.Sprintf("layers:%d", min(nl, 8)))
	if attached > 0 {
		stats = append(stats, "pseudo-header-attached")
	}
	if p.ErrorLayer() != nil {
		stats = append(stats, "with-error-layer")
	}
	nck := 0
	for _, l := range p.Layers() {
		if _, ok := l.(gopacket.LayerWithChecksum); ok {
			nck++
			stats = append(stats, "verifiable:"+l.LayerType().String())
			if len(l.LayerPayload()) > 0 {
				stats = append(stats, "verifiable-with-payload")
			}
		}
	}
	nontrivial := nl >= 2 && (group == "acc" || group == "str" || nck > 0)
	if nontrivial {
		stats = append(stats, "!nontrivial")
	}

	start := make(chan struct{})
	res := make([]c02gen.Sig, N)
	var wg sync.WaitGroup
	for k := 0; k < N; k++ {
		g := group
		if group == "mix" {
			g = groups[k%len(groups)]
		}
		wg.Add(1)
		go func(k int, g string) {
			defer wg.Done()
			<-start
			defer func() {
				if r := recover(); r != nil {
					res[k] = c02gen.Sig{"reader-panic"}
				}
			}()
			res[k] = runGroup(g, p)
		}(k, g)
	}
	var callerSum uint32
	if mode == "nocopy" {
		wg.Add(1)
		go func() { // the caller still owns its buffer and may read it at any time
			defer wg.Done()
			<-start
			for rep := 0; rep < 4; rep++ {
				for _, b := range backing {
					callerSum += uint32(b)
				}
			}
		}()
	}
	done := make(chan struct{})
	go func() { wg.Wait(); close(done) }()
	close(start)
	select {
	case <-done:
	case <-time.After(20 * time.Second):
		return "hang\t" + strings.Join(stats, ",") + "\trace:hang\treaders of group " + group + " did not finish within 20s"
	}
	_ = callerSum
	// every reader of the same group must have got the same answers; and the same as a reader
	// that runs alone afterwards
	fsig, fwhat := "", ""
	h := fnv.New64a()
	for k := 0; k < N; k++ {
		g := group
		if group == "mix" {
			g = groups[k%len(groups)]
		}
		alone := func() (s c02gen.Sig) {
			defer func() {
				if r := recover(); r != nil {
					s = c02gen.Sig{"reader-panic"}
				}
			}()
			return runGroup(g, p)
		}()
		if d := res[k].Diff(alone); d != "" && fsig == "" {
			fsig, fwhat = "race:answers-differ:"+g, fmt.Sprintf("reader %d of group %s (first=%s mode=%s) got different answers concurrently and alone: %s", k, g, first, mode, d)
		}
		for j := 0; j < k; j++ {
			gj := group
			if group == "mix" {
				gj = groups[j%len(groups)]
			}
			if gj == g {
				if d := res[k].Diff(res[j]); d != "" && fsig == "" {
					fsig, fwhat = "race:answers-differ:"+g, fmt.Sprintf("readers %d and %d of group %s (first=%s mode=%s) got different answers: %s", j, k, g, first, mode, d)
				}
			}
		}
		h.Write([]byte(res[k].String()))
	}
	if !bytes.Equal(input, data) {
		fsig, fwhat = "race:input-written", "the caller's buffer changed while the packet was being read"
	}
	return fmt.Sprintf("ok %d %016x\t%s\t%s\t%s", nl, h.Sum64(), strings.Join(stats, ","), fsig, strings.ReplaceAll(fwhat, "\t", " "))
}

// newReports returns what the race detector appended to its log file since the last call.
var logOff int64

func newReports() string {
	base := os.Getenv("C02_RACE_LOG")
	if base == "" {
		return ""
	}
	f, err := os.Open(fmt.Sprintf("%s.%d", base, os.Getpid()))
	if err != nil {
		return ""
	}
	defer f.Close()
	f.Seek(logOff, io.SeekStart)
	b, _ := io.ReadAll(f)
	logOff += int64(len(b))
	return string(b)
}

func childMain() {
	in := bufio.NewScanner(os.Stdin)
	in.Buffer(make([]byte, 1<<20), 1<<26)
	w := bufio.NewWriter(os.Stdout)
	for in.Scan() {
		line := strings.TrimSpace(in.Text())
		a := strings.Fields(line)
		reply, _ := lib.Protect(func() string { return childExec(a) })
		reply = strings.ReplaceAll(reply, "\n", " ")
		if rep := newReports(); strings.Contains(rep, "DATA RACE") && len(a) >= 4 {
			parts := strings.Split(reply, "\t")
			for len(parts) < 2 {
				parts = append(parts, "")
			}
			if len(parts) >= 4 && parts[2] == "" {
				parts = parts[:2]
			}
			var fns []string
			for _, one := range strings.Split(rep, "==================") {
				if !strings.Contains(one, "DATA RACE") {
					continue
				}
				kind, fn := raceSite(one)
				fns = append(fns, fn)
				short := one
				if i := strings.Index(short, "Goroutine "); i > 0 {
					short = short[:i]
				}
				short = strings.Join(strings.Fields(short), " ")
				if len(short) > 700 {
					short = short[:700]
				}
				parts = append(parts, "race:"+kind+":"+fn, fmt.Sprintf("Go race detector: data race among concurrent readers of one eager packet (group %s, %s, first %s): %s", a[1], a[2], a[3], short))
				parts[1] += ",race-report,race-site:" + fn
			}
			sort.Strings(fns)
			uniq := fns[:0]
			for i, x := range fns {
				if i == 0 || x != fns[i-1] {
					uniq = append(uniq, x)
				}
			}
			parts[0] = "race " + strings.Join(uniq, ",")
			reply = strings.Join(parts, "\t")
		}
		w.WriteString(reply)
		w.WriteByte('\n')
		w.Flush()
	}
}

// ---------------------------------------------------------------- parent side

type child struct {
	cmd    *exec.Cmd
	stdin  io.WriteCloser
	stdout *bufio.Reader
	stderr *bytes.Buffer
}

var cur *child
var logDir string

func startChild() *child {
	c := &child{cmd: exec.Command(os.Args[0], "child"), stderr: &bytes.Buffer{}}
	var env []string
	for _, e := range os.Environ() {
		if !strings.HasPrefix(e, "GORACE=") && !strings.HasPrefix(e, "C02_RACE_LOG=") {
			env = append(env, e)
		}
	}
	if logDir == "" {
		logDir, _ = os.MkdirTemp("", "gp-race-log")
	}
	base := logDir + "/race"
	env = append(env, "GORACE=halt_on_error=0 exitcode=0 log_path="+base, "C02_RACE_LOG="+base)
	c.cmd.Env = env
	c.stdin, _ = c.cmd.StdinPipe()
	so, _ := c.cmd.StdoutPipe()
	c.stdout = bufio.NewReaderSize(so, 1<<20)
	c.cmd.Stderr = c.stderr
	if err := c.cmd.Start(); err != nil {
		fmt.Fprintln(os.Stderr, "gp-race: cannot start child:", err)
		os.Exit(2)
	}
	return c
}

func stopChild() {
	if cur != nil {
		cur.stdin.Close()
		cur.cmd.Process.Kill()
		cur.cmd.Wait()
		cur = nil
	}
}

var (
	reBlock = regexp.MustCompile(`(?m)^(Write|Read|Previous write|Previous read|Atomic write|Atomic read|Previous atomic write|Previous atomic read) at 0x[0-9a-f]+ by `)
	reFunc  = regexp.MustCompile(`(?m)^  (github\.com/gopacket/gopacket[^\s(]*(?:\(\*?[A-Za-z0-9_]+\))?[^\s(]*)\(`)
)

// raceSite extracts from a race report (kind, function): the innermost frame inside gopacket of
// the WRITING access (of the first access if the report has no plain write).
func raceSite(report string) (string, string) {
	idx := reBlock.FindAllStringSubmatchIndex(report, -1)
	type blk struct{ head, body string }
	var bs []blk
	for i, m := range idx {
		end := len(report)
		if i+1 < len(idx) {
			end = idx[i+1][0]
		}
		body := report[m[1]:end]
		if j := strings.Index(body, "\n\n"); j >= 0 {
			body = body[:j]
		}
		bs = append(bs, blk{report[m[2]:m[3]], body})
	}
	pick := func(b blk) string {
		if m := reFunc.FindStringSubmatch(b.body); m != nil {
			return strings.TrimPrefix(strings.TrimPrefix(m[1], "github.com/gopacket/gopacket/"), "github.com/gopacket/")
		}
		return "?"
	}
	for _, b := range bs {
		if strings.Contains(strings.ToLower(b.head), "write") {
			return "write", pick(b)
		}
	}
	if len(bs) > 0 {
		return "report", pick(bs[0])
	}
	return "report", "?"
}

func parentExec(a []string) string {
	if len(a) < 1 || a[0] != "race" {
		return "bad-op"
	}
	if cur == nil {
		cur = startChild()
	}
	c := cur
	if _, err := io.WriteString(c.stdin, strings.Join(a, " ")+"\n"); err != nil {
		stopChild()
		return "child-io"
	}
	type rd struct {
		line string
		err  error
	}
	ch := make(chan rd, 1)
	go func() {
		l, err := c.stdout.ReadString('\n')
		ch <- rd{l, err}
	}()
	var r rd
	select {
	case r = <-ch:
	case <-time.After(60 * time.Second):
		stopChild()
		lib.Finding(P, "race:hang", "child did not answer within 60s")
		return "hang"
	}
	if r.err != nil { // the child died: race report (exit 66) or a fatal error
		c.stdin.Close()
		err := c.cmd.Wait()
		cur = nil
		rep := c.stderr.String()
		code := -1
		if ee, ok := err.(*exec.ExitError); ok {
			code = ee.ExitCode()
		}
		tail := rep
		if len(tail) > 400 {
			tail = tail[len(tail)-400:]
		}
		lib.Finding(P, "race:child-died", fmt.Sprintf("reader process died (exit %d): %s", code, strings.Join(strings.Fields(tail), " ")))
		return "died"
	}
	parts := strings.Split(strings.TrimRight(r.line, "\n"), "\t")
	if len(parts) >= 2 {
		for _, s := range strings.Split(parts[1], ",") {
			if s == "!nontrivial" {
				lib.Nontrivial()
			} else if s != "" {
				lib.Stat(s)
			}
		}
	}
	for i := 2; i+1 < len(parts); i += 2 {
		if parts[i] != "" {
			lib.Finding(P, parts[i], parts[i+1])
		}
	}
	return parts[0]
}

// ---------------------------------------------------------------- generator

func gen(r *lib.Rand, tier string, emit func(string)) {
	nCorpus, nBuilt, nRandom := 150, 300, 40
	if tier == "thorough" {
		nCorpus, nBuilt, nRandom = -1, 4000, 500
	}
	ins := c02gen.Inputs(r, nCorpus, nBuilt, 25, nRandom)
	gs := []string{"vfy", "mix", "acc", "str"}
	for i, in := range ins {
		// every input: one group under one mode, rotating; built packets additionally always get
		// the verify group (the five VerifyChecksum sites are the anchored mechanism)
		g := gs[i%len(gs)]
		mode := "copy"
		if (i/len(gs))%2 == 1 {
			mode = "nocopy"
		}
		emit("reset")
		emit(fmt.Sprintf("race %s %s %s %s %s", g, mode, in.First, in.Flags(), lib.Hex(in.Data)))
		if in.Kind == "built" && g != "vfy" && g != "mix" {
			emit("reset")
			emit(fmt.Sprintf("race vfy %s %s %s %s", mode, in.First, in.Flags(), lib.Hex(in.Data)))
		}
	}
}

func main() {
	if len(os.Args) >= 2 && os.Args[1] == "child" {
		childMain()
		return
	}
	defer stopChild()
	lib.Main(lib.Engine{Name: "race", Gen: gen, Reset: func() {}, Exec: parentExec})
	stopChild()
	if logDir != "" {
		os.RemoveAll(logDir)
	}
}
