package main

import (
	"bufio"
	"fmt"
	"go/ast"
	"go/parser"
	"go/token"
	"os"
	"path/filepath"
	"sort"
	"strconv"
	"strings"
	"time"

	"github.com/gopacket/gopacket"
	"github.com/gopacket/gopacket/layers"
	"verif/harness/lib"
)

type fixture struct {
	name  string
	first *firstDec
	data  []byte
}

func repoDir() string {
	if d := os.Getenv("VERIF_REPO"); d != "" {
		return d
	}
	return "/repo"
}

func verifRoot() string {
	if d := os.Getenv("VERIF_ROOT"); d != "" {
		return d
	}
	return "/verif"
}

// byteLiteral evaluates a []byte{…} composite literal made of integer/char literals.
func byteLiteral(cl *ast.CompositeLit) ([]byte, bool) {
	at, ok := cl.Type.(*ast.ArrayType)
	if !ok || at.Len != nil {
		return nil, false
	}
	id, ok := at.Elt.(*ast.Ident)
	if !ok || (id.Name != "byte" && id.Name != "uint8") {
		return nil, false
	}
	out := make([]byte, 0, len(cl.Elts))
	for _, e := range cl.Elts {
		bl, ok := e.(*ast.BasicLit)
		if !ok {
			return nil, false
		}
		switch bl.Kind {
		case token.INT:
			v, err := strconv.ParseUint(bl.Value, 0, 8)
			if err != nil {
				return nil, false
			}
			out = append(out, byte(v))
		case token.CHAR:
			s, err := strconv.Unquote(bl.Value)
			if err != nil || len(s) != 1 {
				return nil, false
			}
			out = append(out, s[0])
		default:
			return nil, false
		}
	}
	return out, true
}

func lastIdent(e ast.Expr) string {
	switch x := e.(type) {
	case *ast.Ident:
		return x.Name
	case *ast.SelectorExpr:
		return x.Sel.Name
	}
	return ""
}

func firstFromExprName(n string) *firstDec {
	switch {
	case strings.HasPrefix(n, "LayerType"):
		return resolveFirst(normName(n[len("LayerType"):]))
	case strings.HasPrefix(n, "LinkType"):
		want := normName(n[len("LinkType"):])
		for i := range layers.LinkTypeMetadata {
			m := layers.LinkTypeMetadata[i]
			if m.DecodeWith != nil && normName(m.Name) == want {
				return resolveFirst(strconv.Itoa(int(m.LayerType)))
			}
		}
	}
	return nil
}

// harvest parses every *_test.go of the repository root and of layers/ and returns the
// []byte literals of at least 14 bytes with the first layer type their test decodes them as.
func harvest() []fixture {
	repo := repoDir()
	var files []string
	for _, d := range []string{repo, filepath.Join(repo, "layers")} {
		m, _ := filepath.Glob(filepath.Join(d, "*_test.go"))
		sort.Strings(m)
		files = append(files, m...)
	}
	eth := resolveFirst("ethernet")
	var out []fixture
	seen := map[string]bool{}
	for _, fn := range files {
		fset := token.NewFileSet()
		f, err := parser.ParseFile(fset, fn, nil, 0)
		if err != nil {
			continue
		}
		// which identifier is decoded as what
		natural := map[string]*firstDec{}
		ast.Inspect(f, func(n ast.Node) bool {
			ce, ok := n.(*ast.CallExpr)
			if !ok || lastIdent(ce.Fun) != "NewPacket" || len(ce.Args) < 2 {
				return true
			}
			if id, ok := ce.Args[0].(*ast.Ident); ok {
				if fd := firstFromExprName(lastIdent(ce.Args[1])); fd != nil {
					if _, dup := natural[id.Name]; !dup {
						natural[id.Name] = fd
					}
				}
			}
			return true
		})
		var nameStack []string
		var visit func(n ast.Node, name string)
		visit = func(n ast.Node, name string) {
			ast.Inspect(n, func(n ast.Node) bool {
				switch x := n.(type) {
				case *ast.ValueSpec:
					for i, v := range x.Values {
						nm := name
						if i < len(x.Names) {
							nm = x.Names[i].Name
						}
						visit(v, nm)
					}
					return false
				case *ast.AssignStmt:
					for i, v := range x.Rhs {
						nm := name
						if i < len(x.Lhs) {
							if id, ok := x.Lhs[i].(*ast.Ident); ok {
								nm = id.Name
							}
						}
						visit(v, nm)
					}
					return false
				case *ast.CompositeLit:
					if b, ok := byteLiteral(x); ok {
						if len(b) >= 14 && !seen[string(b)] {
							seen[string(b)] = true
							fd := natural[name]
							if fd == nil {
								fd = eth
							}
							nm := name
							if nm == "" {
								nm = fmt.Sprintf("%s:%d", filepath.Base(fn), fset.Position(x.Pos()).Line)
							}
							out = append(out, fixture{nm, fd, b})
						}
						return false
					}
				}
				return true
			})
		}
		_ = nameStack
		visit(f, "")
	}
	return out
}

// innerInputs decodes every fixture with its natural type and returns, per layer type seen,
// the bytes that layer was decoded from (contents+payload): natural inputs for every decoder
// that appears anywhere in the repository's own test packets.
func innerInputs(fx []fixture) []fixture {
	var out []fixture
	seen := map[string]bool{}
	for _, f := range fx {
		done := make(chan []fixture, 1)
		go func(f fixture) {
			var got []fixture
			defer func() { recover(); done <- got }()
			p := gopacket.NewPacket(f.data, f.first.dec, gopacket.DecodeOptions{DecodeStreamsAsDatagrams: true})
			for i, l := range p.Layers() {
				if i == 0 || l.LayerType() == gopacket.LayerTypeDecodeFailure || l.LayerType() == gopacket.LayerTypePayload {
					continue
				}
				fd := resolveFirst(strconv.Itoa(int(l.LayerType())))
				if fd == nil {
					continue
				}
				b := append(append([]byte(nil), l.LayerContents()...), l.LayerPayload()...)
				if len(b) == 0 {
					continue
				}
				got = append(got, fixture{f.name + "/" + fd.label(), fd, b})
			}
		}(f)
		select {
		case got := <-done:
			for _, g := range got {
				k := g.first.name + "\x00" + string(g.data)
				if !seen[k] {
					seen[k] = true
					out = append(out, g)
				}
			}
		case <-time.After(5 * time.Second):
		}
	}
	return out
}

// boundsCandidates reads lean/Gp/Gen/BoundsCandidates.txt written by x-facts: one line
// "<fn> <recv-or--> <minLen> <idx> <id> [*]" per bounds VC that does not hold (known-bad ones
// are starred).
type boundsCand struct {
	fn, recv    string
	minLen, idx int
}

func boundsCandidates() []boundsCand {
	f, err := os.Open(filepath.Join(verifRoot(), "lean", "Gp", "Gen", "BoundsCandidates.txt"))
	if err != nil {
		return nil
	}
	defer f.Close()
	var out []boundsCand
	seen := map[boundsCand]bool{}
	sc := bufio.NewScanner(f)
	for sc.Scan() {
		p := strings.Fields(sc.Text())
		if len(p) < 4 || strings.HasPrefix(p[0], "#") {
			continue
		}
		m, err1 := strconv.Atoi(p[2])
		i, err2 := strconv.Atoi(p[3])
		if err1 != nil || err2 != nil {
			continue
		}
		c := boundsCand{p[0], p[1], m, i}
		if !seen[c] {
			seen[c] = true
			out = append(out, c)
		}
	}
	return out
}

// lengthShaped: n bytes in which every aligned 16-bit word (big- or little-endian) and every
// byte that could be a length field says "n" (or n/4 words): passes "declared length ==
// actual length" checks and then reaches the fixed-offset reads behind them.
func lengthShaped(n int, variant int) []byte {
	b := make([]byte, n)
	switch variant % 4 {
	case 0: // 16-bit big-endian words = n
		for i := 0; i+1 < n; i += 2 {
			b[i], b[i+1] = byte(n>>8), byte(n)
		}
	case 1: // 16-bit little-endian words = n
		for i := 0; i+1 < n; i += 2 {
			b[i], b[i+1] = byte(n), byte(n>>8)
		}
	case 2: // every byte = n
		for i := range b {
			b[i] = byte(n)
		}
	case 3: // every byte = n/4 (lengths in 32-bit words), first byte version-like
		for i := range b {
			b[i] = byte(n / 4)
		}
		if n > 0 {
			b[0] = 0x45
		}
	}
	return b
}

func gen(r *lib.Rand, tier string, emit func(string)) {
	thorough := tier == "thorough"
	fx := harvest()
	inner := innerInputs(fx)
	nops := 0
	one := func(format string, a ...interface{}) {
		emit("reset")
		emit(fmt.Sprintf(format, a...))
		nops++
	}
	optsCycle := 0
	nextOpts := func() int { optsCycle++; return optsCycle % 16 }
	emit(fmt.Sprintf("# gp-all: %d fixtures harvested from %s, %d inner-layer inputs, %d first decoders, %d DecodeFromBytes types", len(fx), repoDir(), len(inner), len(firsts), len(dlCtors)))

	// (0) candidates attached to bounds VCs that do not hold (failed or known-bad): inputs of the
	//     lengths between the established lower bound and the accessed index, several fillings
	for _, bc := range boundsCandidates() {
		if bc.minLen > 4096 {
			continue
		}
		lens := map[int]bool{bc.minLen: true, bc.minLen + 1: true, bc.idx: true}
		if bc.idx > 0 {
			lens[bc.idx-1] = true
		}
		var ls []int
		for n := range lens {
			if n >= 0 && n <= bc.idx && n <= 4096 {
				ls = append(ls, n)
			}
		}
		sort.Ints(ls)
		for _, n := range ls {
			fills := [][]byte{make([]byte, n), bytes0xff(n), lengthShaped(n, 0), lengthShaped(n, 1), lengthShaped(n, 2), lengthShaped(n, 3)}
			for _, b := range fills {
				if bc.recv != "-" {
					if _, ok := ctorByName[bc.recv]; ok {
						one("all dl %s %s", bc.recv, lib.Hex(b))
					}
				}
				for i := range firsts {
					if firsts[i].fn == bc.fn || firsts[i].fn == bc.recv+"."+bc.fn || (bc.recv != "-" && firsts[i].lt >= 0 && normName(firsts[i].lt.String()) == normName(bc.recv)) {
						one("all dec %s %d %s", firsts[i].name, 0, lib.Hex(b))
					}
				}
			}
		}
	}

	// (1) every first decoder and every DecodeFromBytes type on short inputs: 0…N bytes of
	//     zeros, ones and two random patterns (the shape that finds a missing length guard)
	maxShort := 40
	if thorough {
		maxShort = 160
	}
	pats := [][]byte{make([]byte, maxShort), bytes0xff(maxShort), r.Bytes(maxShort), r.Bytes(maxShort), nil, nil}
	if thorough {
		for i := 0; i < 6; i++ {
			pats = append(pats, r.Bytes(maxShort))
		}
	}
	for n := 0; n <= maxShort; n++ {
		for pi, pat := range pats {
			if !thorough && n > 12 && (n+pi)%3 != 0 {
				continue // quick tier: all patterns up to 12 bytes, two of the six per length beyond
			}
			in := []byte(nil)
			if pat == nil {
				in = lengthShaped(n, pi+n) // length-consistent inputs
			} else {
				in = pat[:n]
			}
			for i := range firsts {
				one("all dec %s %d %s", firsts[i].name, nextOpts(), lib.Hex(in))
			}
			for _, ct := range dlCtors {
				one("all dl %s %s", ct.name, lib.Hex(in))
			}
		}
	}

	// (2) fixtures under their natural type: all truncations
	all := append(append([]fixture(nil), fx...), inner...)
	for _, f := range all {
		n := len(f.data)
		for k := 0; k <= n; k++ {
			if !thorough && k < n-6 {
				// quick tier: every prefix up to 40 bytes, every 8th up to 128, every 32nd beyond, and the last 6
				if (k > 40 && k <= 128 && k%8 != 0) || (k > 128 && k%32 != 0) || k > 640 {
					continue
				}
			}
			one("all dec %s %d %s", f.first.name, nextOpts(), lib.Hex(f.data[:k]))
		}
	}

	// (3) single-byte / length-field mutations of fixtures under their natural type
	perFix := 28
	if thorough {
		perFix = 1200
	}
	vals := []int{0x00, 0xff, -1, +1, 0x80, 0x7f}
	for _, f := range all {
		n := len(f.data)
		if n == 0 {
			continue
		}
		lim := min(n, 128)
		if thorough {
			lim = min(n, 512)
		}
		for m := 0; m < perFix; m++ {
			b := append([]byte(nil), f.data...)
			pos := r.Intn(lim)
			switch r.Intn(10) {
			case 0, 1, 2, 3, 4, 5:
				v := vals[r.Intn(len(vals))]
				if v == -1 || v == 1 {
					b[pos] = byte(int(b[pos]) + v)
				} else {
					b[pos] = byte(v)
				}
			case 6, 7:
				// 16-bit length-like field to a boundary value
				if pos+1 < n {
					rest := n - pos
					c := []int{0, 1, 0xffff, rest, rest - 1, rest + 1, rest - 2, 4, 8, 0x8000}
					v := c[r.Intn(len(c))]
					b[pos], b[pos+1] = byte(v>>8), byte(v)
				}
			case 8:
				// 32-bit field
				if pos+3 < n {
					c := []uint32{0, 1, 0xffffffff, 0x7fffffff, 0x80000000, uint32(n - pos)}
					v := c[r.Intn(len(c))]
					b[pos], b[pos+1], b[pos+2], b[pos+3] = byte(v>>24), byte(v>>16), byte(v>>8), byte(v)
				}
			case 9:
				// mutate and truncate
				b[pos] ^= byte(1 << r.Intn(8))
				b = b[:pos+1+r.Intn(n-pos)]
			}
			one("all dec %s %d %s", f.first.name, nextOpts(), lib.Hex(b))
		}
	}

	// (4) every fixture (and slices of it at typical inner-header offsets) as every OTHER first decoder
	crossPer := 14
	if thorough {
		crossPer = 160
	}
	offs := []int{0, 0, 0, 14, 18, 34, 38, 42, 54}
	for i := range firsts {
		for k := 0; k < crossPer; k++ {
			f := all[r.Intn(len(all))]
			off := offs[r.Intn(len(offs))]
			if off >= len(f.data) {
				off = 0
			}
			b := f.data[off:]
			if r.Chance(30) && len(b) > 1 {
				b = b[:1+r.Intn(len(b))]
			}
			one("all dec %s %d %s", firsts[i].name, nextOpts(), lib.Hex(b))
		}
	}
	for _, ct := range dlCtors {
		for k := 0; k < crossPer; k++ {
			f := all[r.Intn(len(all))]
			off := offs[r.Intn(len(offs))]
			if off >= len(f.data) {
				off = 0
			}
			one("all dl %s %s", ct.name, lib.Hex(f.data[off:]))
		}
	}

	// (5) random bytes, assorted sizes (up to 64 KiB in the thorough tier)
	nrand := 6
	if thorough {
		nrand = 40
	}
	sizes := []int{1, 2, 3, 4, 6, 8, 12, 16, 20, 24, 28, 32, 40, 60, 64, 100, 128, 256, 576, 1500}
	if thorough {
		sizes = append(sizes, 1501, 4096, 9000, 65535, 65536)
	}
	for i := range firsts {
		for k := 0; k < nrand; k++ {
			n := sizes[r.Intn(len(sizes))]
			one("all dec %s %d %s", firsts[i].name, nextOpts(), lib.Hex(r.Bytes(n)))
		}
	}

	// (6) heavier serialisation runs and concurrent readers on the fixtures
	for i, f := range all {
		if thorough || i%3 == 0 {
			one("all ser %s %s", f.first.name, lib.Hex(f.data))
		}
		if thorough || i%10 == 0 {
			one("all conc %s %s", f.first.name, lib.Hex(f.data))
		}
	}
	emit(fmt.Sprintf("# %d ops", nops))
}

func bytes0xff(n int) []byte {
	b := make([]byte, n)
	for i := range b {
		b[i] = 0xff
	}
	return b
}
