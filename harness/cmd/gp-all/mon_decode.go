package main

import (
	"bytes"
	"encoding/hex"
	"fmt"
	"reflect"
	"strings"
	"sync"

	"github.com/gopacket/gopacket"
	"github.com/gopacket/gopacket/layers"
)

// ---------------------------------------------------------------- C01

var probeClasses = []gopacket.LayerClass{
	layers.LayerClassIPNetwork, layers.LayerClassIPTransport, layers.LayerClassIPControl,
}

func sameLayer(a, b interface{}) bool {
	if a == nil || b == nil {
		return false
	}
	va, vb := reflect.ValueOf(a), reflect.ValueOf(b)
	if va.Type() != vb.Type() {
		return false
	}
	if va.Kind() == reflect.Ptr {
		return va.Pointer() == vb.Pointer()
	}
	return false
}

// accessAll calls every read-only accessor and renderer of p, each inside its own recover.
// report(accessor, site, msg) is called for each panic.  The order of the calls is rotated by
// `variant` (it matters for lazy packets).  Returns a canonical summary of what was seen.
func accessAll(p gopacket.Packet, variant int, report func(acc, site, msg string)) string {
	var sb strings.Builder
	call := func(acc string, f func()) {
		if pk, site, msg := guard(f); pk {
			report(acc, site, msg)
		}
	}
	var ls []gopacket.Layer
	steps := []func(){
		func() { call("Layers", func() { ls = p.Layers() }) },
		func() { call("String", func() { sb.WriteString(fmt.Sprint(len(p.String()) > 0)) }) },
		func() {
			call("ErrorLayer", func() {
				if e := p.ErrorLayer(); e != nil {
					call("Error", func() { _ = e.Error().Error() })
					call("LayerString", func() { _ = gopacket.LayerString(e) })
				}
			})
			call("LinkLayer", func() {
				if l := p.LinkLayer(); l != nil {
					call("LinkFlow", func() { f := l.LinkFlow(); _ = f.String(); _ = f.FastHash(); a, b := f.Endpoints(); _ = a.String(); _ = b.String() })
				}
			})
			call("NetworkLayer", func() {
				if l := p.NetworkLayer(); l != nil {
					call("NetworkFlow", func() {
						f := l.NetworkFlow()
						_ = f.String()
						_ = f.FastHash()
						_ = f.Reverse()
						a, b := f.Endpoints()
						_, _ = a.String(), b.String()
					})
				}
			})
			call("TransportLayer", func() {
				if l := p.TransportLayer(); l != nil {
					call("TransportFlow", func() {
						f := l.TransportFlow()
						_ = f.String()
						_ = f.FastHash()
						a, b := f.Endpoints()
						_, _ = a.String(), b.String()
					})
				}
			})
			call("ApplicationLayer", func() {
				if l := p.ApplicationLayer(); l != nil {
					call("ApplicationPayload", func() { _ = l.Payload() })
				}
			})
		},
		func() { call("Dump", func() { _ = p.Dump() }) },
	}
	for i := 0; i < len(steps); i++ {
		steps[(i+variant)%len(steps)]()
	}
	call("Layers", func() { ls = p.Layers() })
	for _, c := range probeClasses {
		c := c
		call("LayerClass", func() { _ = p.LayerClass(c) })
	}
	call("Layer", func() { _ = p.Layer(gopacket.LayerType(1999)); _ = p.Layer(gopacket.LayerTypePayload); _ = p.Layer(layers.LayerTypeTCP) })
	for li, l := range ls {
		l := l
		if l == nil {
			report("Layers", "?", "nil layer in Layers()")
			continue
		}
		var lt gopacket.LayerType
		call("LayerType", func() { lt = l.LayerType(); _ = lt.String() })
		if li < 64 { // p.Layer is linear in the number of layers: keep the monitor itself linear
			call("Layer", func() { _ = p.Layer(lt) })
		}
		call("LayerContents", func() { _ = l.LayerContents(); _ = l.LayerPayload() })
		call("LayerString", func() { _ = gopacket.LayerString(l) })
		call("LayerDump", func() { _ = gopacket.LayerDump(l) })
		call("LayerGoString", func() { _ = gopacket.LayerGoString(l) })
		sb.WriteString(" ")
		sb.WriteString(strings.ReplaceAll(lt.String(), " ", "_"))
	}
	call("VerifyChecksums", func() { _, _ = p.VerifyChecksums() })
	call("Metadata", func() { _ = p.Metadata().Truncated; _ = p.Data() })
	call("String", func() { _ = p.String() })
	return sb.String()
}

func monC01(c *ctx, f *firstDec, bits int, data []byte) string {
	lab := f.label()
	opts := optsFromBits(bits)
	in := exactCopy(data)
	var p gopacket.Packet
	if pk, site, msg := guard(func() { p = gopacket.NewPacket(in, f.dec, opts) }); pk {
		c.finding("C01", "all:c01:panic:NewPacket:"+site, fmt.Sprintf("NewPacket(%d bytes as %s, opts %d) panicked with recovery on: %s", len(data), lab, bits, msg))
		return "panic"
	}
	if p == nil {
		c.finding("C01", "all:c01:contract:"+lab+":nil-packet", "NewPacket returned nil")
		return "nil"
	}
	sum := accessAll(p, len(data)%4, func(acc, site, msg string) {
		c.stat("c01:accessor-panic")
		c.finding("C01", "all:c01:panic:"+acc+":"+site, fmt.Sprintf("%s on a packet decoded from %d bytes as %s (opts %d) panicked: %s", acc, len(data), lab, bits, msg))
	})
	// failure contract
	var ls []gopacket.Layer
	var el gopacket.ErrorLayer
	if pk, _, _ := guard(func() { ls = p.Layers(); el = p.ErrorLayer() }); pk {
		return "panic"
	}
	nfail, failIsErr := 0, false
	for _, l := range ls {
		if l != nil && l.LayerType() == gopacket.LayerTypeDecodeFailure {
			nfail++
			if el != nil && sameLayer(l, el) {
				failIsErr = true
			}
		}
	}
	if el != nil {
		c.stat("c01:errorlayer")
		if len(ls) == 0 || !sameLayer(ls[len(ls)-1], el) {
			c.finding("C01", "all:c01:contract:"+lab+":errlayer-not-last", fmt.Sprintf("ErrorLayer() is non-nil but is not the last of the %d layers (%s)", len(ls), sum))
		}
		if nfail > 1 || (nfail == 1 && !failIsErr) {
			c.finding("C01", "all:c01:contract:"+lab+":other-failure", fmt.Sprintf("a DecodeFailure layer other than ErrorLayer() is present (%d failures; %s)", nfail, sum))
		}
	} else {
		c.stat("c01:clean")
		if nfail > 0 {
			c.finding("C01", "all:c01:contract:"+lab+":failure-without-errlayer", "a DecodeFailure layer is present but ErrorLayer() is nil")
		}
	}
	c.stat(fmt.Sprintf("layers:%d", min(len(ls), 9)))
	for _, l := range ls {
		if l != nil {
			c.stat("layer:" + strings.ReplaceAll(l.LayerType().String(), " ", "_"))
		}
	}
	if len(ls) >= 2 {
		c.nontrivial = true
	}
	if pp, ok := p.(gopacket.PooledPacket); ok {
		guard(func() { pp.Dispose() })
	}
	return sum
}

// ---------------------------------------------------------------- C19

type nopFeedback struct{ truncated bool }

func (n *nopFeedback) SetTruncated() { n.truncated = true }

type decodeFromBytes interface {
	DecodeFromBytes([]byte, gopacket.DecodeFeedback) error
}

func c19Report(c *ctx, path, lab string, n int, site, msg string) {
	c.stat("c19:panic")
	c.finding("C19", "all:c19:panic:"+site, fmt.Sprintf("%s of %d bytes as %s panicked: %s", path, n, lab, msg))
}

// c19Direct calls DecodeFromBytes of constructor ci directly (no builder, no recover).
func c19Direct(c *ctx, ci int, data []byte) string {
	ct := dlCtors[ci]
	obj := ct.mk()
	in := exactCopy(data) // cap == len: an unguarded slice panics instead of reading foreign bytes
	res := "ok"
	switch l := obj.(type) {
	case decodeFromBytes:
		var err error
		if pk, site, msg := guard(func() { err = l.DecodeFromBytes(in, &nopFeedback{}) }); pk {
			c19Report(c, ct.name+".DecodeFromBytes", ct.name, len(data), site, msg)
			return "panic"
		}
		if err != nil {
			c.stat("c19:direct-err")
			return "err"
		}
		c.stat("c19:direct-ok")
		c.nontrivial = true
		if dl, ok := obj.(gopacket.DecodingLayer); ok {
			if pk, site, msg := guard(func() { _ = dl.NextLayerType(); _ = dl.LayerPayload(); _ = dl.CanDecode() }); pk {
				c19Report(c, ct.name+".NextLayerType/LayerPayload", ct.name, len(data), site, msg)
				return "panic"
			}
		}
	case interface{ DecodeFromBytes([]byte) error }:
		var err error
		if pk, site, msg := guard(func() { err = l.DecodeFromBytes(in) }); pk {
			c19Report(c, ct.name+".DecodeFromBytes", ct.name, len(data), site, msg)
			return "panic"
		}
		if err != nil {
			res = "err"
		}
	default:
		return "bad-op"
	}
	return res
}

func allDecodingLayers() []gopacket.DecodingLayer {
	out := make([]gopacket.DecodingLayer, 0, len(dlCtors)+2)
	for _, ct := range dlCtors {
		if dl, ok := ct.mk().(gopacket.DecodingLayer); ok {
			out = append(out, dl)
		}
	}
	var pl gopacket.Payload
	out = append(out, &pl)
	return out
}

func monC19(c *ctx, f *firstDec, bits int, data []byte) {
	lab := f.label()
	dsad := bits&8 != 0
	// (1) NewPacket with SkipDecodeRecovery (eager and, when the lazy bit is set, lazy + Layers())
	in := exactCopy(data)
	opts := gopacket.DecodeOptions{SkipDecodeRecovery: true, DecodeStreamsAsDatagrams: dsad, Lazy: bits&1 != 0}
	if pk, site, msg := guard(func() {
		p := gopacket.NewPacket(in, f.dec, opts)
		_ = p.Layers()
	}); pk {
		c19Report(c, "NewPacket(SkipDecodeRecovery)", lab, len(data), site, msg)
	}
	if f.lt < 0 {
		return
	}
	// (2) direct DecodeFromBytes of every DecodingLayer that can decode this layer type
	for _, ci := range ctorsByLT[f.lt] {
		c19Direct(c, ci, data)
	}
	// (3) DecodingLayerParser that lets panics through (IgnorePanic=true disables its recover)
	if len(ctorsByLT[f.lt]) > 0 {
		in2 := exactCopy(data)
		if pk, site, msg := guard(func() {
			parser := gopacket.NewDecodingLayerParser(f.lt, allDecodingLayers()...)
			parser.IgnorePanic = true
			parser.IgnoreUnsupported = true
			var decoded []gopacket.LayerType
			_ = parser.DecodeLayers(in2, &decoded)
			c.stat(fmt.Sprintf("c19:parser-layers:%d", min(len(decoded), 9)))
		}); pk {
			c19Report(c, "DecodingLayerParser(IgnorePanic).DecodeLayers", lab, len(data), site, msg)
		}
	}
}

// ---------------------------------------------------------------- deep signatures

type sigOpts struct {
	exportedOnly bool // skip unexported fields (C06 comparison)
	skipBase     bool // skip BaseLayer / Contents / Payload
}

func deepSig(sb *strings.Builder, v reflect.Value, o sigOpts, depth int, seen map[uintptr]bool) {
	if depth > 14 {
		sb.WriteString("…")
		return
	}
	if !v.IsValid() {
		sb.WriteString("nil")
		return
	}
	switch v.Kind() {
	case reflect.Bool:
		fmt.Fprint(sb, v.Bool())
	case reflect.Int, reflect.Int8, reflect.Int16, reflect.Int32, reflect.Int64:
		fmt.Fprint(sb, v.Int())
	case reflect.Uint, reflect.Uint8, reflect.Uint16, reflect.Uint32, reflect.Uint64, reflect.Uintptr:
		fmt.Fprint(sb, v.Uint())
	case reflect.Float32, reflect.Float64:
		fmt.Fprint(sb, v.Float())
	case reflect.Complex64, reflect.Complex128:
		fmt.Fprint(sb, v.Complex())
	case reflect.String:
		fmt.Fprintf(sb, "%q", v.String())
	case reflect.Ptr:
		if v.IsNil() {
			sb.WriteString("nil")
			return
		}
		if seen[v.Pointer()] {
			sb.WriteString("^")
			return
		}
		seen[v.Pointer()] = true
		sb.WriteString("&")
		deepSig(sb, v.Elem(), o, depth+1, seen)
		delete(seen, v.Pointer())
	case reflect.Interface:
		if v.IsNil() {
			sb.WriteString("nil")
			return
		}
		sb.WriteString(v.Elem().Type().String())
		sb.WriteString(":")
		deepSig(sb, v.Elem(), o, depth+1, seen)
	case reflect.Slice:
		if v.IsNil() || v.Len() == 0 {
			// nil and empty slices are the same field value for the purposes of the properties
			sb.WriteString("[]")
			return
		}
		fallthrough
	case reflect.Array:
		if v.Type().Elem().Kind() == reflect.Uint8 {
			n := v.Len()
			buf := make([]byte, n)
			for i := 0; i < n; i++ {
				buf[i] = byte(v.Index(i).Uint())
			}
			if n > 96 && !o.exportedOnly {
				// long byte strings (payloads repeated in every layer): length + FNV-1a hash
				h := uint64(14695981039346656037)
				for _, c := range buf {
					h = (h ^ uint64(c)) * 1099511628211
				}
				fmt.Fprintf(sb, "x%x…#%d:%016x", buf[:16], n, h)
				return
			}
			sb.WriteString("x")
			sb.WriteString(hex.EncodeToString(buf))
			return
		}
		sb.WriteString("[")
		for i := 0; i < v.Len(); i++ {
			if i > 0 {
				sb.WriteString(",")
			}
			deepSig(sb, v.Index(i), o, depth+1, seen)
		}
		sb.WriteString("]")
	case reflect.Map:
		keys := make([]string, 0, v.Len())
		vals := map[string]reflect.Value{}
		for _, k := range v.MapKeys() {
			var kb strings.Builder
			deepSig(&kb, k, o, depth+1, seen)
			keys = append(keys, kb.String())
			vals[kb.String()] = v.MapIndex(k)
		}
		sortStrings(keys)
		sb.WriteString("map{")
		for _, k := range keys {
			sb.WriteString(k)
			sb.WriteString("=")
			deepSig(sb, vals[k], o, depth+1, seen)
			sb.WriteString(";")
		}
		sb.WriteString("}")
	case reflect.Struct:
		t := v.Type()
		sb.WriteString("{")
		for i := 0; i < v.NumField(); i++ {
			ft := t.Field(i)
			if o.exportedOnly && ft.PkgPath != "" {
				continue
			}
			if o.skipBase && (ft.Name == "BaseLayer" || ft.Name == "Contents" || ft.Name == "Payload") {
				continue
			}
			if ft.Name == "stack" && t.Name() == "DecodeFailure" {
				continue // goroutine stack text
			}
			if o.exportedOnly && rawDuplicateField(t.Name(), ft.Name) {
				continue
			}
			sb.WriteString(ft.Name)
			sb.WriteString(":")
			deepSig(sb, v.Field(i), o, depth+1, seen)
			sb.WriteString(" ")
		}
		sb.WriteString("}")
	case reflect.Func, reflect.Chan, reflect.UnsafePointer:
		if v.IsNil() {
			sb.WriteString("nil")
		} else {
			sb.WriteString("fn")
		}
	default:
		sb.WriteString("?")
	}
}

func sortStrings(a []string) {
	for i := 1; i < len(a); i++ {
		for j := i; j > 0 && a[j] < a[j-1]; j-- {
			a[j], a[j-1] = a[j-1], a[j]
		}
	}
}

// packetSig: deep signature of everything a packet exposes (layers with all fields, special
// layers by index, truncated flag, error text).
func packetSig(p gopacket.Packet) (sig string, panicked bool) {
	var sb strings.Builder
	pk, _, _ := guard(func() {
		ls := p.Layers()
		idx := func(l interface{}) int {
			for i, x := range ls {
				if sameLayer(x, l) {
					return i
				}
			}
			return -1
		}
		for _, l := range ls {
			sb.WriteString(l.LayerType().String())
			sb.WriteString("=")
			deepSig(&sb, reflect.ValueOf(l), sigOpts{}, 0, map[uintptr]bool{})
			sb.WriteString("\n")
		}
		fmt.Fprintf(&sb, "trunc=%v", p.Metadata().Truncated)
		if l := p.LinkLayer(); l != nil {
			fmt.Fprintf(&sb, " link=%d", idx(l))
		}
		if l := p.NetworkLayer(); l != nil {
			fmt.Fprintf(&sb, " net=%d", idx(l))
		}
		if l := p.TransportLayer(); l != nil {
			fmt.Fprintf(&sb, " trans=%d", idx(l))
		}
		if l := p.ApplicationLayer(); l != nil {
			fmt.Fprintf(&sb, " app=%d", idx(l))
		}
		if l := p.ErrorLayer(); l != nil {
			fmt.Fprintf(&sb, " err=%d", idx(l))
		}
	})
	return sb.String(), pk
}

// firstDiff gives a short description of where two signatures differ.
func firstDiff(a, b string) string {
	la, lb := strings.Split(a, "\n"), strings.Split(b, "\n")
	for i := 0; i < len(la) && i < len(lb); i++ {
		if la[i] != lb[i] {
			x, y := la[i], lb[i]
			j := 0
			for j < len(x) && j < len(y) && x[j] == y[j] {
				j++
			}
			s := max(0, j-40)
			return fmt.Sprintf("layer %d: …%s | …%s", i, clip(x[s:], 90), clip(y[s:], 90))
		}
	}
	return fmt.Sprintf("%d vs %d layers", len(la)-1, len(lb)-1)
}

// culprit names the layer at which two packet signatures start to differ: the type of that
// layer when both packets have a (non-failure) layer of the same type there, otherwise
// "after-<previous layer type>" (the decoder that ran on the previous layer's payload).
func culprit(a, b, first string) string {
	la, lb := strings.Split(a, "\n"), strings.Split(b, "\n")
	typ := func(l string) string {
		if i := strings.Index(l, "="); i >= 0 {
			return strings.ReplaceAll(l[:i], " ", "_")
		}
		return ""
	}
	for i := 0; i < len(la) && i < len(lb); i++ {
		if la[i] != lb[i] {
			ta, tb := typ(la[i]), typ(lb[i])
			if ta == tb && ta != "" && ta != "DecodeFailure" && !strings.HasPrefix(la[i], "trunc=") {
				return ta
			}
			if i == 0 {
				return "first-" + first
			}
			return "after-" + typ(la[i-1])
		}
	}
	return "first-" + first
}

func clip(s string, n int) string {
	if len(s) > n {
		return s[:n]
	}
	return s
}

// ---------------------------------------------------------------- C02

// ring of recent inputs used as "unrelated traffic"
type pastInput struct {
	dec  gopacket.Decoder
	data []byte
}

var (
	past   [8]pastInput
	pastN  int
	pastMu sync.Mutex
)

func monC02(c *ctx, f *firstDec, bits int, data []byte) {
	lab := f.label()
	opts := gopacket.DecodeOptions{DecodeStreamsAsDatagrams: bits&8 != 0}
	const guardLen = 48
	// buffer = guard | data | guard ; the input slice's capacity reaches into the right guard
	mk := func(fill byte) (buf, in []byte) {
		buf = make([]byte, guardLen+len(data)+guardLen)
		for i := range buf {
			buf[i] = fill
		}
		copy(buf[guardLen:], data)
		return buf, buf[guardLen : guardLen+len(data)]
	}
	// (a) determinism across unrelated traffic + input not written (copying options)
	bufA, inA := mk(0xC3)
	before := append([]byte(nil), bufA...)
	var p1 gopacket.Packet
	if pk, _, _ := guard(func() { p1 = gopacket.NewPacket(inA, f.dec, opts) }); pk || p1 == nil {
		return
	}
	accessAll(p1, 0, func(string, string, string) {})
	s1, pk1 := packetSig(p1)
	if !bytes.Equal(before, bufA) {
		c.finding("C02", "all:c02:input-written:"+lab, fmt.Sprintf("decoding %d bytes as %s (copying options) + accessors changed the caller's buffer or its guard zone", len(data), lab))
	}
	// unrelated traffic
	pastMu.Lock()
	others := past
	pastMu.Unlock()
	for _, o := range others {
		if o.dec != nil {
			guard(func() { q := gopacket.NewPacket(o.data, o.dec, gopacket.Default); _ = q.Layers(); _ = q.String() })
		}
	}
	var p2 gopacket.Packet
	if pk, _, _ := guard(func() { p2 = gopacket.NewPacket(inA, f.dec, opts) }); pk || p2 == nil {
		return
	}
	s2, pk2 := packetSig(p2)
	if !pk1 && !pk2 && s1 != s2 {
		c.finding("C02", "all:c02:nondeterministic:"+lab, fmt.Sprintf("decoding the same %d bytes as %s twice (around unrelated traffic) gave different packets: %s", len(data), lab, firstDiff(s1, s2)))
	}
	c.stat("c02:det-checked")
	// (b) NoCopy: input never written; result independent of the bytes beyond len
	optsNC := opts
	optsNC.NoCopy = true
	bufB, inB := mk(0x00)
	_, inC := mk(0xFF)
	beforeB := append([]byte(nil), bufB...)
	var pb, pc gopacket.Packet
	if pk, _, _ := guard(func() { pb = gopacket.NewPacket(inB, f.dec, optsNC) }); pk || pb == nil {
		return
	}
	accessAll(pb, 1, func(string, string, string) {})
	sb, pkb := packetSig(pb)
	if !bytes.Equal(beforeB, bufB) {
		c.finding("C02", "all:c02:input-written:"+lab, fmt.Sprintf("decoding %d bytes as %s under NoCopy + accessors wrote to the caller's buffer or beyond its length", len(data), lab))
	}
	if pk, _, _ := guard(func() { pc = gopacket.NewPacket(inC, f.dec, optsNC) }); pk || pc == nil {
		return
	}
	accessAll(pc, 1, func(string, string, string) {})
	sc, pkc := packetSig(pc)
	if !pkb && !pkc && sb != sc {
		c.finding("C02", "all:c02:reads-beyond-len:"+culprit(sb, sc, lab), fmt.Sprintf("NoCopy decode of %d bytes as %s depends on the bytes beyond len(data): %s", len(data), lab, firstDiff(sb, sc)))
	}
	c.stat("c02:nocopy-checked")
	// remember as unrelated traffic for later ops
	pastMu.Lock()
	past[pastN%len(past)] = pastInput{f.dec, exactCopy(data)}
	pastN++
	pastMu.Unlock()
}

// monConc: N goroutines hammer every accessor of ONE eager packet; each must see the same
// answers as a sequential reader.  (Data races proper need -race, which the check does not
// build: see notes/all.md.)
func monConc(c *ctx, f *firstDec, data []byte) {
	lab := f.label()
	var p gopacket.Packet
	in := exactCopy(data)
	if pk, _, _ := guard(func() { p = gopacket.NewPacket(in, f.dec, gopacket.Default) }); pk || p == nil {
		return
	}
	read := func() string {
		var sb strings.Builder
		sb.WriteString(accessAll(p, 0, func(acc, site, msg string) { sb.WriteString("!" + acc + "@" + site) }))
		guard(func() {
			sb.WriteString(p.String())
			err, mm := p.VerifyChecksums()
			fmt.Fprintf(&sb, "|%v|%d", err != nil, len(mm))
			for _, m := range mm {
				fmt.Fprintf(&sb, "|%d:%d:%d", m.LayerIndex, m.Actual, m.Correct)
			}
		})
		return sb.String()
	}
	want := read()
	const N, rounds = 8, 6
	got := make([]string, N)
	var wg sync.WaitGroup
	for g := 0; g < N; g++ {
		wg.Add(1)
		go func(g int) {
			defer wg.Done()
			for r := 0; r < rounds; r++ {
				s := read()
				if s != want {
					got[g] = s
				}
			}
		}(g)
	}
	wg.Wait()
	for g := range got {
		if got[g] != "" {
			c.finding("C02", "all:c02:concurrent-readers-differ:"+lab, "concurrent readers of one eager packet got answers different from a sequential reader: "+firstDiff(want, got[g]))
			break
		}
	}
	after := read()
	if after != want {
		c.finding("C02", "all:c02:readers-change-packet:"+lab, "reading an eager packet changed what later readers see: "+firstDiff(want, after))
	}
	c.stat("c02:conc-checked")
	c.nontrivial = true
}

// rawDuplicateField: fields excluded from the C06 field comparison because they are raw
// wire-form duplicates of typed fields of the same struct, not independent field values
// (documented in notes/all.md).  DNSResourceRecord.Data/DataLength hold the RDATA exactly as
// it was on the wire, including name-compression pointers into the ORIGINAL message; the
// typed fields (IP, NS, CNAME, PTR, SOA, MX, SRV, TXTs, OPT, URI) carry the values and are compared.
func rawDuplicateField(typ, field string) bool {
	return typ == "DNSResourceRecord" && (field == "Data" || field == "DataLength")
}

// exactCopy returns a copy of b with cap == len (append([]byte(nil), b...) rounds the capacity
// up to a size class, and an unguarded data[4:8] on a 4-byte input would then NOT panic).
func exactCopy(b []byte) []byte {
	c := make([]byte, len(b))
	copy(c, b)
	return c[:len(b):len(b)]
}
