// gp-all: engine `all` (C01, C19, C06, C07, C02) — implementation-side exploration of EVERY
// registered layer type / decoder function / DecodingLayer / SerializableLayer of gopacket.
// There is no Lean model behind this engine ("model": false): what matters are the monitor
// findings (lib.Finding), the histogram (lib.Stat) and the non-triviality marks.
//
// Ops (one input per op, so a replay is a single line):
//
//	all dec  <LayerTypeNumber|Name|enum:Table:idx> <optsbits> <hex>   all monitors (C01,C19,C02,C06,C07)
//	all dl   <GoStructName> <hex>                                     direct DecodeFromBytes (C19)
//	all ser  <LayerTypeNumber|Name> <hex>                             serialisation monitors only (C06,C07), more buffers
//	all conc <LayerTypeNumber|Name> <hex>                             N goroutines hammer one eager packet (C02)
//
// optsbits: 1=Lazy 2=NoCopy 4=Pool 8=DecodeStreamsAsDatagrams  (SkipDecodeRecovery is never set
// on the C01 path and always set on the C19 path).
package main

import (
	"fmt"
	"reflect"
	"runtime"
	"sort"
	"strconv"
	"strings"
	"time"

	"github.com/gopacket/gopacket"
	"github.com/gopacket/gopacket/layers"
	"verif/harness/lib"
)

// ---------------------------------------------------------------- registry of first decoders

type firstDec struct {
	name string // token usable in an op
	dec  gopacket.Decoder
	lt   gopacket.LayerType // -1 when the decoder is not a layer type
	fn   string             // Go function name behind it (when a DecodeFunc), for the bounds candidates
}

var (
	firsts      []firstDec
	firstByName = map[string]*firstDec{}
	// DecodingLayer constructors per layer type they CanDecode
	ctorsByLT  = map[gopacket.LayerType][]int{}
	ctorByName = map[string]int{}
)

func normName(s string) string {
	var b strings.Builder
	for _, c := range s {
		if (c >= 'a' && c <= 'z') || (c >= '0' && c <= '9') {
			b.WriteRune(c)
		} else if c >= 'A' && c <= 'Z' {
			b.WriteRune(c + 32)
		}
	}
	return b.String()
}

func decFuncName(d gopacket.Decoder) string {
	if f, ok := d.(gopacket.DecodeFunc); ok {
		if rf := runtime.FuncForPC(reflect.ValueOf(f).Pointer()); rf != nil {
			n := rf.Name()
			if i := strings.LastIndex(n, "."); i >= 0 {
				n = n[i+1:]
			}
			return n
		}
	}
	return ""
}

type enumTable struct {
	name string
	at   func(i int) (layers.EnumMetadata, bool)
	n    int
}

func enumTables() []enumTable {
	mk := func(name string, n int, f func(i int) layers.EnumMetadata) enumTable {
		return enumTable{name, func(i int) (layers.EnumMetadata, bool) {
			if i < 0 || i >= n {
				return layers.EnumMetadata{}, false
			}
			return f(i), true
		}, n}
	}
	return []enumTable{
		mk("LinkType", len(layers.LinkTypeMetadata), func(i int) layers.EnumMetadata { return layers.LinkTypeMetadata[i] }),
		mk("EthernetType", len(layers.EthernetTypeMetadata), func(i int) layers.EnumMetadata { return layers.EthernetTypeMetadata[i] }),
		mk("PPPType", len(layers.PPPTypeMetadata), func(i int) layers.EnumMetadata { return layers.PPPTypeMetadata[i] }),
		mk("IPProtocol", len(layers.IPProtocolMetadata), func(i int) layers.EnumMetadata { return layers.IPProtocolMetadata[i] }),
		mk("SCTPChunkType", len(layers.SCTPChunkTypeMetadata), func(i int) layers.EnumMetadata { return layers.SCTPChunkTypeMetadata[i] }),
		mk("PPPoECode", len(layers.PPPoECodeMetadata), func(i int) layers.EnumMetadata { return layers.PPPoECodeMetadata[i] }),
		mk("FDDIFrameControl", len(layers.FDDIFrameControlMetadata), func(i int) layers.EnumMetadata { return layers.FDDIFrameControlMetadata[i] }),
		mk("EAPOLType", len(layers.EAPOLTypeMetadata), func(i int) layers.EnumMetadata { return layers.EAPOLTypeMetadata[i] }),
		mk("ProtocolFamily", len(layers.ProtocolFamilyMetadata), func(i int) layers.EnumMetadata { return layers.ProtocolFamilyMetadata[i] }),
		mk("Dot11Type", len(layers.Dot11TypeMetadata), func(i int) layers.EnumMetadata { return layers.Dot11TypeMetadata[i] }),
		mk("USBTransportType", len(layers.USBTransportTypeMetadata), func(i int) layers.EnumMetadata { return layers.USBTransportTypeMetadata[i] }),
	}
}

func buildRegistry() {
	seenFn := map[string]bool{}
	// (1) layer types 0..1999 that are registered (String() is not the bare number)
	for i := 0; i < 2000; i++ {
		lt := gopacket.LayerType(i)
		s := lt.String()
		if s == strconv.Itoa(i) {
			continue
		}
		fd := firstDec{name: strconv.Itoa(i), dec: lt, lt: lt}
		if d, ok := gopacket.DecodersByLayerName[s]; ok && d != nil {
			fd.fn = decFuncName(d)
		}
		if fd.fn != "" {
			seenFn[fd.fn] = true
		}
		firsts = append(firsts, fd)
	}
	// (2) DecodersByLayerName entries whose decoder is not the one of a 0..1999 layer type
	names := make([]string, 0, len(gopacket.DecodersByLayerName))
	for n := range gopacket.DecodersByLayerName {
		names = append(names, n)
	}
	sort.Strings(names)
	byLTName := map[string]bool{}
	for _, f := range firsts {
		byLTName[f.lt.String()] = true
	}
	for _, n := range names {
		d := gopacket.DecodersByLayerName[n]
		if d == nil || byLTName[n] {
			continue
		}
		fd := firstDec{name: "name:" + strings.ReplaceAll(n, " ", "_"), dec: d, lt: -1, fn: decFuncName(d)}
		firsts = append(firsts, fd)
	}
	// (3) enum tables: decode functions that no layer type points to
	for _, t := range enumTables() {
		for i := 0; i < t.n; i++ {
			m, _ := t.at(i)
			if m.DecodeWith == nil {
				continue
			}
			fn := decFuncName(m.DecodeWith)
			if fn == "" || seenFn[fn] {
				continue
			}
			seenFn[fn] = true
			firsts = append(firsts, firstDec{name: fmt.Sprintf("enum:%s:%d", t.name, i), dec: m.DecodeWith, lt: -1, fn: fn})
		}
	}
	// (4) exported Decoder values of package layers that are in no registry
	firsts = append(firsts, firstDec{name: "name:ProtocolGuessingDecoder", dec: layers.ProtocolGuessingDecoder{}, lt: -1, fn: "ProtocolGuessingDecoder.Decode"})
	for i := range firsts {
		f := &firsts[i]
		firstByName[f.name] = f
		if f.lt >= 0 {
			firstByName[normName(f.lt.String())] = f
		}
	}
	// DecodingLayer constructors
	for i, c := range dlCtors {
		ctorByName[c.name] = i
		if dl, ok := c.mk().(gopacket.DecodingLayer); ok {
			func() {
				defer func() { recover() }()
				for _, lt := range dl.CanDecode().LayerTypes() {
					ctorsByLT[lt] = append(ctorsByLT[lt], i)
				}
			}()
		}
	}
}

func resolveFirst(tok string) *firstDec {
	if f, ok := firstByName[tok]; ok {
		return f
	}
	if strings.HasPrefix(tok, "enum:") {
		parts := strings.Split(tok, ":")
		if len(parts) == 3 {
			idx, err := strconv.Atoi(parts[2])
			if err != nil {
				return nil
			}
			for _, t := range enumTables() {
				if t.name == parts[1] {
					if m, ok := t.at(idx); ok && m.DecodeWith != nil {
						return &firstDec{name: tok, dec: m.DecodeWith, lt: -1, fn: decFuncName(m.DecodeWith)}
					}
				}
			}
		}
		return nil
	}
	if f, ok := firstByName[normName(tok)]; ok {
		return f
	}
	return nil
}

func (f *firstDec) label() string {
	if f.lt >= 0 {
		return strings.ReplaceAll(f.lt.String(), " ", "_")
	}
	if f.fn != "" {
		return f.fn
	}
	return f.name
}

// ---------------------------------------------------------------- panic sites

// siteOfPanic must be called from a deferred function while a panic is being recovered: the
// top-most stack frame inside the gopacket module, as "<pkgdir>/<file>:<line>" (independent
// of where the repository is checked out).
func siteOfPanic() string {
	pcs := make([]uintptr, 64)
	n := runtime.Callers(2, pcs)
	frames := runtime.CallersFrames(pcs[:n])
	const mod = "github.com/gopacket/gopacket"
	for {
		fr, more := frames.Next()
		fn := fr.Function
		if strings.HasPrefix(fn, mod) {
			rest := fn[len(mod):] // "/layers.decodeFDDI" or ".NewPacket"
			pkg := ""
			if strings.HasPrefix(rest, "/") {
				rest = rest[1:]
				// package path ends at the first '.' after the last '/'
				sl := strings.LastIndex(rest, "/")
				dot := strings.Index(rest[sl+1:], ".")
				if dot >= 0 {
					pkg = rest[:sl+1+dot] + "/"
				}
			}
			file := fr.File
			if i := strings.LastIndex(file, "/"); i >= 0 {
				file = file[i+1:]
			}
			return fmt.Sprintf("%s%s:%d", pkg, file, fr.Line)
		}
		if !more {
			break
		}
	}
	return "?"
}

// guard runs f; a panic is converted into (true, site, message).
func guard(f func()) (panicked bool, site, msg string) {
	defer func() {
		if v := recover(); v != nil {
			panicked = true
			site = siteOfPanic()
			msg = fmt.Sprint(v)
			if len(msg) > 160 {
				msg = msg[:160]
			}
		}
	}()
	f()
	return
}

// ---------------------------------------------------------------- watchdog

type job struct {
	f    func(c *ctx)
	c    *ctx
	done chan struct{}
}

// ctx buffers what the monitors report while running on the worker goroutine; it is flushed
// into lib only when the job finished (an abandoned, hung worker never touches lib's maps).
type ctx struct {
	stats      []string
	finds      [][3]string
	nontrivial bool
}

func (c *ctx) stat(k string)                  { c.stats = append(c.stats, k) }
func (c *ctx) finding(prop, sig, what string) { c.finds = append(c.finds, [3]string{prop, sig, what}) }
func (c *ctx) flush() {
	for _, k := range c.stats {
		lib.Stat(k)
	}
	seen := map[string]bool{}
	for _, f := range c.finds {
		if seen[f[0]+f[1]] {
			continue // one report per signature and op
		}
		seen[f[0]+f[1]] = true
		lib.Finding(f[0], f[1], f[2])
	}
	if c.nontrivial {
		lib.Nontrivial()
	}
}

var (
	jobs      chan job
	hangCount = map[string]int{}
	hangLimit = 2
	watchdog  = 20 * time.Second
)

func worker(ch chan job) {
	for j := range ch {
		func() {
			defer func() {
				if v := recover(); v != nil {
					// must not happen: every call into gopacket is individually guarded
					j.c.stat("harness:unexpected-panic")
					j.c.finding("*", "all:harness:unexpected-panic:"+siteOfPanic(), fmt.Sprint(v))
				}
			}()
			j.f(j.c)
		}()
		j.done <- struct{}{}
	}
}

// timed runs f on the worker goroutine; false when it did not finish within the watchdog
// period (the worker is then abandoned and a fresh one started).
func timed(f func(c *ctx)) bool {
	if jobs == nil {
		jobs = make(chan job)
		go worker(jobs)
	}
	j := job{f, &ctx{}, make(chan struct{}, 1)}
	jobs <- j
	t := time.NewTimer(watchdog)
	defer t.Stop()
	select {
	case <-j.done:
		j.c.flush()
		return true
	case <-t.C:
		jobs = nil // abandon
		return false
	}
}

// ---------------------------------------------------------------- exec

func optsFromBits(b int) gopacket.DecodeOptions {
	return gopacket.DecodeOptions{Lazy: b&1 != 0, NoCopy: b&2 != 0, Pool: b&4 != 0, DecodeStreamsAsDatagrams: b&8 != 0}
}

const maxInput = 1 << 16

func exec(a []string) string {
	if len(a) < 2 || a[0] != "all" {
		return "bad-op"
	}
	switch a[1] {
	case "dec":
		if len(a) != 5 {
			return "bad-op"
		}
		f := resolveFirst(a[2])
		bits, ok1 := lib.Atoi(a[3])
		data, ok2 := lib.UnHex(a[4])
		if f == nil || !ok1 || !ok2 || bits < 0 || bits > 15 || len(data) > maxInput {
			return "bad-op"
		}
		return execDec(f, bits, data)
	case "dl":
		if len(a) != 4 {
			return "bad-op"
		}
		ci, ok := ctorByName[a[2]]
		data, ok2 := lib.UnHex(a[3])
		if !ok || !ok2 || len(data) > maxInput {
			return "bad-op"
		}
		lab := a[2]
		if hangCount["dl:"+lab] >= hangLimit {
			lib.Stat("skipped-after-hang")
			return "skip"
		}
		res := ""
		if !timed(func(c *ctx) { res = c19Direct(c, ci, data) }) {
			hangCount["dl:"+lab]++
			lib.Finding("C19", "all:c19:hang:"+lab, fmt.Sprintf("%s.DecodeFromBytes did not return within %v on %d bytes", lab, watchdog, len(data)))
			return "hang"
		}
		lib.Stat("dl:" + lab)
		return res
	case "ser":
		if len(a) != 4 {
			return "bad-op"
		}
		f := resolveFirst(a[2])
		data, ok := lib.UnHex(a[3])
		if f == nil || !ok || len(data) > maxInput {
			return "bad-op"
		}
		lab := f.label()
		if hangCount[lab] >= hangLimit {
			lib.Stat("skipped-after-hang")
			return "skip"
		}
		n := 0
		if !timed(func(c *ctx) { n = monSer(c, f, data, true) }) {
			hangCount[lab]++
			lib.Finding("C07", "all:c07:hang:"+lab, "decode+serialise did not return within the watchdog period")
			return "hang"
		}
		return "ok " + lib.Itoa(n)
	case "conc":
		if len(a) != 4 {
			return "bad-op"
		}
		f := resolveFirst(a[2])
		data, ok := lib.UnHex(a[3])
		if f == nil || !ok || len(data) > maxInput {
			return "bad-op"
		}
		if hangCount[f.label()] >= hangLimit {
			return "skip"
		}
		if !timed(func(c *ctx) { monConc(c, f, data) }) {
			hangCount[f.label()]++
			lib.Finding("C02", "all:c02:hang:"+f.label(), "concurrent readers did not finish within the watchdog period")
			return "hang"
		}
		return "ok"
	}
	return "bad-op"
}

func execDec(f *firstDec, bits int, data []byte) string {
	lab := f.label()
	if hangCount[lab] >= hangLimit {
		lib.Stat("skipped-after-hang")
		return "skip"
	}
	lib.Stat("dec:" + lab)
	lib.Stat(fmt.Sprintf("opts:%d", bits))
	lib.Stat("len:" + lenBucket(len(data)))
	summary := ""
	t0 := time.Now()
	// C01
	if !timed(func(c *ctx) { summary = monC01(c, f, bits, data) }) {
		hangCount[lab]++
		lib.Finding("C01", "all:c01:hang:"+lab, fmt.Sprintf("decoding %d bytes as %s (opts %d) + accessors did not return within %v", len(data), lab, bits, watchdog))
		return "hang"
	}
	// Inputs on which decode+render alone is slow (tens of thousands of layers) get the C01
	// and C19 monitors only: the other monitors decode and render the input 4-12 more times.
	slow := time.Since(t0) > 250*time.Millisecond
	// C19
	if !timed(func(c *ctx) { monC19(c, f, bits, data) }) {
		hangCount[lab]++
		lib.Finding("C19", "all:c19:hang:"+lab, fmt.Sprintf("decoding %d bytes as %s without recovery did not return within %v", len(data), lab, watchdog))
		return "hang"
	}
	if slow {
		lib.Stat("skipped-slow-input")
		return "ok " + summary
	}
	// C02
	if !timed(func(c *ctx) { monC02(c, f, bits, data) }) {
		hangCount[lab]++
		lib.Finding("C02", "all:c02:hang:"+lab, "determinism monitor did not return within the watchdog period")
		return "hang"
	}
	// C06 / C07
	if !timed(func(c *ctx) { monSer(c, f, data, false) }) {
		hangCount[lab]++
		lib.Finding("C07", "all:c07:hang:"+lab, "decode+serialise did not return within the watchdog period")
		return "hang"
	}
	return "ok " + summary
}

func lenBucket(n int) string {
	switch {
	case n == 0:
		return "0"
	case n < 8:
		return "1-7"
	case n < 20:
		return "8-19"
	case n < 64:
		return "20-63"
	case n < 256:
		return "64-255"
	case n < 1500:
		return "256-1499"
	default:
		return "1500+"
	}
}

func reset() {}

func main() {
	buildRegistry()
	lib.Main(lib.Engine{Name: "all", Gen: gen, Reset: reset, Exec: exec})
}
