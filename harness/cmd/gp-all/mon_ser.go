package main

import (
	"bytes"
	"fmt"
	"reflect"
	"strings"

	"github.com/gopacket/gopacket"
)

type serResult struct {
	out      []byte
	err      bool
	panicked bool
	site     string
	msg      string
}

type bufKind int

const (
	bufFresh bufKind = iota
	bufDirty
	bufPresized
	bufDirtyBig
	bufPresizedSmall
)

func mkBuffer(k bufKind, payloadLen int) gopacket.SerializeBuffer {
	switch k {
	case bufDirty, bufDirtyBig:
		b := gopacket.NewSerializeBuffer()
		n := 96 + payloadLen
		if k == bufDirtyBig {
			n = 4096 + 2*payloadLen
		}
		if x, err := b.AppendBytes(n); err == nil {
			for i := range x {
				x[i] = 0xA5
			}
		}
		if x, err := b.PrependBytes(n); err == nil {
			for i := range x {
				x[i] = 0xA5
			}
		}
		b.Clear()
		return b
	case bufPresized:
		return gopacket.NewSerializeBufferExpectedSize(256, payloadLen+64)
	case bufPresizedSmall:
		return gopacket.NewSerializeBufferExpectedSize(1, 1)
	}
	return gopacket.NewSerializeBuffer()
}

func serializeOnce(l gopacket.SerializableLayer, payload []byte, opts gopacket.SerializeOptions, k bufKind) (r serResult) {
	pk, site, msg := guard(func() {
		b := mkBuffer(k, len(payload))
		if len(payload) > 0 {
			x, err := b.AppendBytes(len(payload))
			if err != nil {
				r.err = true
				return
			}
			copy(x, payload)
		}
		if err := l.SerializeTo(b, opts); err != nil {
			r.err = true
			return
		}
		r.out = append([]byte(nil), b.Bytes()...)
	})
	if pk {
		r.panicked, r.site, r.msg = true, site, msg
	}
	return
}

func sameSer(a, b serResult) bool {
	if a.panicked || b.panicked {
		return true // reported separately
	}
	if a.err != b.err {
		return false
	}
	return a.err || bytes.Equal(a.out, b.out)
}

func goTypeName(l interface{}) string {
	t := reflect.TypeOf(l)
	for t.Kind() == reflect.Ptr {
		t = t.Elem()
	}
	return t.Name()
}

type netSetter interface {
	SetNetworkLayerForChecksum(gopacket.NetworkLayer) error
}

var serCombos = []gopacket.SerializeOptions{
	{},
	{ComputeChecksums: true},
	{FixLengths: true},
	{FixLengths: true, ComputeChecksums: true},
}

func comboName(o gopacket.SerializeOptions) string {
	s := ""
	if o.FixLengths {
		s += "fix"
	}
	if o.ComputeChecksums {
		s += "csum"
	}
	if s == "" {
		s = "none"
	}
	return s
}

// fieldDiffs compares the exported fields of two layers of the same Go type, ignoring
// BaseLayer/Contents/Payload and unexported fields; list fields are compared in order.
func fieldDiffs(a, b interface{}) []string {
	va, vb := reflect.ValueOf(a), reflect.ValueOf(b)
	for va.Kind() == reflect.Ptr && !va.IsNil() {
		va = va.Elem()
	}
	for vb.Kind() == reflect.Ptr && !vb.IsNil() {
		vb = vb.Elem()
	}
	if va.Type() != vb.Type() {
		return []string{"(type)"}
	}
	o := sigOpts{exportedOnly: true, skipBase: true}
	if va.Kind() != reflect.Struct {
		var sa, sb strings.Builder
		deepSig(&sa, va, o, 0, map[uintptr]bool{})
		deepSig(&sb, vb, o, 0, map[uintptr]bool{})
		if sa.String() != sb.String() {
			return []string{"(value)"}
		}
		return nil
	}
	var out []string
	t := va.Type()
	for i := 0; i < va.NumField(); i++ {
		ft := t.Field(i)
		if ft.PkgPath != "" || ft.Name == "BaseLayer" || ft.Name == "Contents" || ft.Name == "Payload" {
			continue
		}
		var sa, sb strings.Builder
		deepSig(&sa, va.Field(i), o, 0, map[uintptr]bool{})
		deepSig(&sb, vb.Field(i), o, 0, map[uintptr]bool{})
		if sa.String() != sb.String() {
			out = append(out, ft.Name+"\x00"+clip(sa.String(), 80)+" -> "+clip(sb.String(), 80))
		}
	}
	return out
}

// monSer: C06/C07 over every serialisable layer of the packet decoded from data.
// Returns the number of layers serialised.
func monSer(c *ctx, f *firstDec, data []byte, heavy bool) int {
	lab := f.label()
	in := exactCopy(data)
	var p gopacket.Packet
	if pk, _, _ := guard(func() { p = gopacket.NewPacket(in, f.dec, gopacket.DecodeOptions{DecodeStreamsAsDatagrams: true}) }); pk || p == nil {
		return 0
	}
	var ls []gopacket.Layer
	var netl gopacket.NetworkLayer
	clean := false
	if pk, _, _ := guard(func() {
		ls = p.Layers()
		netl = p.NetworkLayer()
		clean = p.ErrorLayer() == nil && !p.Metadata().Truncated
	}); pk {
		return 0
	}
	kinds := []bufKind{bufDirty, bufPresized}
	if heavy {
		kinds = []bufKind{bufDirty, bufPresized, bufDirtyBig, bufPresizedSmall}
	}
	nser := 0
	maxLayers := 4
	if heavy {
		maxLayers = 12
	}
	for li, l := range ls {
		sl, ok := l.(gopacket.SerializableLayer)
		if !ok || l.LayerType() == gopacket.LayerTypeDecodeFailure {
			continue
		}
		if nser >= maxLayers {
			break
		}
		nser++
		tn := goTypeName(l)
		c.stat("ser:" + tn)
		var payload []byte
		if pk, _, _ := guard(func() { payload = append([]byte(nil), l.LayerPayload()...) }); pk {
			continue
		}
		if ns, ok := l.(netSetter); ok && netl != nil && !sameLayer(netl, l) {
			guard(func() { _ = ns.SetNetworkLayerForChecksum(netl) })
		}
		var full, none serResult
		none.err = true
		for _, opts := range serCombos {
			cn := comboName(opts)
			r1 := serializeOnce(sl, payload, opts, bufFresh)
			if r1.panicked {
				c.finding("C07", "all:c07:ser-panic:"+tn+":"+r1.site, fmt.Sprintf("%s.SerializeTo(%s) of layer %d decoded from %d bytes as %s panicked: %s", tn, cn, li, len(data), lab, r1.msg))
				continue
			}
			r2 := serializeOnce(sl, payload, opts, bufFresh)
			if r2.panicked {
				c.finding("C07", "all:c07:ser-panic:"+tn+":"+r2.site, fmt.Sprintf("second %s.SerializeTo(%s) panicked: %s", tn, cn, r2.msg))
				continue
			}
			if r1.err {
				c.stat("ser-err:" + tn)
			} else {
				c.stat("ser-ok:" + cn)
			}
			if !sameSer(r1, r2) {
				c.finding("C07", "all:c07:not-idempotent:"+tn, fmt.Sprintf("%s.SerializeTo(%s) twice in a row gave different results (layer %d of %d bytes as %s): %s vs %s", tn, cn, li, len(data), lab, serDesc(r1), serDesc(r2)))
				// the layer is not at a fixpoint: try once more and compare buffers from there
				r2 = serializeOnce(sl, payload, opts, bufFresh)
				r3 := serializeOnce(sl, payload, opts, bufFresh)
				if r2.panicked || r3.panicked || !sameSer(r2, r3) {
					continue
				}
			}
			for _, k := range kinds {
				rk := serializeOnce(sl, payload, opts, k)
				if rk.panicked {
					c.finding("C07", "all:c07:ser-panic:"+tn+":"+rk.site, fmt.Sprintf("%s.SerializeTo(%s) into buffer kind %d panicked: %s", tn, cn, k, rk.msg))
					continue
				}
				if !sameSer(r2, rk) {
					sig := "all:c07:dirty-buffer:" + tn
					what := "a cleared buffer that held 0xA5 bytes"
					if k == bufPresized || k == bufPresizedSmall {
						sig = "all:c07:presized-buffer:" + tn
						what = "a pre-sized buffer"
					}
					c.finding("C07", sig, fmt.Sprintf("%s.SerializeTo(%s) output differs between a fresh buffer and %s (layer %d of %d bytes as %s): %s vs %s", tn, cn, what, li, len(data), lab, serDesc(r2), serDesc(rk)))
				}
			}
			if opts.FixLengths && opts.ComputeChecksums {
				full = r2
			}
			if !opts.FixLengths && !opts.ComputeChecksums {
				none = r1
			}
		}
		c.nontrivial = true
		// C06 round trip: only for layers of packets that decoded without error/truncation
		if !clean || full.panicked || full.out == nil {
			if clean && full.err {
				c.stat("rt-ser-err:" + tn)
			}
			continue
		}
		rt := func(field, what string) {
			c.finding("C06", "all:c06:roundtrip:"+tn+":"+field, fmt.Sprintf("%s decoded from %d bytes as %s (layer %d), serialised with fix+csum over its payload and decoded again: %s", tn, len(data), lab, li, what))
		}
		dec := decoderForLayerType(l.LayerType())
		if dec == nil {
			c.stat("rt-no-decoder:" + tn)
			continue
		}
		l1, pl1, trunc1, ok := redecode(dec, full.out)
		if !ok || reflect.TypeOf(l1) != reflect.TypeOf(l) {
			rt("decode-error", fmt.Sprintf("re-decoding %s fails or yields another type", lib_hex(full.out, 64)))
			continue
		}
		if trunc1 {
			rt("Truncated", "the re-decoded packet has the truncated flag")
		}
		// Was the decoded layer self-consistent?  If FixLengths/ComputeChecksums changed the
		// bytes, length- and checksum-like fields legitimately come back "fixed".
		consistent := !none.panicked && !none.err && bytes.Equal(none.out, full.out)
		bad := 0
		for _, d := range fieldDiffs(l, l1) {
			parts := strings.SplitN(d, "\x00", 2)
			if !consistent && fixableField(parts[0]) {
				c.stat("rt-fixed-field:" + tn + "." + parts[0])
				continue
			}
			bad++
			rt(parts[0], "field "+parts[0]+" differs: "+parts[1])
		}
		if !payloadEquivalent(tn, payload, pl1) {
			bad++
			rt("(payload)", fmt.Sprintf("payload differs: %d bytes written, %d bytes read back", len(payload), len(pl1)))
		}
		if bad == 0 && !trunc1 {
			c.stat("rt-ok:" + tn)
		}
		// writing the re-decoded layer once more reproduces the same bytes
		if sl1, ok := l1.(gopacket.SerializableLayer); ok {
			if ns, ok := l1.(netSetter); ok && netl != nil {
				guard(func() { _ = ns.SetNetworkLayerForChecksum(netl) })
			}
			r := serializeOnce(sl1, payload, gopacket.SerializeOptions{FixLengths: true, ComputeChecksums: true}, bufFresh)
			if r.panicked {
				c.finding("C07", "all:c07:ser-panic:"+tn+":"+r.site, fmt.Sprintf("%s.SerializeTo(fixcsum) of a re-decoded layer panicked: %s", tn, r.msg))
			} else if r.err || !bytes.Equal(r.out, full.out) {
				rt("(reserialize)", "writing the re-decoded layer again fails or gives different bytes: "+lib_hex(full.out, 48)+" vs "+serDesc(r))
			}
		}
	}
	return nser
}

func serDesc(r serResult) string {
	if r.err {
		return "error"
	}
	return lib_hex(r.out, 48)
}

func lib_hex(b []byte, n int) string {
	if len(b) > n {
		return fmt.Sprintf("%x…(%d bytes)", b[:n], len(b))
	}
	return fmt.Sprintf("%x", b)
}

// decoderForLayerType: the registered decoder of a layer type, or — for layer types that are
// registered without one (SCTP chunks, …) — the decoder of an enum table entry that yields it.
var enumDecoderByLT map[gopacket.LayerType]gopacket.Decoder

func decoderForLayerType(lt gopacket.LayerType) gopacket.Decoder {
	if d, ok := gopacket.DecodersByLayerName[lt.String()]; ok && d != nil {
		return lt
	}
	if enumDecoderByLT == nil {
		m := map[gopacket.LayerType]gopacket.Decoder{}
		for _, t := range enumTables() {
			for i := 0; i < t.n; i++ {
				e, _ := t.at(i)
				if e.DecodeWith != nil && e.LayerType != 0 {
					if _, dup := m[e.LayerType]; !dup {
						m[e.LayerType] = e.DecodeWith
					}
				}
			}
		}
		enumDecoderByLT = m
	}
	return enumDecoderByLT[lt]
}

func redecode(dec gopacket.Decoder, b []byte) (l gopacket.Layer, payload []byte, trunc, ok bool) {
	var p gopacket.Packet
	if pk, _, _ := guard(func() { p = gopacket.NewPacket(b, dec, gopacket.DecodeOptions{DecodeStreamsAsDatagrams: true}) }); pk || p == nil {
		return nil, nil, false, false
	}
	if pk, _, _ := guard(func() {
		if x := p.Layers(); len(x) > 0 {
			l = x[0]
			payload = l.LayerPayload()
		}
		trunc = p.Metadata().Truncated
	}); pk || l == nil || l.LayerType() == gopacket.LayerTypeDecodeFailure {
		return nil, nil, false, false
	}
	return l, payload, trunc, true
}

// fixableField: fields that FixLengths / ComputeChecksums are entitled to rewrite.
func fixableField(name string) bool {
	for _, k := range []string{"Length", "Len", "Checksum", "CRC", "FCS", "IHL", "DataOffset", "Count", "Size"} {
		if strings.Contains(name, k) {
			return true
		}
	}
	return false
}

// payloadEquivalent: equality of the written and the re-read payload, with the two documented
// exemptions (notes/all.md): Ethernet pads short frames to the 60-byte minimum (DESIGN §5 C06
// scope decision) and RadioTap's decoder synthesises an FCS trailer into its payload.
func payloadEquivalent(tn string, written, read []byte) bool {
	if bytes.Equal(written, read) {
		return true
	}
	switch tn {
	case "Ethernet":
		if len(written) < 46 && len(read) == 46 && bytes.Equal(read[:len(written)], written) {
			for _, x := range read[len(written):] {
				if x != 0 {
					return false
				}
			}
			return true
		}
	case "RadioTap":
		return true
	}
	return false
}
