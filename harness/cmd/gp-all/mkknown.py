#!/usr/bin/env python3
"""
mkknown.py OPS MON [OPS MON ...] > known_findings.d/all.json

Regenerates the known-findings list of engine `all` from monitor outputs (gp-all run --mon) of the
tree WITH the proposed all-* fixes applied.  Every distinct signature becomes one entry with its
shortest replay op, except for the four decoder files whose field reads are unguarded throughout
(sflow.go, radiotap.go, ospf.go, sctp.go): those get one per-file glob (observed lines are listed in
`what`).  Each signature must be classified below — an unclassified signature aborts the script, so
nothing is listed without a human-written explanation.
"""
import json, re, sys, collections

PERVASIVE = {
    "layers/sflow.go": "SFlow: every counter-/flow-record decoder reads its fields by re-slicing `*data` ((*data)[4:], (*data)[:4], …) with no length check at all; any truncated or length-inconsistent sFlow datagram panics",
    "layers/radiotap.go": "RadioTap: decodeRadioTapNamespace reads every present field at data[offset…] without checking offset against len(data) (only it_len is clamped), and the Datapad branch reads payload[0]/payload[1] of a possibly empty payload",
    "layers/ospf.go": "OSPFv2/OSPFv3: only the common header is length-checked; hello/DBDesc/LSR/LSU/LSAck bodies and LSA contents are sliced with lengths taken from the packet",
    "layers/sctp.go": "SCTP chunks: decodeSCTPChunk validates only the 4-byte chunk header against the chunk length; the fixed fields of INIT/SACK/SHUTDOWN/ERROR/HEARTBEAT chunks and every parameter (decodeSCTPParameter: data[4:length]) are read unguarded",
}

C19_SITES = {
    "layers/prism.go:22": "PrismHeader: decodePrismValue slices data[8:8+Length] of a 12-byte value record with the record's own 16-bit length field unchecked",
    "layers/lldp.go:896": "LinkLayerDiscovery: a TLV value is sliced with the 9-bit length of the TLV header without checking the remaining bytes",
}

C02 = [
    (r"all:c02:reads-beyond-len:(TLS|after-TCP)$", "TLSHandshakeRecordClientHello.decodeFromBytes deliberately re-slices data = data[:cap(data)] and parses ClientHello fields from the bytes BEYOND the layer's length: under NoCopy these are the caller's foreign bytes, under Pool stale bytes of earlier packets (the repo's own TLS test fixture, whose IP length cuts the ClientHello, only decodes because of this over-read, so the line cannot be removed without editing tests)"),
    (r"all:c02:reads-beyond-len:(first-SFlow|after-UDP|SFlow.*)$", "same defect as all:c19:panic:layers/sflow.go:*, seen through NoCopy: with spare capacity behind the input the unguarded (*data)[:4] reads the caller's foreign bytes instead of panicking, so the packet depends on bytes beyond len(data)"),
    (r"all:c02:reads-beyond-len:(SCTP\w*|after-SCTP\w*)$", "same defect as all:c19:panic:layers/sctp.go:*, seen through NoCopy: unguarded fixed-offset reads of a chunk return bytes beyond len(data)"),
    (r"all:c02:reads-beyond-len:(OSPF\w*|after-IPv4|after-IPv6)$", "same defect as all:c19:panic:layers/ospf.go:* (or another unguarded decoder behind IP), seen through NoCopy: reads beyond len(data)"),
    (r"all:c02:reads-beyond-len:(RadioTap|first-RadioTap|after-RadioTap|Dot11\w*)$", "same defect as all:c19:panic:layers/radiotap.go:*, seen through NoCopy: reads beyond len(data)"),
]

C07 = {
    "all:c07:dirty-buffer:Dot11": "Dot11.SerializeTo always requests a 24-byte header but writes the address/sequence fields only for some frame types: the other bytes keep stale buffer contents",
    "all:c07:dirty-buffer:DNS": "DNS.SerializeTo: a resource record whose typed value is nil (e.g. A/AAAA with empty RDATA in a dynamic-update delete) gets RDATA bytes that are never written",
    "all:c07:dirty-buffer:SCTPCookieEcho": "SCTP chunk serialisers round the chunk up to a multiple of 4 but never write the padding bytes",
    "all:c07:dirty-buffer:SCTPSack": "SCTP chunk serialisers round the chunk up to a multiple of 4 but never write the padding bytes",
    "all:c07:dirty-buffer:SCTP*": "SCTP chunk serialisers round the chunk up to a multiple of 4 but never write the padding bytes",
}

C06 = {
    "IPv4": "IPv4: option padding bytes are kept in Padding but not re-emitted (DESIGN §5 C07 expected, per-layer engine); :Truncated — consequence of the TLS ClientHello over-read (all:c02:reads-beyond-len:TLS): the in-place decode is clean only because TLS reads beyond its slice, the exact-size re-decode is truncated",
    "TCP": "TCP :Truncated — consequence of the TLS ClientHello over-read (all:c02:reads-beyond-len:TLS): the payload decodes cleanly in place only because TLS reads beyond its slice; re-decoded from exact-size bytes it is truncated",
    "DNS": "DNS: records with empty RDATA come back with a zero address (nil IP serialised as 0.0.0.0 / ::), OPT/TXT variants are re-encoded differently",
    "Dot11": "Dot11: SerializeTo always writes a 24-byte header + FCS while the decoder uses 10/16/24/30-byte headers depending on type and flags; QOS/HT control and the checksum are not written back",
    "Dot11InformationElement": "Dot11InformationElement: ID 255 (extension) elements lose the extension id on serialisation",
    "GTPv1U": "GTPv1U.SerializeTo hard-codes protocol type 1 (the ProtocolType field is ignored)",
    "RadioTap": "RadioTap: SerializeTo writes only the header fields it knows and the decoder appends a synthesised FCS to the payload; truncated flag on re-decode",
    "TLS": "TLS.SerializeTo writes only the record headers, not the record contents",
}


# hand-made short replays (override the shortest generated one) and findings that only a crafted input shows
OVERRIDE_REPLAY = {
    ("C19", "all:c19:panic:layers/lldp.go:896"): "all dec linklayerdiscovery 0 02020401040205010602007810faf00100000000000000000000000000000000000000000000000000000000000000000000000000000000000000000000000000000000000000000000000000000000000000000000000000000000000000000000000000000000000000000000000000000000000000000000000000000000000000000000000000000000000000000000000000000000000000000000000000000000000000000000000000000000000000000000000000000000000000000000000000000000000000000000000000000000000000000000000000000000000000000000000000000000000000000000000000000000000000000000000000000000140000000000",
}
EXTRA = [
    ("C02", "all:c02:reads-beyond-len:TLS", "all dec ipv4 8 450000fe7142400080064ee1c0a8dc01c0a8dc832f0e01bb256cbd3dcccee1f75018ffff7caf000016030100d1010000cd0301ffa288977c41a108342c98c27004a05d5f39efe070d512f13517b60dc4d3098500005ac014c00a0039003800880087c00fc00500350084c013c00900330032009a009900450044c00ec004002f00960041c011c007c00cc00200050004c012c00800160013c00dc003000a0015001200090014001100080006000300ff0201000060000b000403000102000a00340032000e000d0019000b000c00180009000a00160017000800060007001400150004000500120013000100020003000f0010001100230000000f000101", "crafted: the repo's TLS ClientHello fixture cut at its (too small) IP total length"),
]


def main():
    best, count = {}, collections.Counter()
    args = sys.argv[1:]
    for i in range(0, len(args), 2):
        cases = []
        for l in open(args[i]):
            l = l.rstrip("\n")
            if l.startswith("#") or not l:
                continue
            if l == "reset":
                cases.append([])
            else:
                cases[-1].append(l)
        for l in open(args[i + 1]):
            d = json.loads(l)
            k = (d["property"], d["sig"])
            count[k] += 1
            c = cases[d["case"]][0] if cases[d["case"]] else ""
            if k not in best or len(c) < len(best[k][0]):
                best[k] = (c, d["what"])
    for (prop, sig, op, what) in EXTRA:
        best.setdefault((prop, sig), (op, what))
    for k, op in OVERRIDE_REPLAY.items():
        if k in best:
            best[k] = (op, best[k][1])
    out, perv, unclassified = [], collections.defaultdict(list), []
    for (prop, sig), (op, what) in sorted(best.items()):
        ent = None
        if prop == "C19" and sig.startswith("all:c19:panic:"):
            site = sig[len("all:c19:panic:"):]
            f = site.rsplit(":", 1)[0]
            if f in PERVASIVE:
                perv[f].append((int(site.rsplit(":", 1)[1]), op))
                continue
            if site in C19_SITES:
                ent = C19_SITES[site]
        elif prop == "C02":
            for pat, why in C02:
                if re.match(pat, sig):
                    ent = why
        elif prop == "C07":
            ent = C07.get(sig)
            if ent is None and sig.startswith("all:c07:dirty-buffer:SCTP") and sig != "all:c07:dirty-buffer:SCTP":
                ent = C07["all:c07:dirty-buffer:SCTP*"]
        elif prop == "C06":
            m = re.match(r"all:c06:roundtrip:(\w+):", sig)
            if m and m.group(1) in C06:
                ent = "round trip field/aspect %s — %s" % (sig.split(":")[-1], C06[m.group(1)])
        if ent is None:
            unclassified.append((prop, sig, what))
            continue
        out.append({"property": prop, "status": "finding", "sig": sig, "what": ent, "replay": "reset ; " + op})
    for f, sites in sorted(perv.items()):
        sites.sort()
        lines = sorted({s[0] for s in sites})
        op = min((s[1] for s in sites), key=len)
        out.append({"property": "C19", "status": "finding", "sig": "all:c19:panic:%s:*" % f,
                    "what": "%s (%d distinct panic lines observed: %s)" % (PERVASIVE[f], len(lines), ",".join(map(str, lines))),
                    "replay": "reset ; " + op})
    if unclassified:
        for u in unclassified:
            print("UNCLASSIFIED %s %s | %s" % (u[0], u[1], u[2][:200]), file=sys.stderr)
        sys.exit(1)
    json.dump({"findings": out}, sys.stdout, indent=1)
    print()


if __name__ == "__main__":
    main()
