package main

import (
	"fmt"
	"go/ast"
	goparser "go/parser"
	"go/token"
	"os"
	"path/filepath"
	"sort"
	"strconv"
	"strings"

	"github.com/gopacket/gopacket"
	"github.com/gopacket/gopacket/layers"
	"verif/harness/lib"
)

// ---------------------------------------------------------------- fixtures

// literals collects every `[]byte{…}` literal (all elements literal) from the repository's own
// layers/*_test.go files.
func literals() [][]byte {
	repo := os.Getenv("VERIF_REPO")
	if repo == "" {
		repo = "/repo"
	}
	files, _ := filepath.Glob(filepath.Join(repo, "layers", "*_test.go"))
	sort.Strings(files)
	var out [][]byte
	fset := token.NewFileSet()
	for _, fn := range files {
		f, err := goparser.ParseFile(fset, fn, nil, 0)
		if err != nil {
			continue
		}
		ast.Inspect(f, func(n ast.Node) bool {
			cl, ok := n.(*ast.CompositeLit)
			if !ok {
				return true
			}
			at, ok := cl.Type.(*ast.ArrayType)
			if !ok || at.Len != nil {
				return true
			}
			id, ok := at.Elt.(*ast.Ident)
			if !ok || (id.Name != "byte" && id.Name != "uint8") {
				return true
			}
			b := make([]byte, 0, len(cl.Elts))
			for _, e := range cl.Elts {
				bl, ok := e.(*ast.BasicLit)
				if !ok || bl.Kind != token.INT {
					return true
				}
				v, err := strconv.ParseUint(bl.Value, 0, 8)
				if err != nil {
					return true
				}
				b = append(b, byte(v))
			}
			if len(b) >= 20 && len(b) <= 2000 {
				out = append(out, b)
			}
			return true
		})
	}
	return out
}

// harvest decodes every test literal of the repository with several first decoders (recovery on) and
// keeps the bytes of every RADIUS layer found in them.
func harvest() [][]byte {
	seen := map[string]bool{}
	var out [][]byte
	firsts := []gopacket.Decoder{layers.LayerTypeEthernet, layers.LayerTypeIPv4, layers.LayerTypeUDP}
	for _, lit := range literals() {
		for _, first := range firsts {
			func() {
				defer func() { recover() }()
				p := gopacket.NewPacket(lit, first, gopacket.DecodeOptions{})
				for _, l := range p.Layers() {
					if l.LayerType() != layers.LayerTypeRADIUS {
						continue
					}
					all := append([]byte(nil), l.LayerContents()...)
					if !seen[string(all)] {
						seen[string(all)] = true
						out = append(out, all)
					}
				}
			}()
		}
	}
	return out
}

func attr(t int, v []byte) layers.RADIUSAttribute {
	return layers.RADIUSAttribute{Type: layers.RADIUSAttributeType(t), Length: layers.RADIUSAttributeLength(len(v) + 2), Value: v}
}

// built fixtures: packets produced by the repository's own serializer (no FixLengths: Length fields set here).
func built(r *lib.Rand) [][]byte {
	ser := func(l *layers.RADIUS) (out []byte) {
		defer func() {
			if recover() != nil {
				out = nil
			}
		}()
		n := 20
		for _, a := range l.Attributes {
			n += len(a.Value) + 2
		}
		l.Length = layers.RADIUSLength(n)
		b := gopacket.NewSerializeBuffer()
		if err := gopacket.SerializeLayers(b, gopacket.SerializeOptions{}, l); err != nil {
			return nil
		}
		return append([]byte(nil), b.Bytes()...)
	}
	var out [][]byte
	add := func(l *layers.RADIUS) {
		copy(l.Authenticator[:], r.Bytes(16))
		if b := ser(l); b != nil {
			out = append(out, b)
		}
	}
	add(&layers.RADIUS{Code: layers.RADIUSCodeAccessRequest, Identifier: 7, Attributes: []layers.RADIUSAttribute{
		attr(1, []byte("alice")), attr(2, r.Bytes(16)), attr(4, []byte{10, 0, 0, 1}), attr(5, []byte{0, 0, 0, 9})}})
	add(&layers.RADIUS{Code: layers.RADIUSCodeAccessAccept, Identifier: 7})
	add(&layers.RADIUS{Code: layers.RADIUSCodeAccessChallenge, Identifier: 9, Attributes: []layers.RADIUSAttribute{
		attr(79, []byte{1, 2, 0, 5, 1}), attr(80, r.Bytes(16)), attr(24, r.Bytes(8))}})
	// EAP-Message split over two attributes (253 + rest), the decoder concatenates them into Payload
	eap := append([]byte{2, 3, 1, 4, 13}, r.Bytes(255)...)
	add(&layers.RADIUS{Code: layers.RADIUSCodeAccessRequest, Identifier: 10, Attributes: []layers.RADIUSAttribute{
		attr(1, []byte("bob")), attr(79, eap[:253]), attr(79, eap[253:]), attr(80, r.Bytes(16))}})
	add(&layers.RADIUS{Code: 4, Identifier: 1, Attributes: []layers.RADIUSAttribute{attr(40, []byte{0, 0, 0, 1}), attr(44, []byte("s1")), attr(26, r.Bytes(253))}})
	add(&layers.RADIUS{Code: 255, Identifier: 255, Attributes: []layers.RADIUSAttribute{attr(255, []byte{0}), attr(0, []byte{1})}})
	return out
}

func hx(b []byte) string { return lib.Hex(b) }

func setByte(b []byte, off, v int) []byte {
	c := append([]byte(nil), b...)
	if off < len(c) {
		c[off] = byte(v)
	}
	return c
}

func setLen(b []byte, v int) []byte {
	c := append([]byte(nil), b...)
	c[2], c[3] = byte(v>>8), byte(v)
	return c
}

// attrOffsets: offsets of the attribute headers of a well-formed message.
func attrOffsets(f []byte) []int {
	var out []int
	end := int(f[2])<<8 | int(f[3])
	if end > len(f) {
		end = len(f)
	}
	for pos := 20; pos+2 <= end; {
		out = append(out, pos)
		l := int(f[pos+1])
		if l < 2 {
			break
		}
		pos += l
	}
	return out
}

// header20 builds a header whose Length field covers `total` bytes.
func header20(r *lib.Rand, total int) []byte {
	h := append([]byte{byte(r.Pick([]int{1, 2, 3, 4, 5, 11, 12, 13, 255, r.Intn(256)})), byte(r.Intn(256)), byte(total >> 8), byte(total)}, r.Bytes(16)...)
	return h
}

func gen(r *lib.Rand, tier string, emit func(string)) {
	thorough := tier == "thorough"
	foreignOf := func(n int) []byte { return r.Bytes(n) }
	lim := func(n, q int) int {
		if thorough || n < q {
			return n
		}
		return q
	}

	// A. fixtures through every path
	fx := append(harvest(), built(r)...)
	for _, f := range fx {
		emit("reset")
		emit(fmt.Sprintf("lradius dec 0 - %s", hx(f)))
		c := 1 + r.Intn(40)
		emit(fmt.Sprintf("lradius dec %d %s %s", c, hx(foreignOf(c)), hx(f)))
		emit("lradius redec " + hx(f))
		emit("lradius pb " + hx(f))
		for _, m := range []string{"copy", "nocopy", "lazy", "pool"} {
			emit(fmt.Sprintf("lradius pkt %s %d %s %s", m, c, hx(foreignOf(c)), hx(f)))
		}
		emit("lradius dlp " + hx(f))
		emit("lradius redlp " + hx(f))
		emit("lradius rtdec " + hx(f))
		// padding behind the Length field (truncation flag, data cut)
		p := append(append([]byte(nil), f...), r.Bytes(1+r.Intn(9))...)
		emit(fmt.Sprintf("lradius dec %d %s %s", c, hx(foreignOf(c)), hx(p)))
		emit("lradius redec " + hx(p))
		emit("lradius rtdec " + hx(p))
		emit("lradius redlp " + hx(p))
	}

	// B. every truncation 0…len of each fixture
	for i := 0; i < lim(len(fx), 8); i++ {
		f := fx[i]
		emit("reset")
		for n := 0; n <= len(f); n++ {
			if !(n <= 24 || n >= len(f)-4 || thorough || r.Chance(25)) {
				continue
			}
			t := f[:n]
			c := r.Intn(12)
			emit(fmt.Sprintf("lradius dec %d %s %s", c, hx(foreignOf(c)), hx(t)))
			if n >= 20 {
				// the Length field cut down with the bytes: the attribute area is what is truncated
				t2 := setLen(t, n)
				emit(fmt.Sprintf("lradius dec %d %s %s", c, hx(foreignOf(c)), hx(t2)))
				emit("lradius redec " + hx(t2))
				if r.Chance(30) {
					emit("lradius rtdec " + hx(t2))
					emit("lradius redlp " + hx(t2))
				}
			}
			if n <= 4 || (n >= 18 && n <= 24) || r.Chance(10) {
				emit("lradius pb " + hx(t))
				emit(fmt.Sprintf("lradius pkt nocopy %d %s %s", c, hx(foreignOf(c)), hx(t)))
				emit("lradius redlp " + hx(t))
				emit("lradius redec " + hx(t))
			}
		}
	}

	// C. single-field mutations to boundary values
	for i := 0; i < lim(len(fx), 8); i++ {
		f := fx[i]
		emit("reset")
		for _, v := range []int{0, 1, 19, 20, 21, 22, len(f) - 1, len(f), len(f) + 1, 4095, 4096, 4097, 0x8000, 0xffff, r.Intn(65536)} {
			if v < 0 {
				continue
			}
			m := setLen(f, v)
			c := r.Intn(9)
			emit(fmt.Sprintf("lradius dec %d %s %s", c, hx(foreignOf(c)), hx(m)))
			emit("lradius redec " + hx(m))
			emit("lradius rtdec " + hx(m))
			if r.Chance(40) {
				emit("lradius redlp " + hx(m))
				emit("lradius pb " + hx(m))
			}
		}
		for off := 0; off < 20; off++ {
			if off == 2 || off == 3 {
				continue
			}
			emit("lradius redec " + hx(setByte(f, off, r.Pick([]int{0, 0xff, r.Intn(256)}))))
		}
		for _, off := range attrOffsets(f) {
			rest := len(f) - off
			for _, v := range []int{0, 1, 2, 3, int(f[off+1]) - 1, int(f[off+1]) + 1, rest - 1, rest, rest + 1, 127, 128, 254, 255} {
				if v < 0 || v > 255 {
					continue
				}
				m := setByte(f, off+1, v)
				c := r.Intn(9)
				emit(fmt.Sprintf("lradius dec %d %s %s", c, hx(foreignOf(c)), hx(m)))
				emit("lradius redec " + hx(m))
				emit("lradius rtdec " + hx(m))
				if r.Chance(25) {
					emit("lradius redlp " + hx(m))
					emit(fmt.Sprintf("lradius pkt nocopy %d %s %s", c, hx(foreignOf(c)), hx(m)))
				}
			}
			for _, v := range []int{0, 79, 80, 255} {
				m := setByte(f, off, v)
				emit("lradius redec " + hx(m))
				emit("lradius rtdec " + hx(m))
			}
		}
	}
	// attribute areas of every kind: exhaustive over a byte alphabet up to length 4 (quick: 3 + a sample of 4)
	{
		alpha := []int{0, 1, 2, 3, 79, 255}
		emit("reset")
		var rec func(cur []byte, depth int)
		rec = func(cur []byte, depth int) {
			if len(cur) > 0 {
				if thorough || len(cur) <= 3 || r.Chance(12) {
					m := append(header20(r, 20+len(cur)), cur...)
					c := r.Intn(6)
					emit(fmt.Sprintf("lradius dec %d %s %s", c, hx(foreignOf(c)), hx(m)))
					emit("lradius redec " + hx(m))
					if len(cur) <= 2 || r.Chance(20) {
						emit("lradius rtdec " + hx(m))
						emit("lradius redlp " + hx(m))
					}
				}
			}
			if depth == 0 {
				return
			}
			for _, a := range alpha {
				rec(append(append([]byte(nil), cur...), byte(a)), depth-1)
			}
		}
		rec(nil, 4)
	}
	// structured random attribute lists incl. malformed lengths (0, 1, > remaining)
	nopt := 200
	if thorough {
		nopt = 6000
	}
	randMsg := func() []byte {
		n := r.Intn(7)
		area := []byte{}
		for j := 0; j < n; j++ {
			dl := r.Pick([]int{0, 1, 2, 4, 16, 100, 253})
			ll := dl + 2
			if r.Chance(12) {
				ll = r.Pick([]int{0, 1, dl + 3, 255, r.Intn(256)}) // malformed
			}
			area = append(area, byte(r.Pick([]int{1, 2, 4, 26, 79, 79, 80, r.Intn(256)})), byte(ll))
			area = append(area, r.Bytes(dl)...)
		}
		if r.Chance(10) {
			area = append(area, r.Bytes(1)...) // one dangling byte
		}
		total := 20 + len(area)
		if r.Chance(10) {
			total += r.Pick([]int{-1, 1, -2, 5})
		}
		m := append(header20(r, total), area...)
		if r.Chance(20) {
			m = append(m, r.Bytes(1+r.Intn(6))...) // padding
		}
		return m
	}
	for c := 0; c < nopt; c++ {
		if c%2 == 0 {
			emit("reset")
		}
		m := randMsg()
		sp := r.Intn(10)
		emit(fmt.Sprintf("lradius dec %d %s %s", sp, hx(foreignOf(sp)), hx(m)))
		emit("lradius redec " + hx(m))
		emit("lradius rtdec " + hx(m))
		if r.Chance(40) {
			emit("lradius redlp " + hx(m))
			emit("lradius pb " + hx(m))
			emit(fmt.Sprintf("lradius pkt %s %d %s %s", pickS(r, "copy", "nocopy", "lazy", "pool"), sp, hx(foreignOf(sp)), hx(m)))
		}
	}
	// the size limits: 4095, 4096, 4097 bytes of message
	for _, n := range []int{4094, 4095, 4096, 4097} {
		emit("reset")
		m := header20(r, n)
		for len(m)+255 <= n {
			m = append(m, 26, 255)
			m = append(m, r.Bytes(253)...)
		}
		if rest := n - len(m); rest >= 2 {
			m = append(m, 26, byte(rest))
			m = append(m, r.Bytes(rest-2)...)
		} else {
			m = append(m, r.Bytes(rest)...)
		}
		emit("lradius dec 3 aabbcc " + hx(m))
		emit("lradius redec " + hx(m))
		emit("lradius rtdec " + hx(m))
		emit("lradius redlp " + hx(m))
	}

	// D. stale-state sequences into the same object (direct and via the parser)
	nseq := 150
	if thorough {
		nseq = 3000
	}
	pick := func() []byte {
		f := fx[r.Intn(len(fx))]
		switch r.Intn(10) {
		case 0:
			return f[:r.Intn(len(f)+1)]
		case 1, 2:
			return setLen(f[:20], 20) // no attributes: the path that returns before the loops
		case 3:
			return setLen(f, r.Pick([]int{0, 19, 4097, len(f) + 1}))
		case 4:
			offs := attrOffsets(f)
			if len(offs) > 0 {
				return setByte(f, offs[r.Intn(len(offs))]+1, r.Pick([]int{0, 1, 255}))
			}
			return f
		case 5:
			return r.Bytes(r.Intn(60))
		case 6, 7:
			return randMsg()
		}
		return f
	}
	for c := 0; c < nseq; c++ {
		emit("reset")
		n := 2 + r.Intn(4)
		for i := 0; i < n; i++ {
			f := pick()
			emit("lradius redec " + hx(f))
			emit("lradius redlp " + hx(f))
		}
	}

	// E. serialisation
	psizes := []int{0, 0, 0, 1, 2, 3, 17, 101, 1480, 1499, 1500, 1501, 1520}
	hists := []string{"fresh", "dirty165", "dirty90", "dirty255", "sized0", "sized8", "sized300", "sized3000"}
	nser := 300
	if thorough {
		nser = 9000
	}
	payloadTok := func(n int) string {
		if n > 200 && r.Chance(70) {
			return fmt.Sprintf("z%dx%02x", n, r.Intn(256))
		}
		return hx(r.Bytes(n))
	}
	attrTok := func(wf bool) string {
		t := r.Pick([]int{1, 2, 4, 26, 79, 79, 80, r.Intn(256)})
		if wf {
			n := r.Pick([]int{1, 1, 2, 4, 4, 16, 40, 253})
			return fmt.Sprintf("%d:%d:%s", t, r.Pick([]int{n + 2, n + 2, r.Intn(256)}), hx(r.Bytes(n)))
		}
		switch r.Intn(8) {
		case 0:
			return fmt.Sprintf("%d:%d:-", t, r.Pick([]int{0, 2, 7}))
		case 1:
			n := r.Pick([]int{254, 255})
			return fmt.Sprintf("%d:%d:%s", t, r.Intn(256), hx(r.Bytes(n)))
		case 2:
			n := r.Pick([]int{256, 257, 300})
			return fmt.Sprintf("%d:%d:%s", t, r.Intn(256), hx(r.Bytes(n)))
		case 3:
			n := r.Intn(20)
			return fmt.Sprintf("%d:%d:%s", t, r.Pick([]int{0, 1, n, n + 3, 255}), hx(r.Bytes(n)))
		}
		n := r.Pick([]int{1, 2, 4, 16, 253})
		return fmt.Sprintf("%d:%d:%s", t, n+2, hx(r.Bytes(n)))
	}
	attrsTok := func(wf bool) string {
		switch r.Intn(12) {
		case 0:
			return "-"
		case 1:
			if wf {
				return fmt.Sprintf("r%dx26:255:%s", r.Pick([]int{3, 15, 16}), hx(r.Bytes(253))) // up to 4100 bytes
			}
			if !thorough && r.Chance(50) {
				return fmt.Sprintf("r%dx26:255:%s", r.Pick([]int{16, 17}), hx(r.Bytes(253)))
			}
			return fmt.Sprintf("r%dx26:255:%s", r.Pick([]int{17, 257, 258, 300}), hx(r.Bytes(253))) // beyond 4096 and beyond 65535 (Length wraps)
		}
		n := 1 + r.Intn(6)
		parts := make([]string, n)
		for i := range parts {
			parts[i] = attrTok(wf)
		}
		return strings.Join(parts, ",")
	}
	layerTok := func(wf bool) string {
		// boundary values of every scalar field (0 is what a fresh buffer holds: a store that is skipped shows only on a dirty one)
		auth := r.Bytes(16)
		if r.Chance(15) {
			auth = make([]byte, 16)
		}
		return fmt.Sprintf("%d %d %d %s %s", r.Pick([]int{0, 1, 2, 11, 255, r.Intn(256)}), r.Pick([]int{0, 0, 255, r.Intn(256)}),
			r.Pick([]int{0, 20, 4096, r.Intn(65536)}), hx(auth), attrsTok(wf))
	}
	for c := 0; c < nser; c++ {
		emit("reset")
		n := r.Pick(psizes)
		lt := layerTok(r.Chance(50))
		emit(fmt.Sprintf("lradius ser %d %d %s %s %s", r.Intn(2), r.Intn(2), hists[r.Intn(len(hists))], lt, payloadTok(n)))
		if r.Chance(70) {
			emit(fmt.Sprintf("lradius rt %s %s", lt, payloadTok(r.Pick([]int{0, 0, 0, n}))))
		}
		if r.Chance(20) {
			emit("lradius len " + strings.Fields(lt)[4])
		}
	}
	// every {fix,csum} x every history on fixed shapes
	au := strings.Repeat("a7", 16)
	for _, shape := range []string{
		"1 7 0 " + au + " 1:7:616c696365,2:18:" + strings.Repeat("5c", 16) + ",4:6:0a000001",       // consistent
		"2 7 20 " + au + " -",                                                                       // no attributes
		"0 0 0 00000000000000000000000000000000 1:3:00",                                               // every scalar field zero
		"11 9 3 " + au + " 79:9:01020005010203,79:4:0405,80:18:" + strings.Repeat("11", 16),         // EAP payload
		"1 1 0 " + au + " 1:0:61,1:1:6162,1:200:616263",                                             // Length fields inconsistent (only FixLengths repairs them)
		"1 1 0 " + au + " 1:2:-,2:3:00",                                                             // an empty value
		"1 1 0 " + au + " 26:255:" + strings.Repeat("5a", 253) + ",26:0:" + strings.Repeat("5b", 254), // 254 bytes: too long
		"1 1 0 " + au + " r300x26:255:" + strings.Repeat("5a", 253),                                 // 76 KB: Length wraps
	} {
		for _, n := range []int{0, 5} {
			for fix := 0; fix < 2; fix++ {
				for cs := 0; cs < 2; cs++ {
					emit("reset")
					hs := hists
					if strings.Contains(shape, "r300x") {
						if n != 0 {
							continue
						}
						hs = []string{"fresh", "dirty165"}
					}
					for _, h := range hs {
						emit(fmt.Sprintf("lradius ser %d %d %s %s %s", fix, cs, h, shape, payloadTok(n)))
					}
					emit(fmt.Sprintf("lradius rt %s %s", shape, payloadTok(n)))
				}
			}
		}
	}
	// bytes around the MTU and beyond 64 KiB behind a RADIUS message
	big := []int{1500, 65535, 65536, 70000}
	if !thorough {
		big = []int{1500, 65537}
	}
	for _, n := range big {
		emit("reset")
		emit(fmt.Sprintf("lradius ser 1 1 dirty165 1 7 0 %s 1:7:616c696365 z%dx5a", au, n))
		emit(fmt.Sprintf("lradius rt 1 7 0 %s 1:7:616c696365 z%dx5a", au, n))
	}

	// F. malformed stream
	nmal := 200
	if thorough {
		nmal = 6000
	}
	for c := 0; c < nmal; c++ {
		emit("reset")
		n := r.Intn(40)
		if r.Chance(30) {
			n = 18 + r.Intn(8)
		}
		d := r.Bytes(n)
		if n >= 20 && r.Chance(80) {
			l := r.Pick([]int{n, n, n, n - 1, n + 1, 20})
			d[2], d[3] = byte(l>>8), byte(l)
		}
		sp := r.Intn(20)
		emit(fmt.Sprintf("lradius dec %d %s %s", sp, hx(foreignOf(sp)), hx(d)))
		emit("lradius dlp " + hx(d))
		emit("lradius rtdec " + hx(d))
		if r.Chance(30) {
			emit(fmt.Sprintf("lradius pkt %s %d %s %s", pickS(r, "copy", "nocopy", "lazy", "pool"), sp, hx(foreignOf(sp)), hx(d)))
			emit("lradius pb " + hx(d))
		}
	}
	// unparseable ops: both sides answer bad-op
	emit("reset")
	emit("lradius dec x - 00")
	emit("lradius dec 1 - 00")
	emit("lradius ser 1 1 fresh 1 2 3")
	emit("lradius len 1:2")
	emit("lradius nonsense")
}

func pickS(r *lib.Rand, xs ...string) string { return xs[r.Intn(len(xs))] }
