// gp-lradius: correspondence adapter + monitors for engine `lradius`
// (layers/radius.go: RADIUS.DecodeFromBytes, Len, attributeValueLength, SerializeTo, NextLayerType, CanDecode,
// decodeRADIUS, and the DecodingLayerParser over {RADIUS}).
//
// Properties served: C19 (no panics), C05 (no stale state / capacity independence / packet path =
// preallocated path), C06 (round trip), C07 (serializer totality, buffer independence, idempotence).
// RADIUS exposes no flow (C17 has no instance here).
package main

import (
	"bytes"
	"errors"
	"fmt"
	"os"
	"runtime/debug"
	"strings"

	"github.com/gopacket/gopacket"
	"github.com/gopacket/gopacket/layers"
	"verif/harness/lib"
)

// ---------------------------------------------------------------- state of one case

var (
	cur    *layers.RADIUS // object re-used by `redec`
	pObj   *layers.RADIUS // object owned by the DecodingLayerParser
	parser *gopacket.DecodingLayerParser
)

func reset() {
	cur = &layers.RADIUS{}
	newParser()
}

func newParser() {
	pObj = &layers.RADIUS{}
	parser = gopacket.NewDecodingLayerParser(layers.LayerTypeRADIUS, pObj)
	parser.IgnorePanic = true // let panics through (C19: "a layer parser that lets panics through")
}

type feedback struct{ truncated bool }

func (f *feedback) SetTruncated() { f.truncated = true }

func b01(b bool) string {
	if b {
		return "1"
	}
	return "0"
}

func renderOpts(os []layers.RADIUSAttribute) string {
	if len(os) == 0 {
		return "-"
	}
	parts := make([]string, len(os))
	for i, o := range os {
		parts[i] = fmt.Sprintf("%d:%d:%s", byte(o.Type), byte(o.Length), lib.Hex(o.Value))
	}
	return strings.Join(parts, ",")
}

func render(l *layers.RADIUS) string {
	return fmt.Sprintf("code=%d id=%d len=%d auth=%s attrs=%s contents=%s payload=%s next=%d",
		byte(l.Code), byte(l.Identifier), uint16(l.Length), lib.Hex(l.Authenticator[:]), renderOpts(l.Attributes),
		lib.Hex(l.Contents), lib.Hex(l.Payload()), int(l.NextLayerType()))
}

// differingField names the first public field (incl. Contents/Payload unless base is false) in which two layers differ.
func differingField(x, y *layers.RADIUS, base bool) string {
	switch {
	case x.Code != y.Code:
		return "Code"
	case x.Identifier != y.Identifier:
		return "Identifier"
	case x.Length != y.Length:
		return "Length"
	case x.Authenticator != y.Authenticator:
		return "Authenticator"
	case len(x.Attributes) != len(y.Attributes):
		return "Attributes"
	}
	for i := range x.Attributes {
		a, b := x.Attributes[i], y.Attributes[i]
		if a.Type != b.Type || a.Length != b.Length || !bytes.Equal(a.Value, b.Value) {
			return "Attributes"
		}
	}
	if base {
		switch {
		case !bytes.Equal(x.Contents, y.Contents):
			return "Contents"
		case !bytes.Equal(x.LayerPayload(), y.LayerPayload()):
			return "Payload"
		}
	}
	return ""
}

// inBuf places data at the start of a backing array with `len(foreign)` spare bytes of capacity holding
// the foreign bytes, and returns the slice data[:len] with cap = len + len(foreign).
func inBuf(data, foreign []byte) []byte {
	back := make([]byte, len(data)+len(foreign))
	copy(back, data)
	copy(back[len(data):], foreign)
	return back[:len(data)]
}

func exact(data []byte) []byte { // cap == len
	c := make([]byte, len(data))
	copy(c, data)
	return c[:len(data):len(data)]
}

func isOurSite(site string) bool {
	return strings.HasPrefix(site, "layers/radius.go")
}

// protect is lib.Protect with a panic-site extraction that also works when the repository under test
// is a scratch tree (VERIF_REPO): the site is the top-most stack frame inside the repository.
var lastSite, lastMsg string

func protect(f func() string) (reply string, panicked bool) {
	defer func() {
		if v := recover(); v != nil {
			lastMsg = fmt.Sprint(v)
			lastSite = siteOf(string(debug.Stack()))
			reply = "panic " + lib.PanicKind(v)
			panicked = true
		}
	}()
	return f(), false
}

func siteOf(stack string) string {
	root := os.Getenv("VERIF_REPO")
	if root == "" {
		root = "/repo"
	}
	root = strings.TrimRight(root, "/") + "/"
	for _, l := range strings.Split(stack, "\n") {
		l = strings.TrimSpace(l)
		if !strings.Contains(l, ".go:") {
			continue
		}
		f := strings.Fields(l)[0]
		if strings.HasPrefix(f, root) {
			return f[len(root):]
		}
		if j := strings.LastIndex(f, "gopacket/"); j >= 0 && !strings.Contains(f, "/verif/") {
			return f[j+len("gopacket/"):]
		}
	}
	return "?"
}

// guarded runs f; a panic is reported as a C19 finding with its site and returned as "panic <kind>".
func guarded(what string, f func() string) string {
	reply, panicked := protect(f)
	if panicked {
		lib.Finding("C19", "lradius:panic:"+lastSite, what+" panicked: "+lastMsg)
		lib.Stat("panic")
	}
	return reply
}

// ---------------------------------------------------------------- decode ops

// decInto: DecodeFromBytes into obj; the reply renders the receiver on an error too (what the failed call left).
func decInto(obj *layers.RADIUS, data []byte) (string, error, bool) {
	fb := &feedback{}
	err := obj.DecodeFromBytes(data, fb)
	if err != nil {
		return "err trunc=" + b01(fb.truncated) + " | " + render(obj), err, fb.truncated
	}
	return "ok " + render(obj) + " trunc=" + b01(fb.truncated), nil, fb.truncated
}

func statDec(obj *layers.RADIUS, data []byte, err error) {
	if err != nil {
		switch {
		case len(data) < 20:
			lib.Stat("dec:err:short")
		case len(data) > 4096:
			lib.Stat("dec:err:long")
		default:
			l := int(data[2])<<8 | int(data[3])
			switch {
			case l > 4096:
				lib.Stat("dec:err:Length>4096")
			case l < 20:
				lib.Stat("dec:err:Length<20")
			case l > len(data):
				lib.Stat("dec:err:Length>len")
			default:
				lib.Stat("dec:err:attribute")
			}
		}
		return
	}
	lib.Stat("dec:ok")
	lib.Nontrivial()
	l := int(data[2])<<8 | int(data[3])
	if l < len(data) {
		lib.Stat("dec:ok:padding-behind-Length")
	}
	if l == 20 {
		lib.Stat("dec:ok:no-attributes")
	}
	if len(obj.Attributes) > 0 {
		lib.Stat("dec:ok:attributes")
	}
	used := 20
	for _, a := range obj.Attributes {
		used += len(a.Value) + 2
		if len(a.Value) == 253 {
			lib.Stat("dec:attr:len255")
		}
		if a.Type == layers.RADIUSAttributeTypeEAPMessage {
			lib.Stat("dec:attr:eap")
		}
	}
	if used < l {
		lib.Stat("dec:ok:empty-attribute-dropped")
	}
	if len(obj.LayerPayload()) > 0 {
		lib.Stat("dec:ok:eap-payload")
	}
}

func opDec(extra int, foreign, data []byte) string {
	if len(foreign) != extra {
		return "bad-op"
	}
	return guarded("RADIUS.DecodeFromBytes", func() string {
		obj := &layers.RADIUS{}
		cur = obj
		reply, err, _ := decInto(obj, inBuf(data, foreign))
		statDec(obj, data, err)
		if got := obj.CanDecode(); got != gopacket.LayerClass(layers.LayerTypeRADIUS) {
			lib.Finding("C05", "lradius:candecode", "CanDecode is not the layer's own type")
		}
		// C05/C04 oracle: the same bytes in a buffer with cap == len
		ref := &layers.RADIUS{}
		refReply, _, _ := decInto(ref, exact(data))
		if reply != refReply {
			lib.Finding("C05", "lradius:cap-dependent", "decode depends on spare capacity / foreign bytes: "+reply+" vs "+refReply)
		}
		if extra > 0 {
			lib.Stat("dec:spare-cap")
		}
		if err == nil {
			// renderers on whatever the decoder produced (recovered by `guarded`)
			_ = obj.Code.String()
			for _, a := range obj.Attributes {
				_ = a.Type.String()
			}
		}
		return reply
	})
}

func opRedec(data []byte) string {
	return guarded("RADIUS.DecodeFromBytes", func() string {
		obj := cur
		reply, err, tr := decInto(obj, exact(data))
		statDec(obj, data, err)
		lib.Stat("redec")
		fresh := &layers.RADIUS{}
		fb := &feedback{}
		ferr := fresh.DecodeFromBytes(exact(data), fb)
		if (ferr != nil) != (err != nil) {
			lib.Finding("C05", "lradius:stale:error", "reused object and fresh object disagree on the error")
		} else {
			if err == nil {
				if f := differingField(obj, fresh, true); f != "" {
					lib.Finding("C05", "lradius:stale:"+f, "RADIUS."+f+" differs between a reused and a fresh object")
				}
			}
			if fb.truncated != tr {
				lib.Finding("C05", "lradius:stale:Truncated", "truncation flag differs between a reused and a fresh object")
			}
		}
		return reply
	})
}

// ---------------------------------------------------------------- serialize ops

const dirtyFill = 1024

func mkBuffer(hist string) (gopacket.SerializeBuffer, bool) {
	switch {
	case hist == "fresh":
		return gopacket.NewSerializeBuffer(), true
	case strings.HasPrefix(hist, "dirty"):
		v, ok := lib.Atoi(hist[5:])
		if !ok || v < 0 || v > 255 {
			return nil, false
		}
		b := gopacket.NewSerializeBuffer()
		s, _ := b.AppendBytes(dirtyFill)
		for i := range s {
			s[i] = byte(v)
		}
		s, _ = b.PrependBytes(dirtyFill)
		for i := range s {
			s[i] = byte(v)
		}
		b.Clear()
		return b, true
	case strings.HasPrefix(hist, "sized"):
		n, ok := lib.Atoi(hist[5:])
		if !ok || n < 0 || n >= 100000 {
			return nil, false
		}
		return gopacket.NewSerializeBufferExpectedSize(n, n), true
	}
	return nil, false
}

func parsePayload(s string) ([]byte, bool) {
	if strings.HasPrefix(s, "z") {
		parts := strings.Split(s[1:], "x")
		if len(parts) != 2 {
			return nil, false
		}
		n, ok := lib.Atoi(parts[0])
		v, ok2 := lib.UnHex(parts[1])
		if !ok || !ok2 || len(v) != 1 || n < 0 || n > 200000 {
			return nil, false
		}
		return bytes.Repeat(v, n), true
	}
	return lib.UnHex(s)
}

func parseBool(s string) (bool, bool) {
	switch s {
	case "1":
		return true, true
	case "0":
		return false, true
	}
	return false, false
}

func atoiBelow(s string, bound int64) (int64, bool) {
	n, ok := lib.Atou(s)
	if !ok || int64(n) < 0 || int64(n) >= bound {
		return 0, false
	}
	return int64(n), true
}

func parseOpt(s string) (layers.RADIUSAttribute, bool) {
	p := strings.Split(s, ":")
	if len(p) != 3 {
		return layers.RADIUSAttribute{}, false
	}
	t, ok1 := atoiBelow(p[0], 256)
	l, ok2 := atoiBelow(p[1], 256)
	d, ok3 := lib.UnHex(p[2])
	if !(ok1 && ok2 && ok3) {
		return layers.RADIUSAttribute{}, false
	}
	return layers.RADIUSAttribute{Type: layers.RADIUSAttributeType(t), Length: layers.RADIUSAttributeLength(l), Value: d}, true
}

// parseOpts: `-`, `t:l:hex,…` or `r<n>x<t:l:hex>` (n copies of one attribute).
func parseOpts(s string) ([]layers.RADIUSAttribute, bool) {
	if s == "-" {
		return nil, true
	}
	if strings.HasPrefix(s, "r") {
		p := strings.Split(s[1:], "x")
		if len(p) != 2 {
			return nil, false
		}
		n, ok := lib.Atoi(p[0])
		o, ok2 := parseOpt(p[1])
		if !ok || !ok2 || n < 0 || n > 3000 {
			return nil, false
		}
		out := make([]layers.RADIUSAttribute, n)
		for i := range out {
			out[i] = o
		}
		return out, true
	}
	var out []layers.RADIUSAttribute
	for _, t := range strings.Split(s, ",") {
		o, ok := parseOpt(t)
		if !ok {
			return nil, false
		}
		out = append(out, o)
	}
	return out, true
}

func cp(b []byte) []byte { return append([]byte{}, b...) }

func cpOpts(os []layers.RADIUSAttribute) []layers.RADIUSAttribute {
	if os == nil {
		return nil
	}
	out := make([]layers.RADIUSAttribute, len(os))
	for i, o := range os {
		out[i] = layers.RADIUSAttribute{Type: o.Type, Length: o.Length, Value: cp(o.Value)}
	}
	return out
}

// parseLayer: code id length auth(16 bytes) attrs
func parseLayer(a []string) (func() *layers.RADIUS, bool) {
	if len(a) != 5 {
		return nil, false
	}
	code, ok1 := atoiBelow(a[0], 256)
	id, ok2 := atoiBelow(a[1], 256)
	length, ok3 := atoiBelow(a[2], 65536)
	auth, ok4 := lib.UnHex(a[3])
	attrs, ok5 := parseOpts(a[4])
	if !(ok1 && ok2 && ok3 && ok4 && ok5) || len(auth) != 16 {
		return nil, false
	}
	return func() *layers.RADIUS {
		r := &layers.RADIUS{Code: layers.RADIUSCode(code), Identifier: layers.RADIUSIdentifier(id),
			Length: layers.RADIUSLength(length), Attributes: cpOpts(attrs)}
		copy(r.Authenticator[:], auth)
		return r
	}, true
}

func putPayload(b gopacket.SerializeBuffer, p []byte) {
	gopacket.Payload(p).SerializeTo(b, gopacket.SerializeOptions{})
}

// serOnce serialises layer l over payload p into buffer b; returns (bytes, error?) and converts a
// panic into a C07 finding.
func serOnce(l *layers.RADIUS, b gopacket.SerializeBuffer, p []byte, opts gopacket.SerializeOptions) (out []byte, failed bool, panicked bool) {
	reply, pk := protect(func() string {
		putPayload(b, p)
		if err := l.SerializeTo(b, opts); err != nil {
			return "err"
		}
		return "ok"
	})
	if pk {
		lib.Finding("C07", "lradius:ser-panic:"+lastSite, "SerializeTo panicked: "+lastMsg)
		return nil, false, true
	}
	if reply == "err" {
		return nil, true, false
	}
	return append([]byte(nil), b.Bytes()...), false, false
}

// serMonitors: the C07 oracles on the real code for one (layer, payload, options).
// mk must return a NEW layer object with the same public field values on every call.
func serMonitors(mk func() *layers.RADIUS, p []byte, opts gopacket.SerializeOptions, got []byte, gotErr bool) {
	// (a) buffer independence: fresh, dirty 0xA5 / 0x5A, pre-sized
	for _, h := range []string{"fresh", "dirty165", "dirty90", "sized7", "sized2000"} {
		b, _ := mkBuffer(h)
		out, failed, pk := serOnce(mk(), b, p, opts)
		if pk {
			return
		}
		if failed != gotErr || (!failed && !bytes.Equal(out, got)) {
			lib.Finding("C07", "lradius:dirty-buffer", "output differs between buffer histories ("+h+")")
			return
		}
	}
	// (b) idempotence: the same (mutated) object again over the same payload
	l := mk()
	o1, f1, pk := serOnce(l, gopacket.NewSerializeBuffer(), p, opts)
	if pk {
		return
	}
	o2, f2, pk := serOnce(l, gopacket.NewSerializeBuffer(), p, opts)
	if pk {
		return
	}
	if f1 != f2 || !bytes.Equal(o1, o2) {
		what := "bytes differ"
		if f1 != f2 {
			what = fmt.Sprintf("first call error=%v, second call error=%v", f1, f2)
		}
		lib.Finding("C07", "lradius:not-idempotent", "serialising the same layer twice differs: "+what)
	}
}

func statLayer(l *layers.RADIUS) {
	if len(l.Attributes) == 0 {
		lib.Stat("ser:attrs:none")
	}
	for _, o := range l.Attributes {
		switch {
		case len(o.Value) == 0:
			lib.Stat("ser:attr:empty-value")
		case len(o.Value) > 255:
			lib.Stat("ser:attr:value>255")
		case len(o.Value) > 253:
			lib.Stat("ser:attr:value-254-255")
		case int(o.Length) != len(o.Value)+2:
			lib.Stat("ser:attr:Length-inconsistent")
		default:
			lib.Stat("ser:attr:consistent")
		}
	}
}

func opSer(a []string) string {
	// fix csum hist <5 fields> payload
	if len(a) != 9 {
		return "bad-op"
	}
	fix, ok1 := parseBool(a[0])
	csum, ok2 := parseBool(a[1])
	b, ok3 := mkBuffer(a[2])
	p, ok4 := parsePayload(a[8])
	mk, ok5 := parseLayer(a[3:8])
	if !(ok1 && ok2 && ok3 && ok4 && ok5) {
		return "bad-op"
	}
	opts := gopacket.SerializeOptions{FixLengths: fix, ComputeChecksums: csum}
	l := mk()
	statLayer(l)
	out, failed, pk := serOnce(l, b, p, opts)
	if pk {
		return "panic " + lib.PanicKind(lastMsg)
	}
	serMonitors(mk, p, opts, out, failed)
	if a[2] != "fresh" {
		lib.Stat("ser:buf:" + strings.TrimRight(a[2], "0123456789"))
	}
	lib.Stat(fmt.Sprintf("ser:opts:fix%s-csum%s", a[0], a[1]))
	tail := fmt.Sprintf(" len=%d", uint16(l.Length)) // the receiver after the call (FixLengths mutates it)
	if failed {
		lib.Stat("ser:err")
		return "err" + tail
	}
	lib.Stat("ser:ok")
	lib.Nontrivial()
	return "ok bytes=" + lib.Hex(out) + tail
}

// ---------------------------------------------------------------- round trip

var rtOpts = gopacket.SerializeOptions{FixLengths: true, ComputeChecksums: true}

func copyLayer(x *layers.RADIUS) *layers.RADIUS {
	c := *x
	c.Attributes = cpOpts(x.Attributes)
	return &c
}

// wfExpect: is the layer inside the round-trip claim, and what must come back (the layer after FixLengths).
func wfExpect(l *layers.RADIUS) (bool, *layers.RADIUS) {
	w := copyLayer(l)
	ok := true
	n := 20
	for i := range w.Attributes {
		v := len(w.Attributes[i].Value)
		if v < 1 || v > 253 {
			ok = false
		}
		n += v + 2
		w.Attributes[i].Length = layers.RADIUSAttributeLength(v + 2)
	}
	if n > 4096 {
		ok = false
	}
	w.Length = layers.RADIUSLength(n)
	return ok, w
}

func eapOf(l *layers.RADIUS) []byte {
	var out []byte
	for _, a := range l.Attributes {
		if a.Type == layers.RADIUSAttributeTypeEAPMessage {
			out = append(out, a.Value...)
		}
	}
	return out
}

// rt: SerializeLayers(layer, payload) with fix+csum, decode, serialise the decoded layer again.
func rt(l *layers.RADIUS, p []byte, decoded bool) string {
	wf, want := wfExpect(l)
	if len(p)+int(want.Length) > 4096 {
		wf = false // a RADIUS datagram has at most 4096 bytes
	}
	buf := gopacket.NewSerializeBuffer()
	if err := gopacket.SerializeLayers(buf, rtOpts, l, gopacket.Payload(p)); err != nil {
		lib.Stat("rt:ser-err")
		if wf {
			lib.Finding("C06", "lradius:roundtrip:ser-error", "serialising a well-formed layer fails")
		}
		return "ser-err"
	}
	out := append([]byte(nil), buf.Bytes()...)
	d := &layers.RADIUS{}
	dreply, derr, dtr := decInto(d, exact(out))
	again := "none"
	if derr == nil {
		buf2 := gopacket.NewSerializeBuffer()
		if err := gopacket.SerializeLayers(buf2, rtOpts, d, gopacket.Payload(p)); err != nil {
			again = "err"
		} else if bytes.Equal(buf2.Bytes(), out) {
			again = "same"
		} else {
			again = "diff"
		}
	}
	// C06 oracle (independent statement of the property for this layer).  The payload of a RADIUS layer is carried
	// INSIDE the message (the EAP-Message attributes); bytes written behind the message are padding for the decoder
	// (truncation flag, RFC 2865: "octets outside the range of the Length field MUST be treated as padding"), so the
	// no-truncation clause is claimed for the empty buffer payload.
	if wf {
		lib.Stat("rt:wf")
		lib.Nontrivial()
		switch {
		case derr != nil:
			lib.Finding("C06", "lradius:roundtrip:decode-error", "decoding the serialised well-formed layer fails")
		case len(p) == 0 && dtr:
			lib.Finding("C06", "lradius:roundtrip:Truncated", "truncation flag set on a round trip")
		case differingField(d, want, false) != "":
			f := differingField(d, want, false)
			lib.Finding("C06", "lradius:roundtrip:"+f, "RADIUS."+f+" changed on a round trip")
		case !bytes.Equal(d.LayerPayload(), eapOf(l)):
			lib.Finding("C06", "lradius:roundtrip:Payload", "payload (EAP-Message bytes) changed on a round trip")
		case again != "same":
			lib.Finding("C06", "lradius:roundtrip:reserialize", "serialising the decoded layer again gives "+again)
		}
		if len(p) > 0 {
			lib.Stat("rt:bytes-behind-message")
		}
	} else if decoded {
		// every decoded layer must be inside the claim
		lib.Finding("C06", "lradius:roundtrip:decoded-not-wf", "a decoded layer is outside the well-formedness predicate")
	} else {
		lib.Stat("rt:not-wf")
	}
	return "ok bytes=" + lib.Hex(out) + " | " + dreply + " | again=" + again
}

func opRt(a []string) string {
	if len(a) != 6 {
		return "bad-op"
	}
	p, ok := parsePayload(a[5])
	mk, ok2 := parseLayer(a[:5])
	if !ok || !ok2 {
		return "bad-op"
	}
	r, pk := protect(func() string { return rt(mk(), p, false) })
	if pk {
		lib.Finding("C07", "lradius:ser-panic:"+lastSite, "round trip panicked: "+lastMsg)
	}
	return r
}

func opRtDec(data []byte) string {
	return guarded("decode+round trip", func() string {
		l := &layers.RADIUS{}
		if err := l.DecodeFromBytes(exact(data), &feedback{}); err != nil {
			return "dec-err"
		}
		lib.Stat("rtdec")
		return rt(l, nil, true)
	})
}

// ---------------------------------------------------------------- tracing PacketBuilder

type tracer struct {
	acts  []string
	tail  string
	added gopacket.Layer
}

func (t *tracer) SetTruncated() { // idempotent on the real builder (sets a flag): recorded once
	for _, x := range t.acts {
		if x == "trunc" {
			return
		}
	}
	t.acts = append(t.acts, "trunc")
}
func (t *tracer) AddLayer(l gopacket.Layer) {
	t.acts = append(t.acts, fmt.Sprintf("add:%d", int(l.LayerType())))
	t.added = l
}
func (t *tracer) SetLinkLayer(gopacket.LinkLayer)               { t.acts = append(t.acts, "link") }
func (t *tracer) SetNetworkLayer(gopacket.NetworkLayer)         { t.acts = append(t.acts, "net") }
func (t *tracer) SetTransportLayer(gopacket.TransportLayer)     { t.acts = append(t.acts, "transport") }
func (t *tracer) SetApplicationLayer(gopacket.ApplicationLayer) { t.acts = append(t.acts, "app") }
func (t *tracer) SetErrorLayer(gopacket.ErrorLayer)             { t.acts = append(t.acts, "errlayer") }
func (t *tracer) DumpPacketData()                               {}
func (t *tracer) DecodeOptions() *gopacket.DecodeOptions        { return &gopacket.DecodeOptions{} }
func (t *tracer) NextDecoder(next gopacket.Decoder) error {
	switch d := next.(type) {
	case gopacket.LayerType:
		t.tail = fmt.Sprintf("lt:%d", int(d))
	case nil:
		t.tail = "nil"
	default:
		t.tail = "other"
	}
	return nil
}

func opPb(data []byte) string {
	return guarded("decode function of RADIUS", func() string {
		t := &tracer{}
		err := layers.LayerTypeRADIUS.Decode(exact(data), t)
		tail := t.tail
		if err != nil {
			tail = "fail"
		} else if tail == "" {
			tail = "done"
		}
		acts := "-"
		if len(t.acts) > 0 {
			acts = strings.Join(t.acts, ",")
		}
		lib.Stat("pb:" + strings.SplitN(tail, ":", 2)[0])
		s := "acts=" + acts + " tail=" + tail
		if t.added != nil {
			got, _ := t.added.(*layers.RADIUS)
			if got == nil {
				return s + " | ?"
			}
			s += " | " + render(got)
			// C05 oracle: the layer added to the packet = a direct fresh DecodeFromBytes
			ref := &layers.RADIUS{}
			if rerr := ref.DecodeFromBytes(exact(data), &feedback{}); rerr != nil || differingField(got, ref, true) != "" {
				lib.Finding("C05", "lradius:pkt-differs", "layer added by the registered decoder differs from a direct fresh DecodeFromBytes")
			}
			lib.Nontrivial()
		}
		return s
	})
}

// ---------------------------------------------------------------- NewPacket / DecodingLayerParser

func opPkt(mode string, extra int, foreign, data []byte) string {
	if len(foreign) != extra || (mode != "copy" && mode != "nocopy" && mode != "lazy" && mode != "pool") {
		return "bad-op"
	}
	if len(data) == 0 {
		return "empty"
	}
	build := func(skipRecovery bool) (gopacket.Packet, []gopacket.Layer) {
		opts := gopacket.DecodeOptions{SkipDecodeRecovery: skipRecovery}
		in := exact(data)
		switch mode {
		case "nocopy":
			opts.NoCopy = true
			in = inBuf(data, foreign)
		case "lazy":
			opts.Lazy = true
		case "pool":
			opts.Pool = true
		}
		p := gopacket.NewPacket(in, layers.LayerTypeRADIUS, opts)
		return p, p.Layers()
	}
	var p gopacket.Packet
	var ls []gopacket.Layer
	_, panicked := protect(func() string { p, ls = build(true); return "" })
	if panicked {
		if isOurSite(lastSite) {
			lib.Finding("C19", "lradius:panic:"+lastSite, "NewPacket(SkipDecodeRecovery) panicked in this layer: "+lastMsg)
			return "panic " + lib.PanicKind(lastMsg)
		}
		// a decoder of a LATER layer panicked (other engines' business): observe this layer with recovery on
		lib.Stat("pkt:later-layer-panic:" + lastSite)
		p, ls = build(false)
	}
	lib.Stat("pkt:" + mode)
	tr := b01(p.Metadata().Truncated)
	if len(ls) >= 1 && ls[0].LayerType() == layers.LayerTypeRADIUS && len(ls[0].LayerPayload()) > 0 {
		tr = "x" // an EAP decoder ran behind this layer: the packet's flag is no longer this layer's alone
	}
	if len(ls) == 0 || ls[0].LayerType() != layers.LayerTypeRADIUS {
		if p.ErrorLayer() == nil {
			lib.Finding("C05", "lradius:pkt-differs", "NewPacket("+mode+") has no RADIUS layer and no error layer")
		}
		return "fail trunc=" + tr
	}
	got := ls[0].(*layers.RADIUS)
	// oracle: the first layer equals a direct fresh decode, and it is the only layer
	ref := &layers.RADIUS{}
	if err := ref.DecodeFromBytes(exact(data), &feedback{}); err != nil || differingField(got, ref, true) != "" {
		lib.Finding("C05", "lradius:pkt-differs", "first layer built by NewPacket("+mode+") differs from a direct fresh DecodeFromBytes")
	}
	if len(got.LayerPayload()) == 0 && (len(ls) != 1 || p.ErrorLayer() != nil) {
		lib.Finding("C05", "lradius:pkt-differs", "NewPacket("+mode+") built more than the RADIUS layer though its payload is empty")
	}
	if len(got.LayerPayload()) > 0 {
		lib.Stat("pkt:eap-behind")
		if len(ls) < 2 && p.ErrorLayer() == nil {
			lib.Finding("C05", "lradius:pkt-differs", "NewPacket("+mode+"): non-empty payload but neither a next layer nor an error layer")
		}
		if app := p.ApplicationLayer(); app == nil {
			lib.Finding("C05", "lradius:pkt-differs", "NewPacket("+mode+"): no application layer")
		}
	}
	// read-only accessors on the packet (C01 territory; recovered by the runner if they panic)
	_ = p.String()
	lib.Nontrivial()
	return "ok " + render(got) + " trunc=" + tr
}

func opDlp(re bool, data []byte) string {
	if !re {
		newParser()
	}
	return guarded("DecodingLayerParser.DecodeLayers", func() string {
		var decoded []gopacket.LayerType
		err := parser.DecodeLayers(exact(data), &decoded)
		code := 0
		var unsup gopacket.UnsupportedLayerType
		if errors.As(err, &unsup) {
			code = 2
		} else if err != nil {
			code = 1
		}
		ds := make([]string, len(decoded))
		for i, t := range decoded {
			ds[i] = lib.Itoa(int(t))
		}
		dec := "-"
		if len(ds) > 0 {
			dec = strings.Join(ds, ",")
		}
		lib.Stat(fmt.Sprintf("dlp:layers=%d:code=%d", len(decoded), code))
		if len(decoded) >= 1 {
			lib.Nontrivial()
		}
		// C05 oracle: the run equals the leading run of NewPacket's layers with equal fields and truncation flag
		if len(data) > 0 {
			var pl []gopacket.Layer
			var ptr bool
			_, pk := protect(func() string {
				pk := gopacket.NewPacket(exact(data), layers.LayerTypeRADIUS, gopacket.DecodeOptions{})
				pl = pk.Layers()
				ptr = pk.Metadata().Truncated
				return ""
			})
			if !pk {
				for i, t := range decoded {
					if i >= len(pl) || pl[i].LayerType() != t {
						lib.Finding("C05", "lradius:dlp-differs", "parser run is not a prefix of the packet's layers")
						break
					}
					if f := differingField(pl[i].(*layers.RADIUS), pObj, true); f != "" {
						lib.Finding("C05", "lradius:dlp-differs", "parser's layer differs from the packet's: "+f)
					}
				}
				if len(decoded) == 0 && len(pl) > 0 && pl[0].LayerType() == layers.LayerTypeRADIUS {
					lib.Finding("C05", "lradius:dlp-differs", "the packet has a RADIUS layer, the parser run is empty")
				}
				if code == 2 && len(pObj.LayerPayload()) == 0 {
					lib.Finding("C05", "lradius:dlp-differs", "parser reports an unsupported next layer, the packet ends after RADIUS")
				}
				if code != 2 && parser.Truncated != ptr {
					lib.Finding("C05", "lradius:dlp-differs", "truncation flag differs between parser and packet")
				}
			}
		}
		return fmt.Sprintf("code=%d decoded=%s trunc=%s | %s", code, dec, b01(parser.Truncated), render(pObj))
	})
}

// ---------------------------------------------------------------- small pure functions

func opLen(s string) string {
	os, ok := parseOpts(s)
	if !ok {
		return "bad-op"
	}
	l := &layers.RADIUS{Attributes: os}
	lib.Stat("len")
	n, err := l.Len()
	if err != nil {
		return "err"
	}
	return fmt.Sprintf("ok %d", n)
}

// ---------------------------------------------------------------- dispatcher

func exec(a []string) string {
	if len(a) < 2 || a[0] != "lradius" {
		return "bad-op"
	}
	switch a[1] {
	case "dec":
		if len(a) != 5 {
			return "bad-op"
		}
		extra, ok1 := lib.Atoi(a[2])
		foreign, ok2 := lib.UnHex(a[3])
		data, ok3 := lib.UnHex(a[4])
		if !ok1 || !ok2 || !ok3 || extra < 0 {
			return "bad-op"
		}
		return opDec(extra, foreign, data)
	case "redec":
		if len(a) != 3 {
			return "bad-op"
		}
		data, ok := lib.UnHex(a[2])
		if !ok {
			return "bad-op"
		}
		return opRedec(data)
	case "ser":
		return opSer(a[2:])
	case "rt":
		return opRt(a[2:])
	case "rtdec":
		if len(a) != 3 {
			return "bad-op"
		}
		data, ok := lib.UnHex(a[2])
		if !ok {
			return "bad-op"
		}
		return opRtDec(data)
	case "pb":
		if len(a) != 3 {
			return "bad-op"
		}
		data, ok := lib.UnHex(a[2])
		if !ok {
			return "bad-op"
		}
		return opPb(data)
	case "pkt":
		if len(a) != 6 {
			return "bad-op"
		}
		extra, ok1 := lib.Atoi(a[3])
		foreign, ok2 := lib.UnHex(a[4])
		data, ok3 := lib.UnHex(a[5])
		if !ok1 || !ok2 || !ok3 || extra < 0 {
			return "bad-op"
		}
		return opPkt(a[2], extra, foreign, data)
	case "dlp", "redlp":
		if len(a) != 3 {
			return "bad-op"
		}
		data, ok := lib.UnHex(a[2])
		if !ok {
			return "bad-op"
		}
		return opDlp(a[1] == "redlp", data)
	case "len":
		if len(a) != 3 {
			return "bad-op"
		}
		return opLen(a[2])
	}
	return "bad-op"
}

func main() {
	reset()
	lib.Main(lib.Engine{Name: "lradius", Gen: gen, Reset: reset, Exec: exec})
}
