package main

import (
	"fmt"

	"verif/harness/lib"
)

// ---------------------------------------------------------------- generator

type gfrag struct {
	src, dst   uint32
	id         int
	ihl, flags int
	off        int // FragOffset field (8-byte units)
	length     int
	payload    []byte
	opts       []byte
}

type genState struct {
	r    *lib.Rand
	emit func(string)
	ts   int64
}

func (g *genState) in(f gfrag) {
	g.ts += int64(g.r.Intn(3))
	g.inAt(f, g.ts)
}

func (g *genState) inAt(f gfrag, ts int64) {
	s := fmt.Sprintf("frag4 in %d %d %d %d %d %d %d %d %s", f.src, f.dst, f.id, f.ihl, f.flags, f.off, f.length, ts, lib.Hex(f.payload))
	if len(f.opts) > 0 {
		s += " " + lib.Hex(f.opts)
	}
	g.emit(s)
}

func (g *genState) discard(ts int64) { g.emit(fmt.Sprintf("frag4 discard %d", ts)) }

const farFuture = int64(1) << 39

// pieces cuts payload p at the given unit boundaries (units of 8 bytes) into honest fragments.
func pieces(src, dst uint32, id, ihl int, opts, p []byte, cuts []int) []gfrag {
	var out []gfrag
	start := 0
	bounds := append(append([]int(nil), cuts...), -1)
	for _, c := range bounds {
		end := c * 8
		mf := 1
		if c < 0 || end >= len(p) {
			end, mf = len(p), 0
		}
		if end <= start {
			continue
		}
		out = append(out, gfrag{src: src, dst: dst, id: id, ihl: ihl, flags: mf, off: start / 8, length: 4*ihl + end - start, payload: p[start:end], opts: opts})
		start = end
		if mf == 0 {
			break
		}
	}
	return out
}

func optsFor(r *lib.Rand, ihl int) []byte {
	if ihl <= 5 {
		return nil
	}
	return r.Bytes(4 * (ihl - 5))
}

func permute(r *lib.Rand, fs []gfrag) []gfrag {
	out := append([]gfrag(nil), fs...)
	for i := len(out) - 1; i > 0; i-- {
		j := r.Intn(i + 1)
		out[i], out[j] = out[j], out[i]
	}
	return out
}

// withDups inserts duplicates of earlier elements (a duplicate always follows an original).
func withDups(r *lib.Rand, fs []gfrag, pct int) []gfrag {
	var out []gfrag
	for i, f := range fs {
		out = append(out, f)
		for r.Chance(pct) {
			out = append(out, fs[r.Intn(i+1)])
		}
	}
	return out
}

func randomCuts(r *lib.Rand, units int, n int) []int {
	if units <= 1 {
		return nil
	}
	seen := map[int]bool{}
	var cuts []int
	for i := 0; i < n; i++ {
		c := 1 + r.Intn(units-1)
		if !seen[c] {
			seen[c] = true
			cuts = append(cuts, c)
		}
	}
	// sort
	for i := 1; i < len(cuts); i++ {
		for j := i; j > 0 && cuts[j-1] > cuts[j]; j-- {
			cuts[j-1], cuts[j] = cuts[j], cuts[j-1]
		}
	}
	return cuts
}

// interleave merges several streams keeping each stream's internal order.
func interleave(r *lib.Rand, streams [][]gfrag) []gfrag {
	var out []gfrag
	idx := make([]int, len(streams))
	for {
		var live []int
		for i, s := range streams {
			if idx[i] < len(s) {
				live = append(live, i)
			}
		}
		if len(live) == 0 {
			return out
		}
		i := live[r.Intn(len(live))]
		out = append(out, streams[i][idx[i]])
		idx[i]++
	}
}

// -------- exhaustive small scope: all partitions of 32 bytes into <=4 pieces, all orders, one duplicate

func perms(n int) [][]int {
	if n == 0 {
		return [][]int{{}}
	}
	var out [][]int
	for _, p := range perms(n - 1) {
		for i := 0; i <= len(p); i++ {
			q := append(append(append([]int(nil), p[:i]...), n-1), p[i:]...)
			out = append(out, q)
		}
	}
	return out
}

func genExhaustive(g *genState) {
	p := []byte("0123456789abcdefghijklmnopqrstuv")
	for _, ihl := range []int{5, 6, 15} {
		opts := optsFor(g.r, ihl)
		for mask := 0; mask < 8; mask++ { // cut after unit 1,2,3
			var cuts []int
			for b := 0; b < 3; b++ {
				if mask&(1<<b) != 0 {
					cuts = append(cuts, b+1)
				}
			}
			fs := pieces(0x0a000001, 0x0a000002, 7, ihl, opts, p, cuts)
			for _, pm := range perms(len(fs)) {
				for dup := -1; dup < len(fs); dup++ {
					for pos := 0; pos <= len(fs); pos++ {
						if dup < 0 && pos > 0 {
							break
						}
						var seq []gfrag
						for i, k := range pm {
							if dup >= 0 && i == pos {
								seq = append(seq, fs[dup])
							}
							seq = append(seq, fs[k])
						}
						if dup >= 0 && pos == len(fs) {
							seq = append(seq, fs[dup])
						}
						g.emit("reset")
						g.ts = 1000
						for _, f := range seq {
							g.in(f)
						}
						g.discard(farFuture)
					}
				}
			}
		}
	}
}

// -------- honest datagrams, random

func genHonest(g *genState, big bool) {
	r := g.r
	g.emit("reset")
	g.ts = 1000 + int64(r.Intn(1000))
	nkeys := 1 + r.Intn(3)
	var streams [][]gfrag
	for k := 0; k < nkeys; k++ {
		ihl := 5
		if r.Chance(50) {
			ihl = 5 + r.Intn(11)
		}
		var size int
		switch r.Intn(8) {
		case 0:
			size = 8 * (1 + r.Intn(6))
		case 1:
			size = 1480 * (1 + r.Intn(3))
		case 2:
			size = 9 + r.Intn(300)
		case 3:
			size = 4508
		default:
			size = 16 + r.Intn(2000)
		}
		if big && k == 0 {
			size = 65535 - 4*ihl - r.Intn(3)*r.Intn(9)
			if r.Chance(20) {
				size = 1480 * (20 + r.Intn(24))
			}
		}
		if size > 65535-4*ihl {
			size = 65535 - 4*ihl
		}
		p := r.Bytes(size)
		units := (size + 7) / 8
		n := 1 + r.Intn(6)
		if r.Chance(15) {
			n = units // many tiny pieces
			if n > 400 && !big {
				n = 400
			}
		}
		if big && r.Chance(50) {
			n = 44
		}
		var cuts []int
		if r.Chance(20) && size > 1480 { // MTU-like regular cuts
			for c := 185; c < units; c += 185 {
				cuts = append(cuts, c)
			}
		} else {
			cuts = randomCuts(r, units, n)
		}
		src, dst, id := uint32(0xc0a80001), uint32(0xc0a80002), 100+r.Intn(3)
		switch k {
		case 1:
			src = 0xc0a80003
		case 2:
			dst = 0xc0a80004
			id = 100
		}
		if big && k == 0 && r.Chance(40) { // a last fragment beyond offset 8183 (legal up to 8189)
			c := 8184 + r.Intn(6)
			if r.Chance(40) {
				c = 8189
			}
			if c*8 < size {
				cuts = append(cuts, c)
				for i := len(cuts) - 1; i > 0 && cuts[i-1] > cuts[i]; i-- {
					cuts[i-1], cuts[i] = cuts[i], cuts[i-1]
				}
			}
		}
		fs := pieces(src, dst, id, ihl, optsFor(r, ihl), p, cuts)
		if r.Chance(25) { // per-fragment header lengths (non-copied options only in the first)
			for i := 1; i < len(fs); i++ {
				fs[i].ihl = 5
				fs[i].opts = nil
				fs[i].length = 20 + len(fs[i].payload)
			}
		}
		switch r.Intn(4) {
		case 0: // in order
		case 1: // reversed
			for i, j := 0, len(fs)-1; i < j; i, j = i+1, j-1 {
				fs[i], fs[j] = fs[j], fs[i]
			}
		default:
			fs = permute(r, fs)
		}
		if r.Chance(60) {
			fs = withDups(r, fs, 25)
		}
		streams = append(streams, fs)
	}
	seq := interleave(r, streams)
	for i, f := range seq {
		g.in(f)
		if r.Chance(3) {
			g.discard(g.ts - 100000) // far past: nothing to forget
		}
		if r.Chance(2) && i%3 == 0 { // unrelated unfragmented traffic
			g.in(gfrag{src: 1, dst: 2, id: r.Intn(65536), ihl: 5, flags: 2 * r.Intn(2), off: 0, length: 28, payload: r.Bytes(8)})
		}
	}
	g.discard(farFuture)
}

// -------- hostile fragment sets

func genOverlapSmall(g *genState) {
	r := g.r
	g.emit("reset")
	g.ts = 5000
	n := 2 + r.Intn(6)
	ihl := 5
	if r.Chance(20) {
		ihl = 5 + r.Intn(3)
	}
	maxOff := 2 + r.Intn(8)
	lastAt := r.Intn(n)
	for i := 0; i < n; i++ {
		off := r.Intn(maxOff)
		plen := 8 * (1 + r.Intn(4))
		mf := 1
		if i == lastAt || r.Chance(10) {
			mf = 0
			if r.Chance(50) {
				plen -= r.Intn(8)
			}
		}
		g.in(gfrag{src: 9, dst: 8, id: 1, ihl: ihl, flags: mf, off: off, length: 4*ihl + plen, payload: r.Bytes(plen), opts: optsFor(r, ihl)})
	}
	if r.Chance(30) {
		g.discard(farFuture)
	}
}

// a contiguous chain with overlaps, delivered in an order that exercises the overlap branch of build
func genOverlapChain(g *genState) {
	r := g.r
	g.emit("reset")
	g.ts = 6000
	n := 2 + r.Intn(5)
	var fs []gfrag
	end := 0 // units
	for i := 0; i < n; i++ {
		start := end
		if i > 0 && r.Chance(60) {
			start = end - 1 - r.Intn(min(end, 3))
			if start < 0 {
				start = 0
			}
		}
		l := 1 + r.Intn(4)
		if start+l <= end && r.Chance(70) {
			l = end - start + 1
		}
		mf := 1
		if i == n-1 {
			mf = 0
		}
		fs = append(fs, gfrag{src: 9, dst: 8, id: 2, ihl: 5, flags: mf, off: start, length: 20 + 8*l, payload: r.Bytes(8 * l)})
		if start+l > end {
			end = start + l
		}
	}
	if r.Chance(70) {
		fs = permute(r, fs)
	}
	for _, f := range fs {
		g.in(f)
	}
	g.discard(farFuture)
}

func genMalformed(g *genState) {
	r := g.r
	g.emit("reset")
	g.ts = 7000
	n := 1 + r.Intn(6)
	for i := 0; i < n; i++ {
		ihl := 5
		off := r.Intn(6)
		plen := 8 * (1 + r.Intn(4))
		flags := 1
		if r.Chance(30) {
			flags = 0
		}
		f := gfrag{src: 9, dst: 8, id: 3, ihl: ihl, flags: flags, off: off, length: 20 + plen, payload: r.Bytes(plen)}
		switch r.Intn(12) {
		case 0: // truncated capture: fewer bytes than declared
			f.payload = f.payload[:r.Intn(plen)]
		case 1: // more bytes than declared
			f.payload = r.Bytes(plen + 1 + r.Intn(16))
		case 2: // tiny non-final fragment
			f.flags, f.length, f.payload = 1, 20+r.Intn(8), nil
			f.payload = r.Bytes(f.length - 20)
		case 3: // offset too big
			f.off = 8182 + r.Intn(10)
		case 4: // uint16 wrap: offset*8 + Length >= 65536
			f.off = 8183 - r.Intn(40)
			pl := 65536 - f.off*8 - 20 + 8*r.Intn(6)
			if pl > 2000 {
				pl = 8 * (1 + r.Intn(200))
			}
			f.length = 20 + pl
			f.payload = r.Bytes(pl)
		case 5: // header longer than the datagram
			f.ihl = 6 + r.Intn(250)
			f.length = r.Intn(4 * 6)
		case 6: // ihl below minimum
			f.ihl = r.Intn(5)
			f.length = 4*f.ihl + plen
		case 7: // reserved/evil flag bits, DF
			f.flags = r.Intn(8)
		case 8: // zero-length final
			f.flags, f.length, f.payload = 0, 20, nil
		case 9: // options
			f.ihl = 5 + r.Intn(11)
			f.opts = optsFor(r, f.ihl)
			f.length = 4*f.ihl + plen
		}
		g.in(f)
	}
	g.discard(farFuture)
}

// the uint16 wrap of the oversize check turned into misplaced data:
// X[65464,65568) first, then Z[32,65464) final, then A[0,65464)
func genWrapAttack(g *genState) {
	r := g.r
	g.emit("reset")
	g.ts = 8000
	x := gfrag{src: 9, dst: 8, id: 4, ihl: 5, flags: 1, off: 8183, length: 20 + 104, payload: r.Bytes(104)}
	z := gfrag{src: 9, dst: 8, id: 4, ihl: 5, flags: 0, off: 4, length: 20 + 65432, payload: r.Bytes(65432)}
	a := gfrag{src: 9, dst: 8, id: 4, ihl: 5, flags: 1, off: 0, length: 20 + 65464, payload: r.Bytes(65464)}
	for _, f := range []gfrag{x, z, a} {
		g.in(f)
	}
	g.discard(farFuture)
}

// Three overlapping fragments whose lengths sum to Highest+65536: the uint16 counter Current
// wraps onto Highest and build runs through its overlap branch (the only way to get a datagram
// out of an overlapping set).
func genOverlapWrap(g *genState) {
	r := g.r
	g.emit("reset")
	g.ts = 8500
	var fs []gfrag
	if r.Chance(30) { // three equal fragments, equal steps
		d := 8 * (1 + r.Intn(1364))
		l := d + 32768
		for i := 0; i < 3; i++ {
			fs = append(fs, gfrag{src: 9, dst: 8, id: 6, ihl: 5, flags: 1, off: i * d / 8, length: 20 + l, payload: r.Bytes(l)})
		}
	} else { // four fragments, irregular: l1+l2+l3 = 65536+c makes Current wrap onto Highest = c+l4
		c := 8 * (1000 + r.Intn(1000))
		b := 8 * (1 + r.Intn(c/8-1))
		a := 8 * (1 + r.Intn(b/8))
		if a >= b {
			a = b - 8
		}
		if a < 8 {
			a, b = 8, 16
		}
		l1 := 8 * (2750 + r.Intn(250))
		l2 := 8 * (2750 + r.Intn(250))
		l3 := 65536 + c - l1 - l2
		maxEnd := l1
		for _, e := range []int{a + l2, b + l3} {
			if e > maxEnd {
				maxEnd = e
			}
		}
		l4 := maxEnd - c + 8*(1+r.Intn(100))
		if c+l4 > 65515 {
			l4 = 65515 - c
		}
		offs := []int{0, a, b, c}
		lens := []int{l1, l2, l3, l4}
		for i := range offs {
			fs = append(fs, gfrag{src: 9, dst: 8, id: 6, ihl: 5, flags: 1, off: offs[i] / 8, length: 20 + lens[i], payload: r.Bytes(lens[i])})
		}
	}
	fs[len(fs)-1].flags = 0
	if r.Chance(70) {
		// orders in which every fragment gets stored (a later fragment below Highest is only
		// stored when a larger offset is already there): descending offsets, or last first
		for i, j := 0, len(fs)-1; i < j; i, j = i+1, j-1 {
			fs[i], fs[j] = fs[j], fs[i]
		}
		if r.Chance(50) && len(fs) == 4 {
			fs[1], fs[2] = fs[2], fs[1]
		}
	} else {
		fs = permute(r, fs)
	}
	for _, f := range fs {
		g.in(f)
	}
	g.discard(farFuture)
}

// more fragments than the list cap: zero-length final fragments are appended without limit
func genTooMany(g *genState, n int, mode int) {
	g.emit("reset")
	g.ts = 9000
	for i := 0; i < n; i++ {
		switch mode {
		case 0: // zero-length finals at offset 8, never complete (Highest 8, Current 0)
			g.in(gfrag{src: 9, dst: 8, id: 5, ihl: 5, flags: 0, off: 1, length: 20})
		default: // distinct increasing offsets with holes
			g.in(gfrag{src: 9, dst: 8, id: 5, ihl: 5, flags: 1, off: 2 * (i % 4090), length: 28, payload: []byte{byte(i), 1, 2, 3, 4, 5, 6, byte(i >> 8)}})
		}
	}
	g.in(gfrag{src: 9, dst: 8, id: 5, ihl: 5, flags: 0, off: 1, length: 20})
	g.discard(farFuture)
}

func genDiscard(g *genState) {
	r := g.r
	g.emit("reset")
	g.ts = 10000
	nk := 2 + r.Intn(4)
	type ks struct {
		fs   []gfrag
		next int
	}
	var keys []*ks
	for k := 0; k < nk; k++ {
		size := 8 * (3 + r.Intn(6))
		p := r.Bytes(size - r.Intn(7))
		fs := permute(r, pieces(uint32(20+k), 30, 40+k%2, 5, nil, p, randomCuts(r, (len(p)+7)/8, 3)))
		keys = append(keys, &ks{fs: fs})
	}
	steps := 4 + r.Intn(12)
	for s := 0; s < steps; s++ {
		k := keys[r.Intn(nk)]
		if r.Chance(25) {
			cut := g.ts - int64(r.Intn(12))
			if r.Chance(20) {
				cut = g.ts + 1
			}
			g.discard(cut)
			continue
		}
		if k.next < len(k.fs) {
			g.ts += int64(r.Intn(5))
			g.inAt(k.fs[k.next], g.ts)
			k.next++
		} else if len(k.fs) > 0 && r.Chance(50) {
			g.ts += int64(r.Intn(5))
			g.inAt(k.fs[r.Intn(len(k.fs))], g.ts)
		}
	}
	g.discard(farFuture)
	g.discard(farFuture)
}

func genPassthrough(g *genState) {
	r := g.r
	g.emit("reset")
	g.ts = 11000
	for i := 0; i < 4; i++ {
		ihl := 5 + r.Intn(3)*r.Intn(2)
		pl := r.Intn(40)
		f := gfrag{src: uint32(r.Intn(5)), dst: 7, id: r.Intn(4), ihl: ihl, flags: 0, off: 0, length: 4*ihl + pl, payload: r.Bytes(pl), opts: optsFor(r, ihl)}
		switch r.Intn(4) {
		case 0:
			f.flags = 2
		case 1:
			f.flags, f.off = 2+r.Intn(2), r.Intn(100)
		case 2:
			f.flags = 4
		}
		if r.Chance(30) { // a real fragment of the same key in between
			g.in(gfrag{src: f.src, dst: 7, id: f.id, ihl: 5, flags: 1, off: r.Intn(3), length: 28, payload: r.Bytes(8)})
		}
		g.in(f)
	}
	g.discard(farFuture)
}

func gen(r *lib.Rand, tier string, emit func(string)) {
	g := &genState{r: r, emit: emit}
	genExhaustive(g)
	scale := 1
	if tier == "thorough" {
		scale = 12
	}
	for i := 0; i < 700*scale; i++ {
		genHonest(g, false)
	}
	for i := 0; i < 6*scale; i++ {
		genHonest(g, true)
	}
	for i := 0; i < 3000*scale; i++ {
		genOverlapSmall(g)
	}
	for i := 0; i < 1500*scale; i++ {
		genOverlapChain(g)
	}
	for i := 0; i < 1500*scale; i++ {
		genMalformed(g)
	}
	for i := 0; i < 2; i++ {
		genWrapAttack(g)
	}
	for i := 0; i < 4*scale; i++ {
		genOverlapWrap(g)
	}
	genTooMany(g, 8200, 0)
	genTooMany(g, 8200, 1)
	if tier == "thorough" {
		genTooMany(g, 17000, 0)
	}
	for i := 0; i < 500*scale; i++ {
		genDiscard(g)
	}
	for i := 0; i < 200*scale; i++ {
		genPassthrough(g)
	}
}
