// gp-frag4: correspondence adapter for engine `frag4` (property C13):
// drives the real ip4defrag.IPv4Defragmenter (DefragIPv4WithTimestamp, DiscardOlderThan).
//
// ops
//
//	frag4 in <src> <dst> <id> <ihl> <flags> <off> <length> <ts> <payloadhex> [optshex]
//	    -> none | err | out <ihl> <length> <flags> <off> <payloadhex> <optshex>
//	frag4 discard <ts>      -> ok <n>
//
// src,dst: uint32 (4-byte addresses), id/off/length: uint16, ihl/flags: uint8, ts: unix seconds.
// off is the FragOffset FIELD (8-byte units).  The payload is what the layer carries
// (len may differ from length-4*ihl: truncated captures / hand-built layers).
package main

import (
	"bytes"
	"fmt"
	"os"
	"sort"
	"time"

	"github.com/gopacket/gopacket/ip4defrag"
	"github.com/gopacket/gopacket/layers"
	"verif/harness/lib"
)

var d *ip4defrag.IPv4Defragmenter

// ---------------------------------------------------------------- monitor state (independent oracle)

type key struct {
	src, dst uint32
	id       uint16
}

type mfrag struct {
	off     int // byte offset (FragOffset*8)
	ihl     int
	length  int
	mf      bool
	payload []byte
	ts      int64
}

type mkey struct {
	frags    []mfrag // every fragment offered for this key in the current epoch
	honest   bool    // all fragments so far are pieces (or exact duplicates) of one well-formed datagram
	unknown  bool    // a discard made it unspecified whether the key is still stored
	incons   bool    // some fragment had len(payload) != length-4*ihl
	lastAny  int64   // timestamp of the latest fragment offered
	lastNew  int64   // timestamp of the latest non-duplicate fragment
	complete bool
}

var mon map[key]*mkey

func reset() {
	d = ip4defrag.NewIPv4Defragmenter()
	mon = map[key]*mkey{}
}

func ip4(a uint32) []byte { return []byte{byte(a >> 24), byte(a >> 16), byte(a >> 8), byte(a)} }

func flatOpts(o []layers.IPv4Option) []byte {
	var b []byte
	for _, x := range o {
		b = append(b, x.OptionType)
		b = append(b, x.OptionData...)
	}
	return b
}

func showOut(o *layers.IPv4) string {
	return fmt.Sprintf("out %d %d %d %d %s %s", o.IHL, o.Length, uint8(o.Flags), o.FragOffset, lib.Hex(o.Payload), lib.Hex(flatOpts(o.Options)))
}

// specOK: the fragment is acceptable by the documented limits (RFC 791 / the package constants).
func specOK(f mfrag, offField int) bool {
	plen := f.length - 4*f.ihl
	if f.ihl < 5 || f.ihl > 15 || plen < 0 || plen != len(f.payload) {
		return false
	}
	if f.mf && plen < 8 {
		return false
	}
	if f.mf && plen%8 != 0 {
		return false
	}
	if plen == 0 {
		return false
	}
	if offField > 8191 || f.off+f.length > 65535 { // 13-bit field; the datagram must fit 65535 bytes
		return false
	}
	return true
}

// stillHonest: adding f keeps the fragment set a set of pieces of ONE datagram
// (pairwise identical or disjoint, at most one final piece and it is the right-most).
func stillHonest(k *mkey, f mfrag) (honest bool, dup bool) {
	for _, g := range k.frags {
		if g.off == f.off {
			if len(g.payload) == len(f.payload) && g.mf == f.mf && bytes.Equal(g.payload, f.payload) {
				dup = true
				continue
			}
			return false, false
		}
		if g.off < f.off+len(f.payload) && f.off < g.off+len(g.payload) {
			return false, false
		}
		if !g.mf && f.off > g.off {
			return false, false
		}
		if !f.mf && g.off > f.off {
			return false, false
		}
	}
	return true, dup
}

// assembled returns the datagram payload if the honest set covers [0,end) and has its final piece.
func assembled(k *mkey) ([]byte, bool) {
	fs := append([]mfrag(nil), k.frags...)
	sort.SliceStable(fs, func(i, j int) bool { return fs[i].off < fs[j].off })
	var p []byte
	final := false
	for _, f := range fs {
		if f.off < len(p) {
			continue // duplicate
		}
		if f.off > len(p) {
			return nil, false
		}
		p = append(p, f.payload...)
		if !f.mf {
			final = true
		}
	}
	return p, final
}

func ihlTag(k *mkey) string {
	for _, f := range k.frags {
		if f.ihl != 5 {
			return ":ihl>5"
		}
	}
	return ""
}

func exec(a []string) string {
	if len(a) < 2 || a[0] != "frag4" {
		return "bad-op"
	}
	guard()
	switch a[1] {
	case "in":
		if len(a) != 11 && len(a) != 12 {
			return "bad-op"
		}
		var v [8]uint64
		lim := [8]uint64{1<<32 - 1, 1<<32 - 1, 65535, 255, 255, 65535, 65535, 1 << 40}
		for i := 0; i < 8; i++ {
			x, ok := lib.Atou(a[2+i])
			if !ok || x > lim[i] {
				return "bad-op"
			}
			v[i] = x
		}
		pay, ok := lib.UnHex(a[10])
		if !ok || len(pay) > 70000 {
			return "bad-op"
		}
		var opts []byte
		if len(a) == 12 {
			opts, ok = lib.UnHex(a[11])
			if !ok || len(opts) > 64 {
				return "bad-op"
			}
		}
		in := &layers.IPv4{
			Version: 4, IHL: uint8(v[3]), TOS: 0x10, Length: uint16(v[6]), Id: uint16(v[2]),
			Flags: layers.IPv4Flag(v[4]), FragOffset: uint16(v[5]), TTL: 61, Protocol: layers.IPProtocolUDP,
			Checksum: 0xbeef, SrcIP: ip4(uint32(v[0])), DstIP: ip4(uint32(v[1])),
		}
		if len(opts) > 0 {
			in.Options = []layers.IPv4Option{{OptionType: opts[0], OptionLength: uint8(len(opts) + 1), OptionData: opts[1:]}}
		}
		in.Payload = pay
		snap := showOut(in)
		ts := int64(v[7])

		// ---- run the real code
		reply, panicked := lib.Protect(func() string {
			out, err := d.DefragIPv4WithTimestamp(in, time.Unix(ts, 0))
			switch {
			case out != nil && err != nil:
				return "out+err"
			case err != nil:
				return "err"
			case out == nil:
				return "none"
			}
			if out == in {
				lib.Stat("passthrough")
			}
			return showOut(out)
		})
		if showOut(in) != snap {
			lib.Finding("C13", "frag4:input-modified", "DefragIPv4 modified the fragment passed in")
		}
		monitorIn(key{uint32(v[0]), uint32(v[1]), uint16(v[2])}, in, int(v[5]), ts, snap, reply, panicked)
		if panicked {
			panic(lib.LastPanicMsg) // re-raise: the runner prints "panic <kind>"
		}
		return reply
	case "discard":
		if len(a) != 3 {
			return "bad-op"
		}
		ts, ok := lib.Atou(a[2])
		if !ok || ts > 1<<40 {
			return "bad-op"
		}
		n := d.DiscardOlderThan(time.Unix(int64(ts), 0))
		monitorDiscard(int64(ts), n)
		lib.Stat("discard")
		return fmt.Sprintf("ok %d", n)
	}
	return "bad-op"
}

// ---------------------------------------------------------------- monitors

func monitorIn(kk key, in *layers.IPv4, offField int, ts int64, snap, reply string, panicked bool) {
	fl := uint8(in.Flags)
	// pass-through clause: DF set, or (no MF and offset 0)
	if fl&2 != 0 || (fl&1 == 0 && offField == 0) {
		if reply != snap {
			lib.Finding("C13", "frag4:passthrough", "unfragmented packet not returned unchanged: "+trunc(reply))
		}
		lib.Stat("in:unfragmented")
		return
	}
	k := mon[kk]
	if k == nil {
		k = &mkey{honest: true}
		mon[kk] = k
	}
	f := mfrag{off: offField * 8, ihl: int(in.IHL), length: int(in.Length), mf: fl&1 != 0, payload: append([]byte(nil), in.Payload...), ts: ts}
	if f.length-4*f.ihl != len(f.payload) {
		k.incons = true
		lib.Stat("in:inconsistent-fragment")
	}
	if f.off+f.length > 65535 {
		lib.Stat("in:beyond-65535")
	}
	wasComplete := k.complete
	dup := false
	if k.honest {
		if !specOK(f, offField) {
			k.honest = false
		} else {
			k.honest, dup = stillHonest(k, f)
		}
	}
	k.frags = append(k.frags, f)
	if len(k.frags) > 8190 {
		k.honest = false
	}
	k.lastAny = ts
	if !dup {
		k.lastNew = ts
	}
	if panicked {
		sig := "frag4:panic:" + lib.LastPanicSite
		if k.incons {
			sig = "frag4:panic:inconsistent-fragment"
		}
		lib.Finding("C13", sig, "defragmenter panicked: "+lib.LastPanicMsg)
		delete(mon, kk)
		return
	}
	isOut := len(reply) > 4 && reply[:4] == "out "
	// (a) safety: every returned byte was placed at that offset by some fragment of this key
	if isOut {
		lib.Stat("in:out")
		out := in // only the payload is needed; re-parse from reply is avoided: fetch via lastOut
		_ = out
		checkSafety(k, lastPayload(reply))
	} else if reply == "err" {
		lib.Stat("in:err")
	} else {
		lib.Stat("in:none")
	}
	// (b) honest pieces of one datagram: nothing until complete, then exactly the datagram, exactly once
	if k.honest && !k.unknown {
		p, complete := assembled(k)
		switch {
		case reply == "err":
			sig := "frag4:valid-fragment-rejected"
			if offField > 8183 {
				sig += ":offset>8183"
			}
			lib.Finding("C13", sig+ihlTag(k), fmt.Sprintf("a well-formed fragment (offset %d, %d bytes) of an honest datagram is answered err", f.off, len(f.payload)))
			k.honest = false
		case !complete:
			if reply != "none" {
				lib.Finding("C13", "frag4:early"+ihlTag(k), "honest incomplete fragment set answered "+trunc(reply))
			}
		case complete && !wasComplete:
			k.complete = true
			lib.Stat("honest:completed")
			if ihlTag(k) != "" {
				lib.Stat("honest:completed:options")
			}
			if len(p) > 60000 {
				lib.Stat("honest:completed:>60000B")
			}
			if len(k.frags) > 100 {
				lib.Stat("honest:completed:>100-deliveries")
			}
			for _, g := range k.frags {
				if g.off > 8183*8 {
					lib.Stat("honest:completed:offset>8183")
					break
				}
			}
			if len(k.frags) >= 3 {
				lib.Nontrivial()
			}
			if !isOut {
				lib.Finding("C13", "frag4:never-completes"+ihlTag(k), fmt.Sprintf("all %d pieces of a %d-byte datagram delivered (ihl %d), answer %s", len(k.frags), len(p), f.ihl, trunc(reply)))
			} else {
				want := fmt.Sprintf("out %d %d 0 0 %s ", f.ihl, 4*f.ihl+len(p), lib.Hex(p))
				if len(reply) < len(want) || reply[:len(want)] != want {
					got := lastPayload(reply)
					switch {
					case !bytes.Equal(got, p):
						lib.Finding("C13", "frag4:payload"+ihlTag(k), fmt.Sprintf("reassembled payload differs from the original (%d vs %d bytes)", len(got), len(p)))
					default:
						var oi, ol, of, oo int
						fmt.Sscanf(reply, "out %d %d %d %d", &oi, &ol, &of, &oo)
						if ol != 4*oi+len(p) {
							lib.Finding("C13", "frag4:length", fmt.Sprintf("Length=%d but header %d + payload %d", ol, 4*oi, len(p)))
						}
						if of != 0 || oo != 0 {
							lib.Finding("C13", "frag4:flags-not-cleared", "fragmentation fields not cleared")
						}
						if oi != f.ihl {
							lib.Finding("C13", "frag4:header", "IHL of the result is not the IHL of the completing fragment")
						}
					}
				}
			}
		case complete && wasComplete:
			// still stored although complete: only possible after never-completes (already reported)
		}
	} else if !k.honest {
		lib.Stat("hostile-key-op")
		if isOut {
			lib.Stat("hostile:out")
		}
		if reply == "err" {
			lib.Stat("hostile:err")
			if len(k.frags) > 8000 {
				lib.Stat("hostile:err-after-8000-fragments")
			}
		}
		if isOut || reply == "err" {
			lib.Nontrivial()
		}
	}
	if isOut {
		delete(mon, kk) // the defragmenter forgets the key: new epoch
	}
}

func lastPayload(reply string) []byte {
	var oi, ol, of, oo int
	var ph, oh string
	fmt.Sscanf(reply, "out %d %d %d %d %s %s", &oi, &ol, &of, &oo, &ph, &oh)
	b, _ := lib.UnHex(ph)
	return b
}

func checkSafety(k *mkey, out []byte) {
	covered := make([]uint8, len(out)) // 0 none, 1 covered with other byte, 2 justified
	for _, f := range k.frags {
		for j, b := range f.payload {
			i := f.off + j
			if i >= len(out) {
				break
			}
			if out[i] == b {
				covered[i] = 2
			} else if covered[i] == 0 {
				covered[i] = 1
			}
		}
	}
	suffix := ""
	if k.incons {
		suffix = ":inconsistent-fragment"
	}
	for i, c := range covered {
		if c == 0 {
			lib.Finding("C13", "frag4:invented-byte"+suffix, fmt.Sprintf("returned datagram (%d bytes) has a byte at offset %d where no fragment placed any", len(out), i))
			return
		}
		if c == 1 {
			lib.Finding("C13", "frag4:misplaced"+suffix, fmt.Sprintf("returned datagram (%d bytes) has at offset %d a byte no fragment placed there", len(out), i))
			return
		}
	}
}

func monitorDiscard(ts int64, n int) {
	// Only keys that are certainly stored are counted: honest, incomplete, never in doubt.
	// (Hostile keys may have been dropped by the defragmenter already; the monitor must not
	// demand more than the property states.)
	must := 0
	for kk, k := range mon {
		certain := k.honest && !k.complete && !k.unknown && len(k.frags) > 0
		switch {
		case k.lastAny < ts:
			if certain {
				must++
			}
			delete(mon, kk)
		case k.lastNew < ts:
			k.unknown = true // only duplicates since the cut-off: unspecified whether that is "activity"
		}
	}
	if n < must {
		lib.Finding("C13", "frag4:discard-keeps-old", fmt.Sprintf("DiscardOlderThan removed %d entries, at least %d are older than the cut-off", n, must))
	}
	if n > 0 {
		lib.Nontrivial()
	}
}

var watchdog *time.Timer

// guard: a hang inside the real code kills the adapter (reported by ./check as a crash).
func guard() {
	if watchdog != nil {
		watchdog.Stop()
	}
	watchdog = time.AfterFunc(60*time.Second, func() {
		fmt.Fprintln(os.Stderr, "fatal error: watchdog: operation hangs")
		os.Exit(3)
	})
}

func trunc(s string) string {
	if len(s) > 60 {
		return s[:60] + "…"
	}
	return s
}

func main() {
	lib.Main(lib.Engine{Name: "frag4", Gen: gen, Reset: reset, Exec: exec})
}
