// gp-frag6: correspondence adapter for engine `frag6` (property C13):
// drives the real ip6defrag.IPv6Defragmenter (DefragIPv6, DiscardOlderThan).
//
// ops
//
//	frag6 in <src> <dst> <id> <off> <more> <nh> <payloadhex>  -> none | out <src> <dst> <nh> <payloadhex>
//	frag6 discard past|future                                   -> ok <n>
//
// src,dst: uint32 (low 32 bits of a 2001:db8:: address), id: uint32, off: uint16 (8-byte units),
// more: 0|1, nh: uint8.  ip6defrag stamps entries with time.Now(), so DiscardOlderThan is
// driven only with cut-offs far in the past / far in the future.
package main

import (
	"bytes"
	"fmt"
	"net"
	"os"
	"sort"
	"time"

	"github.com/gopacket/gopacket/ip6defrag"
	"github.com/gopacket/gopacket/layers"
	"verif/harness/lib"
)

var d *ip6defrag.IPv6Defragmenter

type mfrag struct {
	src, dst uint32
	off      int // bytes
	more     bool
	nh       int
	payload  []byte
}

type mkey struct {
	frags  []mfrag
	honest bool
	done   bool // completed once: the entry stays stored, later answers are unspecified
}

var mon map[uint32]*mkey

func reset() {
	d = ip6defrag.NewIPv6Defragmenter()
	mon = map[uint32]*mkey{}
}

func ip6(a uint32) net.IP {
	ip := net.IP{0x20, 0x01, 0x0d, 0xb8, 0, 0, 0, 0, 0, 0, 0, 0, 0, 0, 0, 0}
	ip[12], ip[13], ip[14], ip[15] = byte(a>>24), byte(a>>16), byte(a>>8), byte(a)
	return ip
}

func low32(ip net.IP) uint32 {
	if len(ip) != 16 {
		return 0xffffffff
	}
	return uint32(ip[12])<<24 | uint32(ip[13])<<16 | uint32(ip[14])<<8 | uint32(ip[15])
}

var watchdog *time.Timer

func guard() {
	if watchdog != nil {
		watchdog.Stop()
	}
	watchdog = time.AfterFunc(60*time.Second, func() {
		fmt.Fprintln(os.Stderr, "fatal error: watchdog: operation hangs")
		os.Exit(3)
	})
}

func exec(a []string) string {
	if len(a) < 2 || a[0] != "frag6" {
		return "bad-op"
	}
	guard()
	switch a[1] {
	case "in":
		if len(a) != 9 {
			return "bad-op"
		}
		var v [6]uint64
		lim := [6]uint64{1<<32 - 1, 1<<32 - 1, 1<<32 - 1, 65535, 1, 255}
		for i := 0; i < 6; i++ {
			x, ok := lib.Atou(a[2+i])
			if !ok || x > lim[i] {
				return "bad-op"
			}
			v[i] = x
		}
		pay, ok := lib.UnHex(a[8])
		if !ok || len(pay) > 70000 {
			return "bad-op"
		}
		hdr := &layers.IPv6{Version: 6, TrafficClass: 3, FlowLabel: 0x12345, NextHeader: layers.IPProtocolIPv6Fragment,
			HopLimit: 9, SrcIP: ip6(uint32(v[0])), DstIP: ip6(uint32(v[1])), Length: uint16(8 + len(pay))}
		fg := &layers.IPv6Fragment{NextHeader: layers.IPProtocol(v[5]), FragmentOffset: uint16(v[3]), MoreFragments: v[4] == 1, Identification: uint32(v[2])}
		fg.Payload = pay
		before := append([]byte(nil), pay...)
		out := d.DefragIPv6(hdr, fg)
		if !bytes.Equal(before, fg.Payload) {
			lib.Finding("C13", "frag6:input-modified", "DefragIPv6 modified the fragment passed in")
		}
		reply := "none"
		if out != nil {
			reply = fmt.Sprintf("out %d %d %d %s", low32(out.SrcIP), low32(out.DstIP), uint8(out.NextHeader), lib.Hex(out.Payload))
			lib.Stat("in:out")
		} else {
			lib.Stat("in:none")
		}
		monitorIn(uint32(v[2]), mfrag{uint32(v[0]), uint32(v[1]), int(v[3]) * 8, v[4] == 1, int(v[5]), before}, reply)
		return reply
	case "discard":
		if len(a) != 3 {
			return "bad-op"
		}
		var t time.Time
		switch a[2] {
		case "past":
			t = time.Unix(0, 0)
		case "future":
			t = time.Now().Add(24 * 365 * time.Hour)
		default:
			return "bad-op"
		}
		n := d.DiscardOlderThan(t)
		if a[2] == "future" {
			// everything stored is older than a far-future cut-off: every partial datagram must be
			// forgotten (whether completed ones are still stored is not specified)
			stored, partial := 0, 0
			for _, k := range mon {
				if len(k.frags) > 0 {
					stored++
					if k.honest && !k.done {
						partial++
					}
				}
			}
			if n < partial || n > stored {
				lib.Finding("C13", "frag6:discard-count", fmt.Sprintf("DiscardOlderThan(far future) removed %d entries; %d partial datagrams, %d identifications seen", n, partial, stored))
			}
			if n2 := d.DiscardOlderThan(t); n2 != 0 {
				lib.Finding("C13", "frag6:discard-keeps", "entries survive DiscardOlderThan(far future)")
			}
			mon = map[uint32]*mkey{}
			if n > 0 {
				lib.Nontrivial()
			}
		} else if n != 0 {
			lib.Finding("C13", "frag6:discard-recent", "DiscardOlderThan(far past) removed live entries")
		}
		lib.Stat("discard:" + a[2])
		return fmt.Sprintf("ok %d", n)
	}
	return "bad-op"
}

// ---------------------------------------------------------------- monitor (independent oracle)

func stillHonest(k *mkey, f mfrag) bool {
	if len(f.payload) == 0 || (f.more && len(f.payload)%8 != 0) || f.off+len(f.payload) > 65535 {
		return false
	}
	for _, g := range k.frags {
		if g.src != f.src || g.dst != f.dst {
			return false
		}
		if g.off == f.off {
			if g.more == f.more && g.nh == f.nh && bytes.Equal(g.payload, f.payload) {
				continue
			}
			return false
		}
		if g.off < f.off+len(f.payload) && f.off < g.off+len(g.payload) {
			return false
		}
		if (!g.more && f.off > g.off) || (!f.more && g.off > f.off) {
			return false
		}
	}
	return true
}

func assembled(k *mkey) (p []byte, nh int, complete bool) {
	fs := append([]mfrag(nil), k.frags...)
	sort.SliceStable(fs, func(i, j int) bool { return fs[i].off < fs[j].off })
	for _, f := range fs {
		if f.off < len(p) {
			continue
		}
		if f.off > len(p) {
			return nil, 0, false
		}
		p = append(p, f.payload...)
		if !f.more {
			return p, f.nh, true
		}
	}
	return nil, 0, false
}

func monitorIn(id uint32, f mfrag, reply string) {
	k := mon[id]
	if k == nil {
		k = &mkey{honest: true}
		mon[id] = k
	}
	if k.honest {
		k.honest = stillHonest(k, f)
	}
	k.frags = append(k.frags, f)
	if !k.honest {
		lib.Stat("hostile-id-op")
		if reply != "none" {
			lib.Nontrivial()
		}
		return
	}
	if k.done {
		return
	}
	p, nh, complete := assembled(k)
	if !complete {
		if reply != "none" {
			lib.Finding("C13", "frag6:early", "incomplete fragment set answered "+trunc(reply))
		}
		return
	}
	k.done = true
	lib.Stat("honest:completed")
	if len(k.frags) >= 3 {
		lib.Nontrivial()
	}
	if len(k.frags) == 1 {
		lib.Stat("honest:atomic")
	}
	want := fmt.Sprintf("out %d %d %d %s", f.src, f.dst, nh, lib.Hex(p))
	if reply == "none" {
		sig := "frag6:never-completes"
		if len(k.frags) == 1 {
			sig = "frag6:atomic-fragment-not-returned"
		}
		lib.Finding("C13", sig, fmt.Sprintf("all pieces of a %d-byte payload delivered (%d fragments), answer none", len(p), len(k.frags)))
	} else if reply != want {
		var os, od, on int
		var oh string
		fmt.Sscanf(reply, "out %d %d %d %s", &os, &od, &on, &oh)
		got, _ := lib.UnHex(oh)
		switch {
		case !bytes.Equal(got, p):
			lib.Finding("C13", "frag6:payload", fmt.Sprintf("rebuilt payload differs from the original (%d vs %d bytes)", len(got), len(p)))
		case on != nh:
			lib.Finding("C13", "frag6:next-header", fmt.Sprintf("next header %d, the last fragment announces %d", on, nh))
		default:
			lib.Finding("C13", "frag6:header", "the result does not carry the addresses of the offset-0 fragment: "+trunc(reply))
		}
	}
}

func trunc(s string) string {
	if len(s) > 60 {
		return s[:60] + "…"
	}
	return s
}

func main() {
	lib.Main(lib.Engine{Name: "frag6", Gen: gen, Reset: reset, Exec: exec})
}
