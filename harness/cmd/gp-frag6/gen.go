package main

import (
	"fmt"

	"verif/harness/lib"
)

type gfrag struct {
	src, dst uint32
	id       uint32
	off      int // 8-byte units
	more     int
	nh       int
	payload  []byte
}

func emitIn(emit func(string), f gfrag) {
	emit(fmt.Sprintf("frag6 in %d %d %d %d %d %d %s", f.src, f.dst, f.id, f.off, f.more, f.nh, lib.Hex(f.payload)))
}

// pieces cuts p at unit boundaries `cuts` (sorted, 8-byte units).
func pieces(src, dst, id uint32, nh int, p []byte, cuts []int) []gfrag {
	var out []gfrag
	start := 0
	for _, c := range append(append([]int(nil), cuts...), -1) {
		end, more := c*8, 1
		if c < 0 || end >= len(p) {
			end, more = len(p), 0
		}
		if end <= start {
			continue
		}
		// intermediate fragments usually carry the same next-header; the code uses the last one's
		out = append(out, gfrag{src, dst, id, start / 8, more, nh, p[start:end]})
		start = end
		if more == 0 {
			break
		}
	}
	return out
}

func perms(n int) [][]int {
	if n == 0 {
		return [][]int{{}}
	}
	var out [][]int
	for _, p := range perms(n - 1) {
		for i := 0; i <= len(p); i++ {
			q := append(append(append([]int(nil), p[:i]...), n-1), p[i:]...)
			out = append(out, q)
		}
	}
	return out
}

func permute(r *lib.Rand, fs []gfrag) []gfrag {
	out := append([]gfrag(nil), fs...)
	for i := len(out) - 1; i > 0; i-- {
		j := r.Intn(i + 1)
		out[i], out[j] = out[j], out[i]
	}
	return out
}

func randomCuts(r *lib.Rand, units, n int) []int {
	if units <= 1 {
		return nil
	}
	seen := map[int]bool{}
	var cuts []int
	for i := 0; i < n; i++ {
		c := 1 + r.Intn(units-1)
		if !seen[c] {
			seen[c] = true
			cuts = append(cuts, c)
		}
	}
	for i := 1; i < len(cuts); i++ {
		for j := i; j > 0 && cuts[j-1] > cuts[j]; j-- {
			cuts[j-1], cuts[j] = cuts[j], cuts[j-1]
		}
	}
	return cuts
}

func genExhaustive(emit func(string)) {
	p := []byte("0123456789abcdefghijklmnopqrstuv")
	for _, size := range []int{32, 27} {
		for mask := 0; mask < 8; mask++ {
			var cuts []int
			for b := 0; b < 3; b++ {
				if mask&(1<<b) != 0 {
					cuts = append(cuts, b+1)
				}
			}
			fs := pieces(1, 2, 77, 17, p[:size], cuts)
			for _, pm := range perms(len(fs)) {
				for dup := -1; dup < len(fs); dup++ {
					for pos := 0; pos <= len(fs); pos++ {
						if dup < 0 && pos > 0 {
							break
						}
						emit("reset")
						for i, k := range pm {
							if dup >= 0 && i == pos {
								emitIn(emit, fs[dup])
							}
							emitIn(emit, fs[k])
						}
						if dup >= 0 && pos == len(fs) {
							emitIn(emit, fs[dup])
						}
						emit("frag6 discard past")
						emit("frag6 discard future")
					}
				}
			}
		}
	}
}

func genHonest(r *lib.Rand, emit func(string), big bool) {
	emit("reset")
	nk := 1 + r.Intn(3)
	var streams [][]gfrag
	for k := 0; k < nk; k++ {
		var size int
		switch r.Intn(6) {
		case 0:
			size = 1 + r.Intn(48)
		case 1:
			size = 1448 * (1 + r.Intn(3))
		case 2:
			size = 8 * (1 + r.Intn(8))
		default:
			size = 9 + r.Intn(3000)
		}
		if big && k == 0 {
			size = 65527 - r.Intn(9)*r.Intn(2)
		}
		p := r.Bytes(size)
		units := (size + 7) / 8
		n := r.Intn(7)
		if r.Chance(10) {
			n = units
			if n > 300 {
				n = 300
			}
		}
		fs := pieces(uint32(10+k), 20, uint32(1000+k), []int{6, 17, 58}[r.Intn(3)], p, randomCuts(r, units, n))
		if r.Chance(20) {
			for i := range fs { // differing next-header values in non-final pieces
				if fs[i].more == 1 {
					fs[i].nh = 44
				}
			}
		}
		switch r.Intn(4) {
		case 0:
		case 1:
			for i, j := 0, len(fs)-1; i < j; i, j = i+1, j-1 {
				fs[i], fs[j] = fs[j], fs[i]
			}
		default:
			fs = permute(r, fs)
		}
		if r.Chance(60) {
			var w []gfrag
			for i, f := range fs {
				w = append(w, f)
				for r.Chance(25) {
					w = append(w, fs[r.Intn(i+1)])
				}
			}
			fs = w
		}
		streams = append(streams, fs)
	}
	idx := make([]int, nk)
	for {
		var live []int
		for i, s := range streams {
			if idx[i] < len(s) {
				live = append(live, i)
			}
		}
		if len(live) == 0 {
			break
		}
		i := live[r.Intn(len(live))]
		emitIn(emit, streams[i][idx[i]])
		idx[i]++
		if r.Chance(3) {
			emit("frag6 discard past")
		}
	}
	if r.Chance(30) { // duplicates after completion (the entry is still stored)
		s := streams[r.Intn(nk)]
		emitIn(emit, s[r.Intn(len(s))])
	}
	emit("frag6 discard future")
	emit("frag6 discard future")
}

func genHostile(r *lib.Rand, emit func(string)) {
	emit("reset")
	n := 1 + r.Intn(7)
	maxOff := 1 + r.Intn(8)
	for i := 0; i < n; i++ {
		plen := 8 * (1 + r.Intn(4))
		if r.Chance(25) {
			plen = r.Intn(40) // not a multiple of 8, possibly empty
		}
		more := 1
		if r.Chance(30) {
			more = 0
		}
		f := gfrag{src: uint32(1 + r.Intn(2)*r.Intn(2)), dst: 2, id: uint32(5 + r.Intn(2)*r.Intn(2)), off: r.Intn(maxOff), more: more, nh: 17 + r.Intn(2), payload: r.Bytes(plen)}
		if r.Chance(3) {
			f.off = 65535 - r.Intn(3)
		}
		emitIn(emit, f)
		if r.Chance(5) {
			emit("frag6 discard " + []string{"past", "future"}[r.Intn(2)])
		}
	}
	emit("frag6 discard future")
}

func gen(r *lib.Rand, tier string, emit func(string)) {
	genExhaustive(emit)
	scale := 1
	if tier == "thorough" {
		scale = 12
	}
	for i := 0; i < 1200*scale; i++ {
		genHonest(r, emit, false)
	}
	for i := 0; i < 4*scale; i++ {
		genHonest(r, emit, true)
	}
	for i := 0; i < 5000*scale; i++ {
		genHostile(r, emit)
	}
}
