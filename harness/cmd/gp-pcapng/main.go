// gp-pcapng: correspondence adapter for engine `pcapng` (C14, C15): drives the real
// pcapgo.NgWriter / pcapgo.NgReader.
//
// Ops (identical file is fed to lean/Driver/Pcapng.lean):
//
//	pcapng write S app comment hw os I <iface> {item}   build a file with the real NgWriter → "ok <nerr> <hex>"
//	pcapng read <zero|copy> <cfg> <cut|all>             read the current file cut at `cut` with the real NgReader
//	pcapng readhex <zero|copy> <cfg> <hex>              read arbitrary bytes
//	pcapng readhexbig …                                 same; the generator knows the input declares ≥ 64 MiB in a
//	                                                    length field that drives an allocation (skipped if the probe
//	                                                    found that allocation unguarded: a 4 GiB make costs ~20 s here)
//	pcapng probe                                        C15 probes: tiny files declaring 40 MiB → allocation monitors
//
// iface := name comment descr filter os linktype tsoffset snaplen          (strings in hex, "-" = empty)
// item  := I <iface>
//
//	| P iface tsnano len data C n c1..cn F (x | dir rcv fcs lle) H n (alg hex)* D (x|n) J (x|n) Q (x|n) V n (type hex)*
//	| T iface (lastupdate|z) (start|z) (end|z) dropped received
//	| K secretstype payload
//
// cfg   := three 0/1 digits: WantMixedLinkType ErrorOnMismatchingLinkType SkipUnknownVersion
package main

import (
	"bytes"
	"compress/gzip"
	"errors"
	"fmt"
	"io"
	"os"
	"runtime"
	"runtime/debug"
	"strconv"
	"strings"
	"time"

	"github.com/gopacket/gopacket"
	"github.com/gopacket/gopacket/layers"
	"github.com/gopacket/gopacket/pcapgo"
	"verif/harness/lib"
)

// ---------------------------------------------------------------- specs

type ifaceSpec struct {
	name, comment, descr, filter, os []byte
	lt                               uint16
	tsoff                            uint64
	snap                             uint32
}

type tagged struct {
	tag uint8
	val []byte
}

type pktOpts struct {
	comments  [][]byte
	flags     *[4]uint32
	hashes    []tagged
	drop, pid *uint64
	queue     *uint32
	verdicts  []tagged
}

type item struct {
	kind  byte // 'I' 'P' 'T' 'K'
	ifc   ifaceSpec
	idx   int
	ts    int64
	plen  int
	data  []byte
	opts  pktOpts
	times [3]*int64 // lastupdate, start, end
	drop  uint64
	recv  uint64
	ktype uint32
}

type fileSpec struct {
	sect  [4][]byte // app comment hw os
	if0   ifaceSpec
	items []item
}

func (i ifaceSpec) tokens() []string {
	return []string{lib.Hex(i.name), lib.Hex(i.comment), lib.Hex(i.descr), lib.Hex(i.filter), lib.Hex(i.os),
		strconv.Itoa(int(i.lt)), strconv.FormatUint(i.tsoff, 10), strconv.FormatUint(uint64(i.snap), 10)}
}

func optU64(p *uint64) string {
	if p == nil {
		return "x"
	}
	return strconv.FormatUint(*p, 10)
}

func (o pktOpts) tokens() []string {
	t := []string{"C", strconv.Itoa(len(o.comments))}
	for _, c := range o.comments {
		t = append(t, lib.Hex(c))
	}
	t = append(t, "F")
	if o.flags == nil {
		t = append(t, "x")
	} else {
		for _, f := range o.flags {
			t = append(t, strconv.FormatUint(uint64(f), 10))
		}
	}
	t = append(t, "H", strconv.Itoa(len(o.hashes)))
	for _, h := range o.hashes {
		t = append(t, strconv.Itoa(int(h.tag)), lib.Hex(h.val))
	}
	t = append(t, "D", optU64(o.drop), "J", optU64(o.pid), "Q")
	if o.queue == nil {
		t = append(t, "x")
	} else {
		t = append(t, strconv.FormatUint(uint64(*o.queue), 10))
	}
	t = append(t, "V", strconv.Itoa(len(o.verdicts)))
	for _, h := range o.verdicts {
		t = append(t, strconv.Itoa(int(h.tag)), lib.Hex(h.val))
	}
	return t
}

func optTime(p *int64) string {
	if p == nil {
		return "z"
	}
	return strconv.FormatInt(*p, 10)
}

func (f fileSpec) tokens() []string {
	t := []string{"S", lib.Hex(f.sect[0]), lib.Hex(f.sect[1]), lib.Hex(f.sect[2]), lib.Hex(f.sect[3]), "I"}
	t = append(t, f.if0.tokens()...)
	for _, it := range f.items {
		switch it.kind {
		case 'I':
			t = append(t, "I")
			t = append(t, it.ifc.tokens()...)
		case 'P':
			t = append(t, "P", strconv.Itoa(it.idx), strconv.FormatInt(it.ts, 10), strconv.Itoa(it.plen), lib.Hex(it.data))
			t = append(t, it.opts.tokens()...)
		case 'T':
			t = append(t, "T", strconv.Itoa(it.idx), optTime(it.times[0]), optTime(it.times[1]), optTime(it.times[2]),
				strconv.FormatUint(it.drop, 10), strconv.FormatUint(it.recv, 10))
		case 'K':
			t = append(t, "K", strconv.FormatUint(uint64(it.ktype), 10), lib.Hex(it.data))
		}
	}
	return t
}

type tokStream struct {
	t  []string
	ok bool
}

func (s *tokStream) next() string {
	if len(s.t) == 0 {
		s.ok = false
		return ""
	}
	x := s.t[0]
	s.t = s.t[1:]
	return x
}
func (s *tokStream) hex() []byte {
	b, ok := lib.UnHex(s.next())
	if !ok {
		s.ok = false
	}
	return b
}
func (s *tokStream) u64(bits int) uint64 {
	n, err := strconv.ParseUint(s.next(), 10, 64)
	if err != nil {
		s.ok = false
	}
	if bits < 64 && n >= 1<<uint(bits) {
		// the model takes the value modulo the field width, like the Go conversions; keep specs in range
		s.ok = false
	}
	return n
}
func (s *tokStream) nat() int {
	n, err := strconv.Atoi(s.next())
	if err != nil || n < 0 {
		s.ok = false
		return 0
	}
	return n
}
func (s *tokStream) expect(x string) {
	if s.next() != x {
		s.ok = false
	}
}
func (s *tokStream) iface() ifaceSpec {
	var i ifaceSpec
	i.name, i.comment, i.descr, i.filter, i.os = s.hex(), s.hex(), s.hex(), s.hex(), s.hex()
	i.lt = uint16(s.u64(16))
	i.tsoff = s.u64(64)
	i.snap = uint32(s.u64(32))
	return i
}
func (s *tokStream) optU64() *uint64 {
	if len(s.t) > 0 && s.t[0] == "x" {
		s.next()
		return nil
	}
	v := s.u64(64)
	return &v
}
func (s *tokStream) optTime() *int64 {
	x := s.next()
	if x == "z" {
		return nil
	}
	v, err := strconv.ParseInt(x, 10, 64)
	if err != nil {
		s.ok = false
	}
	return &v
}
func (s *tokStream) taggedList() []tagged {
	n := s.nat()
	var l []tagged
	for i := 0; i < n && s.ok; i++ {
		t := uint8(s.u64(8))
		l = append(l, tagged{t, s.hex()})
	}
	return l
}

func parseSpec(toks []string) (fileSpec, bool) {
	s := &tokStream{t: toks, ok: true}
	var f fileSpec
	s.expect("S")
	for i := range f.sect {
		f.sect[i] = s.hex()
	}
	s.expect("I")
	f.if0 = s.iface()
	for s.ok && len(s.t) > 0 {
		var it item
		k := s.next()
		switch k {
		case "I":
			it.kind = 'I'
			it.ifc = s.iface()
		case "P":
			it.kind = 'P'
			it.idx = s.nat()
			v, err := strconv.ParseInt(s.next(), 10, 64)
			if err != nil {
				s.ok = false
			}
			it.ts = v
			it.plen = s.nat()
			it.data = s.hex()
			s.expect("C")
			n := s.nat()
			for i := 0; i < n && s.ok; i++ {
				it.opts.comments = append(it.opts.comments, s.hex())
			}
			s.expect("F")
			if len(s.t) > 0 && s.t[0] == "x" {
				s.next()
			} else {
				var fl [4]uint32
				for i := range fl {
					fl[i] = uint32(s.u64(32))
				}
				it.opts.flags = &fl
			}
			s.expect("H")
			it.opts.hashes = s.taggedList()
			s.expect("D")
			it.opts.drop = s.optU64()
			s.expect("J")
			it.opts.pid = s.optU64()
			s.expect("Q")
			if q := s.optU64(); q != nil {
				if *q >= 1<<32 {
					s.ok = false
				}
				q32 := uint32(*q)
				it.opts.queue = &q32
			}
			s.expect("V")
			it.opts.verdicts = s.taggedList()
		case "T":
			it.kind = 'T'
			it.idx = s.nat()
			it.times[0], it.times[1], it.times[2] = s.optTime(), s.optTime(), s.optTime()
			it.drop, it.recv = s.u64(64), s.u64(64)
		case "K":
			it.kind = 'K'
			it.ktype = uint32(s.u64(32))
			it.data = s.hex()
		default:
			s.ok = false
		}
		f.items = append(f.items, it)
	}
	return f, s.ok
}

// ---------------------------------------------------------------- the real writer

func (i ifaceSpec) ng() pcapgo.NgInterface {
	return pcapgo.NgInterface{Name: string(i.name), Comment: string(i.comment), Description: string(i.descr), Filter: string(i.filter),
		OS: string(i.os), LinkType: layers.LinkType(i.lt), TimestampOffset: i.tsoff, SnapLength: i.snap}
}

func (o pktOpts) ng() pcapgo.NgPacketOptions {
	var r pcapgo.NgPacketOptions
	for _, c := range o.comments {
		r.Comments = append(r.Comments, string(c))
	}
	if o.flags != nil {
		r.Flags = &pcapgo.NgEpbFlags{Direction: pcapgo.NgEpbFlag(o.flags[0]), Reception: pcapgo.NgEpbFlag(o.flags[1]),
			FCSLen: pcapgo.NgEpbFlag(o.flags[2]), LinkLayerErr: pcapgo.NgEpbFlag(o.flags[3])}
	}
	for _, h := range o.hashes {
		r.Hashes = append(r.Hashes, pcapgo.NgEpbHash{Algorithm: pcapgo.NgEpbHashAlgorithm(h.tag), Hash: h.val})
	}
	r.DropCount, r.PacketID, r.Queue = o.drop, o.pid, o.queue
	for _, h := range o.verdicts {
		r.Verdicts = append(r.Verdicts, pcapgo.NgEpbVerdict{Type: pcapgo.NgEpbVerdictType(h.tag), Data: h.val})
	}
	return r
}

func tm(p *int64) time.Time {
	if p == nil {
		return time.Time{}
	}
	return time.Unix(0, *p)
}

type written struct {
	file    []byte
	spec    fileSpec
	nerr    int
	pktEnd  []int // file offset just after the i-th accepted packet block
	pktItem []int // index into spec.items of the i-th accepted packet
	ifaces  []ifaceSpec
}

// writeReal builds the file with the real NgWriter.
func writeReal(f fileSpec) (*written, error) {
	var buf bytes.Buffer
	w, err := pcapgo.NewNgWriterInterface(&buf, f.if0.ng(), pcapgo.NgWriterOptions{SectionInfo: pcapgo.NgSectionInfo{
		Application: string(f.sect[0]), Comment: string(f.sect[1]), Hardware: string(f.sect[2]), OS: string(f.sect[3])}})
	if err != nil {
		return nil, err
	}
	res := &written{spec: f, ifaces: []ifaceSpec{f.if0}}
	for k, it := range f.items {
		var err error
		switch it.kind {
		case 'I':
			_, err = w.AddInterface(it.ifc.ng())
			if err == nil {
				res.ifaces = append(res.ifaces, it.ifc)
			}
		case 'P':
			ci := gopacket.CaptureInfo{Timestamp: time.Unix(0, it.ts), CaptureLength: len(it.data), Length: it.plen, InterfaceIndex: it.idx}
			err = w.WritePacketWithOptions(ci, it.data, it.opts.ng())
			if err == nil {
				if e := w.Flush(); e != nil {
					return nil, e
				}
				res.pktEnd = append(res.pktEnd, buf.Len())
				res.pktItem = append(res.pktItem, k)
			}
		case 'T':
			err = w.WriteInterfaceStats(it.idx, pcapgo.NgInterfaceStatistics{LastUpdate: tm(it.times[0]), StartTime: tm(it.times[1]),
				EndTime: tm(it.times[2]), PacketsDropped: it.drop, PacketsReceived: it.recv})
		case 'K':
			err = w.WriteDecryptionSecretsBlock(it.ktype, it.data)
		}
		if err != nil {
			res.nerr++
		}
	}
	if err := w.Flush(); err != nil {
		return nil, err
	}
	res.file = buf.Bytes()
	return res, nil
}

// ---------------------------------------------------------------- the real reader

type rdPkt struct {
	iface          int
	sec            int64
	nsec           int
	caplen, length int
	data           []byte
	ancil          string
	opts           pcapgo.NgPacketOptions
}

type rdResult struct {
	newErr  string // "ok" or error class
	calls   []string
	pkts    []rdPkt
	end     string // class of the last call result ("" if none)
	state   []string
	panicAt string
}

func (r *rdResult) reply() string {
	if r.newErr != "ok" {
		return "new=" + r.newErr
	}
	return strings.Join(append(append([]string{"new=ok"}, r.calls...), r.state...), " ")
}

var errInjected = errors.New("injected I/O error")

func errClass(err error) string {
	switch {
	case err == io.EOF:
		return "eof"
	case err == io.ErrUnexpectedEOF:
		return "ueof"
	default:
		return "err"
	}
}

func showTagged(n int, tag func(int) uint8, val func(int) []byte) string {
	var p []string
	for i := 0; i < n; i++ {
		p = append(p, strconv.Itoa(int(tag(i)))+"."+lib.Hex(val(i)))
	}
	return strings.Join(p, ",")
}

func showOpts(o pcapgo.NgPacketOptions) string {
	var cs []string
	for _, c := range o.Comments {
		cs = append(cs, lib.Hex([]byte(c)))
	}
	fl := "x"
	if o.Flags != nil {
		fl = fmt.Sprintf("%d.%d.%d.%d", uint32(o.Flags.Direction), uint32(o.Flags.Reception), uint32(o.Flags.FCSLen), uint32(o.Flags.LinkLayerErr))
	}
	q := "x"
	if o.Queue != nil {
		q = strconv.FormatUint(uint64(*o.Queue), 10)
	}
	return "c=" + strings.Join(cs, ",") + ";f=" + fl +
		";h=" + showTagged(len(o.Hashes), func(i int) uint8 { return uint8(o.Hashes[i].Algorithm) }, func(i int) []byte { return o.Hashes[i].Hash }) +
		";d=" + optU64(o.DropCount) + ";i=" + optU64(o.PacketID) + ";q=" + q +
		";v=" + showTagged(len(o.Verdicts), func(i int) uint8 { return uint8(o.Verdicts[i].Type) }, func(i int) []byte { return o.Verdicts[i].Data })
}

func showTime(t time.Time) string { return fmt.Sprintf("%d:%d", t.Unix(), t.Nanosecond()) }

func pcapgoSite(stack string) string {
	for _, l := range strings.Split(stack, "\n") {
		l = strings.TrimSpace(l)
		if i := strings.Index(l, "/pcapgo/"); i >= 0 && strings.Contains(l, ".go:") && !strings.Contains(l, "/verif/") {
			return strings.Fields(l[i+1:])[0]
		}
	}
	return "?"
}

const maxErrs = 6
const maxPkts = 100000

func parseCfg(s string) (pcapgo.NgReaderOptions, bool) {
	if len(s) != 3 {
		return pcapgo.NgReaderOptions{}, false
	}
	for _, c := range s {
		if c != '0' && c != '1' {
			return pcapgo.NgReaderOptions{}, false
		}
	}
	return pcapgo.NgReaderOptions{WantMixedLinkType: s[0] == '1', ErrorOnMismatchingLinkType: s[1] == '1', SkipUnknownVersion: s[2] == '1'}, true
}

// readReal runs the real reader over src until a final error (or maxErrs plain errors).
func readReal(src io.Reader, zero bool, opts pcapgo.NgReaderOptions) (res *rdResult) {
	res = &rdResult{}
	var r *pcapgo.NgReader
	guard := func(f func()) (panicked bool) {
		defer func() {
			if v := recover(); v != nil {
				res.panicAt = pcapgoSite(string(debug.Stack()))
				res.end = "panic:" + lib.PanicKind(v)
				panicked = true
			}
		}()
		f()
		return false
	}
	var err error
	if guard(func() { r, err = pcapgo.NewNgReader(src, opts) }) {
		res.newErr = res.end
		return
	}
	if err != nil {
		res.newErr = errClass(err)
		return
	}
	res.newErr = "ok"
	dump := true
	errs := 0
	for {
		if len(res.pkts) >= maxPkts {
			res.calls = append(res.calls, "E:limit")
			break
		}
		var data []byte
		var ci gopacket.CaptureInfo
		var o pcapgo.NgPacketOptions
		if guard(func() {
			if zero {
				data, ci, o, err = r.ZeroCopyReadPacketDataWithOptions()
			} else {
				data, ci, o, err = r.ReadPacketDataWithOptions()
			}
		}) {
			res.calls = append(res.calls, "E:"+res.end)
			dump = false
			break
		}
		if err != nil {
			c := errClass(err)
			res.end = c
			res.calls = append(res.calls, "E:"+c)
			if c == "err" {
				errs++
				if errs >= maxErrs {
					break
				}
				continue
			}
			break
		}
		p := rdPkt{iface: ci.InterfaceIndex, sec: ci.Timestamp.Unix(), nsec: ci.Timestamp.Nanosecond(), caplen: ci.CaptureLength,
			length: ci.Length, data: append([]byte(nil), data...), ancil: "x", opts: o}
		if len(ci.AncillaryData) > 0 {
			if lt, ok := ci.AncillaryData[0].(layers.LinkType); ok {
				p.ancil = strconv.Itoa(int(lt))
			} else {
				p.ancil = "?"
			}
		}
		res.pkts = append(res.pkts, p)
		res.end = "pkt"
		res.calls = append(res.calls, fmt.Sprintf("P:%d:%d:%d:%d:%d:%s:%s:%s", p.iface, p.sec, p.nsec, p.caplen, p.length, lib.Hex(p.data), p.ancil, showOpts(o)))
	}
	if dump {
		guard(func() {
			st := []string{"L" + strconv.Itoa(int(r.LinkType())), "I" + strconv.Itoa(r.NInterfaces())}
			for i := 0; i < r.NInterfaces(); i++ {
				f, _ := r.Interface(i)
				s := f.Statistics
				st = append(st, fmt.Sprintf("i:%s:%s:%s:%s:%s:%d:%d:%d:%d:%s:%s:%s:%s:%d:%d", lib.Hex([]byte(f.Name)), lib.Hex([]byte(f.Comment)),
					lib.Hex([]byte(f.Description)), lib.Hex([]byte(f.Filter)), lib.Hex([]byte(f.OS)), int(f.LinkType), int(f.TimestampResolution),
					f.TimestampOffset, f.SnapLength, showTime(s.LastUpdate), showTime(s.StartTime), showTime(s.EndTime), lib.Hex([]byte(s.Comment)),
					s.PacketsReceived, s.PacketsDropped))
			}
			si := r.SectionInfo()
			st = append(st, fmt.Sprintf("S:%s:%s:%s:%s", lib.Hex([]byte(si.Hardware)), lib.Hex([]byte(si.OS)), lib.Hex([]byte(si.Application)), lib.Hex([]byte(si.Comment))))
			st = append(st, "N"+strconv.Itoa(r.NNames()))
			for i := 0; i < r.NNames(); i++ {
				nr, _ := r.Name(i)
				var ns []string
				for _, n := range nr.Names {
					ns = append(ns, lib.Hex([]byte(n)))
				}
				al := 0
				if nr.Addr != nil {
					al = nr.Addr.Len()
				}
				st = append(st, fmt.Sprintf("n:%d:%s", al, strings.Join(ns, ",")))
			}
			res.state = st
		})
	}
	return
}

// ---------------------------------------------------------------- io.Reader wrappers (C15 runtime monitors)

type chunkReader struct {
	b      []byte
	sizes  func() int
	reads  int
	failAt int // read index at which the injected error is returned (-1: never)
	failed bool
}

func (c *chunkReader) Read(p []byte) (int, error) {
	idx := c.reads
	c.reads++
	if c.failAt >= 0 && idx >= c.failAt {
		c.failed = true
		return 0, errInjected
	}
	if len(c.b) == 0 {
		return 0, io.EOF
	}
	n := c.sizes()
	if n < 1 {
		n = 1
	}
	if n > len(p) {
		n = len(p)
	}
	if n > len(c.b) {
		n = len(c.b)
	}
	copy(p, c.b[:n])
	c.b = c.b[n:]
	return n, nil
}

// ---------------------------------------------------------------- state + monitors

var (
	cur         *written
	probed      bool
	unsafeAlloc bool // some length-driven allocation is unguarded: do not execute `readhexbig`
)

func reset() { cur = nil }

const allocSlack = 3 << 20

func totalAlloc() uint64 {
	var m runtime.MemStats
	runtime.ReadMemStats(&m)
	return m.TotalAlloc
}

type runOut struct {
	res   *rdResult
	alloc uint64
	hung  bool
}

// timed runs the real reader with a watchdog.
func timed(input []byte, zero bool, opts pcapgo.NgReaderOptions, mk func([]byte) io.Reader) runOut {
	ch := make(chan runOut, 1)
	go func() {
		a0 := totalAlloc()
		res := readReal(mk(input), zero, opts)
		ch <- runOut{res: res, alloc: totalAlloc() - a0}
	}()
	select {
	case o := <-ch:
		return o
	case <-time.After(60 * time.Second):
		return runOut{hung: true, res: &rdResult{newErr: "hang"}}
	}
}

func plain(b []byte) io.Reader { return bytes.NewReader(b) }

// quick reruns the reader without allocation accounting (used by the runtime monitors; the undisturbed
// run of the same input already went through the watchdog)
func quick(input []byte, zero bool, opts pcapgo.NgReaderOptions, mk func([]byte) io.Reader) runOut {
	return runOut{res: readReal(mk(input), zero, opts)}
}

func maxSnap(res *rdResult) uint64 { return 0 }

// c15Monitors checks the safety clauses of C15 directly on the result of one read.
func c15Monitors(input []byte, zero bool, o runOut) {
	res := o.res
	if o.hung {
		lib.Finding("C15", "pcapng:hang", fmt.Sprintf("reader did not return within 60s on %d bytes", len(input)))
		return
	}
	if res.panicAt != "" {
		lib.Finding("C15", "pcapng:panic:"+res.panicAt, fmt.Sprintf("reader panicked (%s) at %s on %d input bytes", res.end, res.panicAt, len(input)))
	}
	for _, p := range res.pkts {
		if len(p.data) != p.caplen {
			lib.Finding("C15", "pcapng:datalen", fmt.Sprintf("returned %d data bytes with CaptureLength %d", len(p.data), p.caplen))
		}
		if p.caplen > p.length {
			lib.Finding("C15", "pcapng:caplen-gt-len", fmt.Sprintf("returned CaptureLength %d > Length %d", p.caplen, p.length))
		}
	}
	if o.alloc > 64*uint64(len(input))+allocSlack {
		mode := "copy"
		if zero {
			mode = "zero"
		}
		lib.Finding("C15", "pcapng:alloc:oversized:"+mode, fmt.Sprintf("allocated %d bytes while reading %d input bytes", o.alloc, len(input)))
	}
}

func fnv(b []byte) uint64 {
	h := uint64(14695981039346656037)
	for _, c := range b {
		h ^= uint64(c)
		h *= 1099511628211
	}
	return h
}

// runtimeMonitors: chunking independence, injected I/O errors, gzip wrapping (C15 "not modelled (runtime)").
func runtimeMonitors(input []byte, zero bool, opts pcapgo.NgReaderOptions, base *rdResult) {
	if base.panicAt != "" || base.newErr == "hang" {
		return
	}
	h := fnv(input)
	if h%4 != 0 && (len(input) > 256 || h%4 != 1) {
		return
	}
	rnd := lib.NewRand(h)
	want := base.reply()
	sizes := []func() int{func() int { return 1 }, func() int { return 2 }, func() int { return 3 }, func() int { return 7 }, func() int { return 1 + rnd.Intn(23) }}
	for k, sz := range sizes {
		if len(input) > 4096 && k < 3 {
			continue
		}
		o := quick(input, zero, opts, func(b []byte) io.Reader { return &chunkReader{b: b, sizes: sz, failAt: -1} })
		lib.Stat("mon:chunking")
		if o.hung || o.res.reply() != want {
			lib.Finding("C15", "pcapng:chunking", fmt.Sprintf("result depends on how the stream is split into reads (chunking #%d, %d bytes)", k, len(input)))
			return
		}
	}
	// injected I/O error at every read index (chunks of 7 bytes; sampled for long inputs)
	if (len(input) <= 2048 && h%16 < 8) || h%64 == 0 {
		nreads := len(input)/7 + 2
		step := 1
		if nreads > 80 {
			step = nreads / 80
		}
		for j := 0; j < nreads; j += step {
			cr := &chunkReader{b: input, sizes: func() int { return 7 }, failAt: j}
			o := quick(input, zero, opts, func(b []byte) io.Reader { cr.b = b; return cr })
			lib.Stat("mon:ioerr")
			if o.hung {
				lib.Finding("C15", "pcapng:ioerr:hang", "reader hangs after an injected read error")
				return
			}
			r := o.res
			if r.panicAt != "" {
				lib.Finding("C15", "pcapng:ioerr:panic:"+r.panicAt, fmt.Sprintf("injected read error at read #%d surfaces as a panic", j))
				return
			}
			if !cr.failed {
				continue // the reader stopped before reaching the failing read
			}
			// the calls before the failure must be a prefix of the undisturbed calls, and the run must end in an error
			bad := false
			if r.newErr == "ok" {
				n := len(r.calls)
				if n == 0 || !strings.HasPrefix(r.calls[n-1], "E:") {
					bad = true
				} else if base.newErr != "ok" {
					bad = true
				} else {
					for i := 0; i < n-1 && !bad; i++ {
						if strings.HasPrefix(r.calls[i], "E:") {
							break // after a plain error both runs are in an error path; compare only up to it
						}
						if i >= len(base.calls) || base.calls[i] != r.calls[i] {
							bad = true
						}
					}
				}
				if !bad && r.end == "eof" && base.end != "eof" {
					bad = true // the I/O error was swallowed as a clean end of file
				}
			} else if r.newErr == "eof" && base.newErr != "eof" {
				bad = true
			}
			if bad {
				lib.Finding("C15", "pcapng:ioerr", fmt.Sprintf("injected read error at read #%d does not surface as an error after a prefix of the packets", j))
				return
			}
		}
	}
	// gzip-wrapped
	if h%4 == 0 && len(input) >= 2 && !(input[0] == 0x1f && input[1] == 0x8b) {
		var zb bytes.Buffer
		zw := gzip.NewWriter(&zb)
		zw.Write(input)
		zw.Close()
		o := quick(zb.Bytes(), zero, opts, plain)
		lib.Stat("mon:gzip")
		if o.hung || o.res.reply() != want {
			lib.Finding("C15", "pcapng:gzip", "gzip-wrapped stream is read differently from the plain stream")
		}
	}
}

// expected packets of the current written file under reader options o (C14 oracle, independent of the model)
type expPkt struct {
	item  int
	iface int
	ts    int64 // UnixNano expected by the property (what was written)
	tsoff uint64
}

func expectedPkts(w *written, o pcapgo.NgReaderOptions) (exp []expPkt, end []int, ok bool) {
	ifs := []ifaceSpec{w.spec.if0}
	pi := 0
	for k, it := range w.spec.items {
		switch it.kind {
		case 'I':
			ifs = append(ifs, it.ifc)
		case 'P':
			if pi < len(w.pktItem) && w.pktItem[pi] == k {
				if !o.WantMixedLinkType && ifs[it.idx].lt != ifs[0].lt {
					if o.ErrorOnMismatchingLinkType {
						return nil, nil, false
					}
				} else {
					exp = append(exp, expPkt{item: k, iface: it.idx, ts: it.ts, tsoff: ifs[it.idx].tsoff})
					end = append(end, w.pktEnd[pi])
				}
				pi++
			}
		}
	}
	if !o.WantMixedLinkType && o.ErrorOnMismatchingLinkType {
		for _, f := range ifs {
			if f.lt != ifs[0].lt {
				return nil, nil, false
			}
		}
	}
	return exp, end, true
}

func eqTagged(a []tagged, n int, tag func(int) uint8, val func(int) []byte) bool {
	if len(a) != n {
		return false
	}
	for i := range a {
		if a[i].tag != tag(i) || !bytes.Equal(a[i].val, val(i)) {
			return false
		}
	}
	return true
}

// c14Monitors: round trip / prefix property of the real writer+reader on the current file cut at `cut`.
func c14Monitors(w *written, cut int, o pcapgo.NgReaderOptions, res *rdResult) {
	exp, ends, ok := expectedPkts(w, o)
	if !ok || res.panicAt != "" {
		return
	}
	whole := 0
	for whole < len(ends) && ends[whole] <= cut {
		whole++
	}
	full := cut == len(w.file)
	sig := func(field string) string {
		if full {
			return "pcapng:roundtrip:" + field
		}
		return "pcapng:prefix:" + field
	}
	if len(res.pkts) != whole {
		lib.Finding("C14", sig("count"), fmt.Sprintf("file cut at %d of %d: read %d packets, %d are wholly contained", cut, len(w.file), len(res.pkts), whole))
		return
	}
	final := res.end
	if res.newErr != "ok" {
		final = res.newErr
	}
	if full && final != "eof" {
		lib.Finding("C14", sig("end"), "complete file does not end with io.EOF but "+final)
	}
	if !full && final != "eof" && final != "ueof" {
		lib.Finding("C14", sig("end"), "truncated file ends with "+final+" instead of EOF / unexpected EOF")
	}
	for i, p := range res.pkts {
		it := w.spec.items[exp[i].item]
		if p.iface != it.idx {
			lib.Finding("C14", sig("iface"), fmt.Sprintf("packet %d: interface %d, written %d", i, p.iface, it.idx))
		}
		if !bytes.Equal(p.data, it.data) {
			lib.Finding("C14", sig("data"), fmt.Sprintf("packet %d: data differs", i))
		}
		if p.caplen != len(it.data) || p.length != it.plen {
			lib.Finding("C14", sig("lengths"), fmt.Sprintf("packet %d: lengths %d/%d, written %d/%d", i, p.caplen, p.length, len(it.data), it.plen))
		}
		if it.ts >= 0 {
			got := p.sec*1000000000 + int64(p.nsec)
			if got != it.ts {
				if exp[i].tsoff != 0 && uint64(p.sec) == uint64(it.ts/1000000000)+exp[i].tsoff && int64(p.nsec) == it.ts%1000000000 {
					lib.Finding("C14", sig("ts-offset"), fmt.Sprintf("packet %d: timestamp read back shifted by the interface's TimestampOffset (%d s)", i, exp[i].tsoff))
				} else {
					lib.Finding("C14", sig("ts"), fmt.Sprintf("packet %d: timestamp %d.%09d, written %d ns", i, p.sec, p.nsec, it.ts))
				}
			}
		}
		po := p.opts
		if len(po.Comments) != len(it.opts.comments) {
			lib.Finding("C14", sig("comment"), fmt.Sprintf("packet %d: %d comments, written %d", i, len(po.Comments), len(it.opts.comments)))
		} else {
			for j := range po.Comments {
				if po.Comments[j] != string(it.opts.comments[j]) {
					lib.Finding("C14", sig("comment"), fmt.Sprintf("packet %d: comment %d reads back as %q, written %q", i, j, po.Comments[j], it.opts.comments[j]))
				}
			}
		}
		if (po.Flags == nil) != (it.opts.flags == nil) {
			lib.Finding("C14", sig("flags"), "flags option presence differs")
		} else if po.Flags != nil {
			f := it.opts.flags
			wantF := pcapgo.NgEpbFlags{Direction: pcapgo.NgEpbFlag(f[0]), Reception: pcapgo.NgEpbFlag(f[1]), FCSLen: pcapgo.NgEpbFlag(f[2]), LinkLayerErr: pcapgo.NgEpbFlag(f[3])}
			if po.Flags.ToUint32() != wantF.ToUint32() {
				lib.Finding("C14", sig("flags"), fmt.Sprintf("packet %d: flags word %#x, written %#x", i, po.Flags.ToUint32(), wantF.ToUint32()))
			}
		}
		if !eqTagged(it.opts.hashes, len(po.Hashes), func(i int) uint8 { return uint8(po.Hashes[i].Algorithm) }, func(i int) []byte { return po.Hashes[i].Hash }) {
			lib.Finding("C14", sig("hash"), fmt.Sprintf("packet %d: hashes differ", i))
		}
		if !eqTagged(it.opts.verdicts, len(po.Verdicts), func(i int) uint8 { return uint8(po.Verdicts[i].Type) }, func(i int) []byte { return po.Verdicts[i].Data }) {
			lib.Finding("C14", sig("verdict"), fmt.Sprintf("packet %d: verdicts differ", i))
		}
		if optU64(po.DropCount) != optU64(it.opts.drop) {
			lib.Finding("C14", sig("dropcount"), fmt.Sprintf("packet %d: drop count differs", i))
		}
		if optU64(po.PacketID) != optU64(it.opts.pid) {
			lib.Finding("C14", sig("packetid"), fmt.Sprintf("packet %d: packet id differs", i))
		}
		if (po.Queue == nil) != (it.opts.queue == nil) || (po.Queue != nil && *po.Queue != *it.opts.queue) {
			lib.Finding("C14", sig("queue"), fmt.Sprintf("packet %d: queue differs", i))
		}
	}
	if full && res.newErr == "ok" && len(res.state) > 0 {
		// interface and section descriptions
		n, _ := strconv.Atoi(strings.TrimPrefix(res.state[1], "I"))
		if n != len(w.ifaces) {
			lib.Finding("C14", sig("ifcount"), fmt.Sprintf("%d interfaces read, %d written", n, len(w.ifaces)))
		} else {
			for i, f := range w.ifaces {
				got := strings.Split(res.state[2+i], ":")
				want := []string{"i", lib.Hex(f.name), lib.Hex(f.comment), lib.Hex(f.descr), lib.Hex(f.filter), lib.Hex(f.os), strconv.Itoa(int(f.lt)), "9",
					strconv.FormatUint(f.tsoff, 10), strconv.FormatUint(uint64(f.snap), 10)}
				for k := range want {
					if got[k] != want[k] {
						lib.Finding("C14", sig("ifdesc"), fmt.Sprintf("interface %d: field %d reads back as %s, written %s", i, k, got[k], want[k]))
						break
					}
				}
			}
		}
		sec := res.state[2+n]
		wantSec := fmt.Sprintf("S:%s:%s:%s:%s", lib.Hex(w.spec.sect[2]), lib.Hex(w.spec.sect[3]), lib.Hex(w.spec.sect[0]), lib.Hex(w.spec.sect[1]))
		if sec != wantSec {
			lib.Finding("C14", sig("section"), "section info reads back as "+sec+", written "+wantSec)
		}
	}
}

func stats(res *rdResult, input []byte, zero bool, cfg string) {
	lib.Stat("new:" + res.newErr)
	if res.newErr == "ok" {
		lib.Stat("end:" + res.end)
		switch n := len(res.pkts); {
		case n == 0:
			lib.Stat("pkts:0")
		case n == 1:
			lib.Stat("pkts:1")
		case n <= 5:
			lib.Stat("pkts:2-5")
		default:
			lib.Stat("pkts:6+")
		}
		nerr := 0
		for _, c := range res.calls {
			if c == "E:err" {
				nerr++
			}
		}
		if nerr > 0 {
			lib.Stat("plain-errors")
		}
		for _, p := range res.pkts {
			o := p.opts
			if len(o.Comments) > 0 {
				lib.Stat("opt:comment")
			}
			if o.Flags != nil {
				lib.Stat("opt:flags")
			}
			if len(o.Hashes) > 0 {
				lib.Stat("opt:hash")
			}
			if o.DropCount != nil || o.PacketID != nil || o.Queue != nil {
				lib.Stat("opt:num")
			}
			if len(o.Verdicts) > 0 {
				lib.Stat("opt:verdict")
			}
			if p.sec == -62135596800 {
				lib.Stat("simple-packet")
			}
		}
		if len(res.state) > 1 {
			if res.state[1] != "I0" && res.state[1] != "I1" {
				lib.Stat("ifaces>1")
			}
			if last := res.state[len(res.state)-1]; strings.HasPrefix(last, "n:") {
				lib.Stat("name-records")
			}
		}
		if len(res.pkts) > 0 || res.end == "err" {
			lib.Nontrivial()
		}
	}
	if zero {
		lib.Stat("mode:zero")
	} else {
		lib.Stat("mode:copy")
	}
	lib.Stat("cfg:" + cfg)
	if len(input) >= 12 && input[8] == 0x1a && input[9] == 0x2b {
		lib.Stat("big-endian")
	}
}

// ---------------------------------------------------------------- probes

func probe() {
	probed = true
	const big = 40 << 20
	run := func(name string, file []byte, zero bool, allowed bool, what string) {
		o := timed(file, zero, pcapgo.NgReaderOptions{}, plain)
		if o.alloc > big/2 {
			unsafeAlloc = true
			if !allowed {
				lib.Finding("C15", "pcapng:alloc:"+name, fmt.Sprintf("%s: %d bytes allocated while reading a %d byte file", what, o.alloc, len(file)))
			}
		}
		lib.Stat("probe")
	}
	le := leOrder
	run("epb-caplen", cat(bSHB(le, nil), bIDB(le, 1, 0, nil), bEPB(le, 0, 0, big, big, []byte{1, 2, 3, 4}, nil)), false, false,
		"enhanced packet block declaring a 40 MiB capture length (ReadPacketData)")
	run("epb-caplen-zerocopy", cat(bSHB(le, nil), bIDB(le, 1, 0, nil), bEPB(le, 0, 0, big, big, []byte{1, 2, 3, 4}, nil)), true, false,
		"enhanced packet block declaring a 40 MiB capture length (ZeroCopyReadPacketData)")
	run("spb-len", cat(bSHB(le, nil), bIDB(le, 1, 0, nil), bBlock(le, 3, cat(le.u32(big), []byte{1, 2, 3, 4}))), false, false,
		"simple packet block declaring a 40 MiB packet length")
	run("dsb-secrets", cat(bSHB(le, nil), bBlock(le, 10, cat(le.u32(0x544c534b), le.u32(big), []byte{1, 2, 3, 4})), bIDB(le, 1, 0, nil)), false, false,
		"decryption secrets block declaring a 40 MiB secrets length")
	// a lying length followed by MORE than ngMaxPrealloc real bytes: the buffer may grow only as the data arrives
	// (doubling), never straight to the declared 160 MiB
	grow := func(name string, zero bool) {
		const declared = 160 << 20
		real := make([]byte, 3<<19) // 1.5 MiB of packet bytes really present
		for i := range real {
			real[i] = byte(i)
		}
		// the block's own total length must lie too (the capture length is validated against it), and the file ends
		// inside the packet data
		file := cat(bSHB(le, nil), bIDB(le, 1, 0, nil), le.u32(6), le.u32(declared+32), le.u32(0), le.ts(0), le.u32(declared), le.u32(declared), real)
		o := timed(file, zero, pcapgo.NgReaderOptions{}, plain)
		if o.alloc > 8*uint64(len(file))+allocSlack {
			lib.Finding("C15", "pcapng:alloc:"+name, fmt.Sprintf("enhanced packet block declaring a 160 MiB capture length followed by 1.5 MiB of data: %d bytes allocated while reading a %d byte file", o.alloc, len(file)))
		}
		lib.Stat("probe")
	}
	grow("epb-caplen-grow", false)
	grow("epb-caplen-grow-zerocopy", true)
	// allowed by the property (declared snap length), but it makes huge declared snap lengths expensive to execute
	run("zerocopy-snaplen", cat(bSHB(le, nil), bIDB(le, 1, big, nil), bEPB(le, 0, 0, 4, 4, []byte{1, 2, 3, 4}, nil)), true, true,
		"interface declaring a 40 MiB snap length (ZeroCopyReadPacketData)")
}

// ---------------------------------------------------------------- exec

func execRead(input []byte, zero bool, cfg string, w *written, cut int) string {
	opts, _ := parseCfg(cfg)
	o := timed(input, zero, opts, plain)
	c15Monitors(input, zero, o)
	if o.hung {
		return "hang"
	}
	stats(o.res, input, zero, cfg)
	if w != nil {
		c14Monitors(w, cut, opts, o.res)
		if cut == len(w.file) {
			lib.Stat("cut:full")
		} else {
			lib.Stat("cut:partial")
		}
	}
	runtimeMonitors(input, zero, opts, o.res)
	return o.res.reply()
}

func exec(a []string) string {
	if len(a) < 2 || a[0] != "pcapng" {
		return "bad-op"
	}
	switch a[1] {
	case "probe":
		if len(a) != 2 {
			return "bad-op"
		}
		probe()
		return "ok"
	case "write":
		f, ok := parseSpec(a[2:])
		if !ok {
			return "bad-op"
		}
		w, err := writeReal(f)
		if err != nil {
			return "err"
		}
		cur = w
		lib.Stat("write")
		return "ok " + strconv.Itoa(w.nerr) + " " + lib.Hex(w.file)
	case "read":
		if len(a) != 5 || (a[2] != "zero" && a[2] != "copy") || cur == nil {
			return "bad-op"
		}
		if _, ok := parseCfg(a[3]); !ok {
			return "bad-op"
		}
		cut := len(cur.file)
		if a[4] != "all" {
			n, ok := lib.Atoi(a[4])
			if !ok || n < 0 || n > len(cur.file) {
				return "bad-op"
			}
			cut = n
		}
		return execRead(cur.file[:cut], a[2] == "zero", a[3], cur, cut)
	case "readhex", "readhexbig":
		if len(a) != 5 || (a[2] != "zero" && a[2] != "copy") {
			return "bad-op"
		}
		if _, ok := parseCfg(a[3]); !ok {
			return "bad-op"
		}
		b, ok := lib.UnHex(a[4])
		if !ok {
			return "bad-op"
		}
		if a[1] == "readhexbig" {
			if !probed {
				probe()
			}
			if unsafeAlloc {
				lib.Stat("skipped-unsafe-alloc")
				return "unsafe-alloc"
			}
		}
		if len(b) >= 2 && b[0] == 0x1f && b[1] == 0x8b {
			// handed to compress/gzip: outside the model; still watch for panics / hangs / allocations
			opts, _ := parseCfg(a[3])
			c15Monitors(b, a[2] == "zero", timed(b, a[2] == "zero", opts, plain))
			lib.Stat("gzip-magic")
			return "new=gzip"
		}
		return execRead(b, a[2] == "zero", a[3], nil, 0)
	}
	return "bad-op"
}

func main() {
	_ = os.Args
	lib.Main(lib.Engine{Name: "pcapng", Gen: gen, Reset: reset, Exec: exec})
}
