package main

// Generators of engine `pcapng`: valid files from random specs (written by the real NgWriter at
// execution time), every/sampled cut offsets, hand-built block sequences in both byte orders,
// field-by-field boundary mutations of valid files, random garbage.

import (
	"bytes"
	"encoding/binary"
	"fmt"
	"os"
	"strconv"
	"strings"

	"verif/harness/lib"
)

// ---------------------------------------------------------------- raw block builders

type order struct{ be bool }

var leOrder, beOrder = order{false}, order{true}

func (o order) bo() binary.ByteOrder {
	if o.be {
		return binary.BigEndian
	}
	return binary.LittleEndian
}
func (o order) u16(v uint16) []byte { b := make([]byte, 2); o.bo().PutUint16(b, v); return b }
func (o order) u32(v uint32) []byte { b := make([]byte, 4); o.bo().PutUint32(b, v); return b }
func (o order) u64(v uint64) []byte { b := make([]byte, 8); o.bo().PutUint64(b, v); return b }
func (o order) ts(v uint64) []byte  { return cat(o.u32(uint32(v>>32)), o.u32(uint32(v))) }

func cat(bs ...[]byte) []byte { return bytes.Join(bs, nil) }
func pad4(n int) int          { return (4 - n%4) % 4 }
func padded(b []byte) []byte  { return cat(b, make([]byte, pad4(len(b)))) }

func bOpt(o order, code uint16, val []byte) []byte {
	return cat(o.u16(code), o.u16(uint16(len(val))), padded(val))
}
func bOpts(o order, opts ...[]byte) []byte {
	if len(opts) == 0 {
		return nil
	}
	return cat(cat(opts...), o.u16(0), o.u16(0))
}
func bBlock(o order, typ uint32, body []byte) []byte {
	l := uint32(12 + len(body))
	return cat(o.u32(typ), o.u32(l), body, o.u32(l))
}
func bSHBv(o order, major, minor uint16, opts []byte) []byte {
	return bBlock(o, 0x0A0D0D0A, cat(o.u32(0x1A2B3C4D), o.u16(major), o.u16(minor), o.u64(0xffffffffffffffff), opts))
}
func bSHB(o order, opts []byte) []byte { return bSHBv(o, 1, 0, opts) }
func bIDB(o order, lt uint16, snap uint32, opts []byte) []byte {
	return bBlock(o, 1, cat(o.u16(lt), o.u16(0), o.u32(snap), opts))
}
func bEPB(o order, ifc uint32, ts uint64, caplen, plen uint32, data, opts []byte) []byte {
	return bBlock(o, 6, cat(o.u32(ifc), o.ts(ts), o.u32(caplen), o.u32(plen), padded(data), opts))
}
func bPB(o order, ifc uint16, ts uint64, caplen, plen uint32, data, opts []byte) []byte {
	return bBlock(o, 2, cat(o.u16(ifc), o.u16(0), o.ts(ts), o.u32(caplen), o.u32(plen), padded(data), opts))
}
func bSPB(o order, plen uint32, data []byte) []byte {
	return bBlock(o, 3, cat(o.u32(plen), padded(data)))
}
func bISB(o order, ifc uint32, ts uint64, opts []byte) []byte {
	return bBlock(o, 5, cat(o.u32(ifc), o.ts(ts), opts))
}
func nrRecord(o order, typ uint16, val []byte) []byte {
	return cat(o.u16(typ), o.u16(uint16(len(val))), padded(val))
}
func bNRB(o order, records []byte, opts []byte) []byte {
	return bBlock(o, 4, cat(records, o.u16(0), o.u16(0), opts))
}
func bDSB(o order, typ, decl uint32, payload, opts []byte) []byte {
	return bBlock(o, 10, cat(o.u32(typ), o.u32(decl), padded(payload), opts))
}

// ---------------------------------------------------------------- field map of a well-framed file

type field struct {
	off, size int
	kind      string
}

func getU(o order, b []byte) uint64 {
	switch len(b) {
	case 1:
		return uint64(b[0])
	case 2:
		return uint64(o.bo().Uint16(b))
	case 4:
		return uint64(o.bo().Uint32(b))
	case 8:
		return o.bo().Uint64(b)
	}
	var v uint64
	for i := range b { // odd sizes: little endian / big endian number of that many bytes
		if o.be {
			v = v<<8 | uint64(b[i])
		} else {
			v |= uint64(b[i]) << (8 * uint(i))
		}
	}
	return v
}

func putU(o order, b []byte, v uint64) {
	switch len(b) {
	case 1:
		b[0] = byte(v)
	case 2:
		o.bo().PutUint16(b, uint16(v))
	case 4:
		o.bo().PutUint32(b, uint32(v))
	case 8:
		o.bo().PutUint64(b, v)
	default:
		for i := range b {
			if o.be {
				b[len(b)-1-i] = byte(v >> (8 * uint(i)))
			} else {
				b[i] = byte(v >> (8 * uint(i)))
			}
		}
	}
}

func optionFields(f []byte, o order, p, end int, out *[]field) {
	for p+4 <= end {
		code := o.bo().Uint16(f[p:])
		l := int(o.bo().Uint16(f[p+2:]))
		*out = append(*out, field{p, 2, "optcode"}, field{p + 2, 2, "optlen"})
		if code == 0 {
			return
		}
		if l > 0 && l <= 8 && p+4+l <= end {
			*out = append(*out, field{p + 4, l, "optval"})
		}
		p += 4 + l + pad4(l)
	}
}

// fields walks a file whose block framing is intact and lists every header / option / record field.
func fields(f []byte, o order) []field {
	var out []field
	p := 0
	for p+12 <= len(f) {
		typ := o.bo().Uint32(f[p:])
		if typ == 0x0A0D0D0A && p+12 <= len(f) {
			// byte order of this section
			if binary.BigEndian.Uint32(f[p+8:]) == 0x1A2B3C4D {
				o = beOrder
			} else {
				o = leOrder
			}
		}
		l := int(o.bo().Uint32(f[p+4:]))
		if l < 12 || p+l > len(f) {
			break
		}
		out = append(out, field{p, 4, "blocktype"}, field{p + 4, 4, "blocklen"})
		b, e := p+8, p+l-4
		switch typ {
		case 0x0A0D0D0A:
			out = append(out, field{b, 4, "magic"}, field{b + 4, 2, "major"}, field{b + 6, 2, "minor"}, field{b + 8, 8, "seclen"})
			optionFields(f, o, b+16, e, &out)
		case 1:
			out = append(out, field{b, 2, "linktype"}, field{b + 2, 2, "reserved"}, field{b + 4, 4, "snaplen"})
			optionFields(f, o, b+8, e, &out)
		case 6, 2:
			if typ == 6 {
				out = append(out, field{b, 4, "ifid"})
			} else {
				out = append(out, field{b, 2, "ifid"}, field{b + 2, 2, "drops"})
			}
			out = append(out, field{b + 4, 4, "tshi"}, field{b + 8, 4, "tslo"}, field{b + 12, 4, "caplen"}, field{b + 16, 4, "pktlen"})
			cl := int(o.bo().Uint32(f[b+12:]))
			if b+20+cl+pad4(cl) <= e {
				optionFields(f, o, b+20+cl+pad4(cl), e, &out)
			}
		case 3:
			out = append(out, field{b, 4, "spblen"})
		case 5:
			out = append(out, field{b, 4, "ifid"}, field{b + 4, 4, "tshi"}, field{b + 8, 4, "tslo"})
			optionFields(f, o, b+12, e, &out)
		case 4:
			q := b
			for q+4 <= e {
				rt := o.bo().Uint16(f[q:])
				rl := int(o.bo().Uint16(f[q+2:]))
				out = append(out, field{q, 2, "nrtype"}, field{q + 2, 2, "nrlen"})
				q += 4 + rl + pad4(rl)
				if rt == 0 {
					break
				}
			}
			if q <= e {
				optionFields(f, o, q, e, &out)
			}
		case 10:
			out = append(out, field{b, 4, "secretstype"}, field{b + 4, 4, "secretslen"})
		}
		out = append(out, field{e, 4, "blocklen2"})
		p += l
	}
	return out
}

func boundaryValues(size int, v uint64, kind string) []uint64 {
	var vs []uint64
	switch size {
	case 1:
		vs = []uint64{0, 1, v - 1, v + 1, 0x13, 0x14, 0x3f, 0x40, 0x7f, 0x80, 0x80 | 0x3f, 0x80 | 0x40, 0xff}
	case 2:
		vs = []uint64{0, 1, v - 1, v + 1, 0x8000, 0xffff}
	case 4:
		vs = []uint64{0, 1, v - 1, v + 1, 0x80000000, 0xffffffff}
		if strings.HasPrefix(kind, "blocklen") {
			vs = append(vs, 4, 8, 11, 12, 13, v-4, v+4, v+8)
		}
	case 8:
		vs = []uint64{0, 1, v - 1, v + 1, 1 << 63, ^uint64(0)}
	default:
		vs = []uint64{0, 1, v - 1, v + 1}
	}
	mask := ^uint64(0)
	if size < 8 {
		mask = 1<<(8*uint(size)) - 1
	}
	seen := map[uint64]bool{v & mask: true}
	var out []uint64
	for _, x := range vs {
		x &= mask
		if !seen[x] {
			seen[x] = true
			out = append(out, x)
		}
	}
	return out
}

// allocation-driving length fields: values ≥ 64 MiB there are tagged `big`
func isBig(kind string, v uint64) bool {
	switch kind {
	case "caplen", "spblen", "secretslen", "snaplen":
		return v >= 1<<26
	}
	return false
}

// toBigEndian re-encodes a little-endian file produced by the builders / the writer field by field.
func toBigEndian(f []byte) []byte {
	out := append([]byte(nil), f...)
	fl := fields(f, leOrder)
	// option values that the reader parses in file byte order (IDB tsoffset, ISB counters / times); EPB options stay LE
	blockType := uint32(0)
	for _, x := range fl {
		if x.kind == "blocktype" {
			blockType = binary.LittleEndian.Uint32(f[x.off:])
		}
		switch {
		case x.kind == "optval":
			if blockType == 5 && x.size == 8 {
				// two 32 bit words or one 64 bit word: decided by the option code just before
				code := binary.LittleEndian.Uint16(f[x.off-4:])
				if code == 2 || code == 3 {
					putU(beOrder, out[x.off:x.off+4], getU(leOrder, f[x.off:x.off+4]))
					putU(beOrder, out[x.off+4:x.off+8], getU(leOrder, f[x.off+4:x.off+8]))
				} else {
					putU(beOrder, out[x.off:x.off+8], getU(leOrder, f[x.off:x.off+8]))
				}
			} else if blockType == 1 && x.size == 8 {
				putU(beOrder, out[x.off:x.off+8], getU(leOrder, f[x.off:x.off+8]))
			}
		default:
			putU(beOrder, out[x.off:x.off+x.size], getU(leOrder, f[x.off:x.off+x.size]))
		}
	}
	return out
}

// ---------------------------------------------------------------- random specs

func rbytes(r *lib.Rand, n int) []byte {
	b := make([]byte, n)
	for i := range b {
		switch r.Intn(4) {
		case 0:
			b[i] = 0
		case 1:
			b[i] = byte('a' + r.Intn(26))
		default:
			b[i] = byte(r.U64())
		}
	}
	return b
}

func rstr(r *lib.Rand) []byte {
	return rbytes(r, r.Pick([]int{0, 0, 1, 2, 3, 4, 5, 7, 8, 13}))
}

func rIface(r *lib.Rand, lt uint16) ifaceSpec {
	i := ifaceSpec{lt: lt}
	if r.Chance(60) {
		i.name = rstr(r)
	}
	if r.Chance(30) {
		i.comment = rstr(r)
	}
	if r.Chance(30) {
		i.descr = rstr(r)
	}
	if r.Chance(30) {
		i.filter = rstr(r)
	}
	if r.Chance(30) {
		i.os = rstr(r)
	}
	if r.Chance(15) {
		i.tsoff = uint64(r.Pick([]int{1, 5, 100, 1 << 20}))
	}
	i.snap = uint32(r.Pick([]int{0, 0, 1, 64, 65535, 262144, 1 << 20, 1<<20 + 1}))
	return i
}

func rOpts(r *lib.Rand, rich bool) pktOpts {
	var o pktOpts
	if !rich && r.Chance(50) {
		return o
	}
	for n := r.Pick([]int{0, 0, 1, 1, 2, 3}); n > 0; n-- {
		o.comments = append(o.comments, rstr(r))
	}
	if r.Chance(40) {
		fl := [4]uint32{uint32(r.Intn(4)), uint32(r.Intn(8)) << 2, uint32(r.Intn(32)) << 5, uint32(r.Intn(65536)) << 16}
		if r.Chance(20) {
			fl = [4]uint32{uint32(r.U64()), uint32(r.U64()), uint32(r.U64()), uint32(r.U64())}
		}
		o.flags = &fl
	}
	for n := r.Pick([]int{0, 0, 0, 1, 2}); n > 0; n-- {
		o.hashes = append(o.hashes, tagged{uint8(r.Intn(7)), rbytes(r, r.Pick([]int{0, 1, 3, 4, 16, 20}))})
	}
	if r.Chance(30) {
		v := r.U64() >> uint(r.Intn(64))
		o.drop = &v
	}
	if r.Chance(30) {
		v := r.U64() >> uint(r.Intn(64))
		o.pid = &v
	}
	if r.Chance(30) {
		v := uint32(r.U64() >> uint(32+r.Intn(32)))
		o.queue = &v
	}
	for n := r.Pick([]int{0, 0, 0, 1, 2}); n > 0; n-- {
		o.verdicts = append(o.verdicts, tagged{uint8(r.Intn(4)), rbytes(r, r.Pick([]int{0, 1, 7, 8, 9}))})
	}
	return o
}

func rTime(r *lib.Rand) int64 {
	switch r.Intn(6) {
	case 0:
		return 0
	case 1:
		return int64(r.Intn(2000000000))
	case 2:
		return 1<<63 - 1 - int64(r.Intn(1000))
	default:
		return int64(1500000000+r.Intn(400000000))*1000000000 + int64(r.Intn(1000000000))
	}
}

func rSpec(r *lib.Rand, maxItems int, uniformLT bool) fileSpec {
	var f fileSpec
	for i := range f.sect {
		if r.Chance(40) {
			f.sect[i] = rstr(r)
		}
	}
	lts := []int{1, 1, 1, 101, 113, 0, 65535}
	lt0 := uint16(r.Pick(lts))
	f.if0 = rIface(r, lt0)
	nif := 1
	n := r.Intn(maxItems + 1)
	for k := 0; k < n; k++ {
		var it item
		switch x := r.Intn(20); {
		case x < 2:
			it.kind = 'I'
			lt := lt0
			if !uniformLT && r.Chance(50) {
				lt = uint16(r.Pick(lts))
			}
			it.ifc = rIface(r, lt)
			nif++
		case x < 4:
			it.kind = 'T'
			it.idx = r.Intn(nif)
			if r.Chance(5) {
				it.idx = nif
			}
			for j := range it.times {
				if r.Chance(60) {
					v := rTime(r)
					it.times[j] = &v
				}
			}
			it.drop, it.recv = ^uint64(0), ^uint64(0)
			if r.Chance(60) {
				it.drop = r.U64() >> uint(r.Intn(64))
			}
			if r.Chance(60) {
				it.recv = r.U64() >> uint(r.Intn(64))
			}
		case x < 5:
			it.kind = 'K'
			it.ktype = uint32(r.Pick([]int{0x544c534b, 0x5353484b, 0x57474b4c, 0x5a4e574b, 0x5a415053, 7}))
			it.data = rbytes(r, r.Pick([]int{0, 1, 3, 4, 5, 33}))
		default:
			it.kind = 'P'
			it.idx = r.Intn(nif)
			if r.Chance(3) {
				it.idx = nif
			}
			it.ts = rTime(r)
			it.data = rbytes(r, r.Pick([]int{0, 1, 2, 3, 4, 5, 6, 7, 8, 14, 60, 61}))
			it.plen = len(it.data) + r.Pick([]int{0, 0, 0, 1, 100, 70000})
			if r.Chance(3) && len(it.data) > 0 {
				it.plen = len(it.data) - 1
			}
			it.opts = rOpts(r, false)
		}
		f.items = append(f.items, it)
	}
	return f
}

// ---------------------------------------------------------------- emitters

type emitter struct {
	emit func(string)
	r    *lib.Rand
}

var cfgs = []string{"000", "100", "010", "001", "110", "101"}

func (e *emitter) writeCase(f fileSpec, cuts string, cfgList []string) {
	// cuts: "every", "sample", "none"
	e.emit("reset")
	e.emit("pcapng write " + strings.Join(f.tokens(), " "))
	w, err := writeReal(f) // only to know the file length / block boundaries for choosing cut offsets
	if err != nil {
		return
	}
	n := len(w.file)
	for _, c := range cfgList {
		e.emit("pcapng read copy " + c + " all")
	}
	e.emit("pcapng read zero " + cfgList[0] + " all")
	var offs []int
	switch cuts {
	case "every":
		for k := 0; k < n; k++ {
			offs = append(offs, k)
		}
	case "sample":
		seen := map[int]bool{}
		add := func(k int) {
			if k >= 0 && k < n && !seen[k] {
				seen[k] = true
				offs = append(offs, k)
			}
		}
		for _, end := range w.pktEnd {
			add(end - 1)
			add(end)
			add(end + 1)
			add(end + 8)
		}
		for i := 0; i < 24; i++ {
			add(e.r.Intn(n))
		}
	}
	for _, k := range offs {
		mode := "copy"
		if e.r.Chance(30) {
			mode = "zero"
		}
		e.emit(fmt.Sprintf("pcapng read %s %s %d", mode, cfgList[e.r.Intn(len(cfgList))], k))
	}
}

func (e *emitter) hexCase(b []byte, big bool, both bool) {
	e.emit("reset")
	e.hexOps(b, big, both)
}

func (e *emitter) hexOps(b []byte, big bool, both bool) {
	op := "readhex"
	if big {
		op = "readhexbig"
	}
	cfg := cfgs[e.r.Intn(len(cfgs))]
	mode := "copy"
	if e.r.Chance(35) {
		mode = "zero"
	}
	e.emit(fmt.Sprintf("pcapng %s %s %s %s", op, mode, cfg, lib.Hex(b)))
	if both {
		other := "zero"
		if mode == "zero" {
			other = "copy"
		}
		e.emit(fmt.Sprintf("pcapng %s %s %s %s", op, other, cfg, lib.Hex(b)))
	}
}

// a structured, mostly valid block sequence using every block type the reader knows
func rBlocks(r *lib.Rand, o order) []byte {
	str := func() []byte { return rstr(r) }
	var shbOpts [][]byte
	for _, c := range []uint16{1, 2, 3, 4, 77} {
		if r.Chance(30) {
			shbOpts = append(shbOpts, bOpt(o, c, str()))
		}
	}
	out := bSHB(o, bOpts(o, shbOpts...))
	idb := func() []byte {
		var opts [][]byte
		if r.Chance(50) {
			opts = append(opts, bOpt(o, 2, str()))
		}
		if r.Chance(20) {
			opts = append(opts, bOpt(o, 1, str()), bOpt(o, 3, str()))
		}
		if r.Chance(30) {
			opts = append(opts, bOpt(o, 11, cat([]byte{0}, str())))
		}
		if r.Chance(20) {
			opts = append(opts, bOpt(o, 12, str()))
		}
		if r.Chance(30) {
			opts = append(opts, bOpt(o, 14, o.u64(uint64(r.Pick([]int{0, 1, 1000, 1 << 31})))))
		}
		if r.Chance(70) {
			opts = append(opts, bOpt(o, 9, []byte{byte(r.Pick([]int{0, 1, 3, 6, 9, 10, 12, 19, 20, 63, 64, 0x80, 0x80 | 10, 0x80 | 20, 0x80 | 30, 0x80 | 32, 0x80 | 63, 0x80 | 64, 0xff}))}))
		}
		if r.Chance(10) {
			opts = append(opts, bOpt(o, uint16(r.Pick([]int{4, 5, 6, 7, 8, 10, 13, 2988, 19372})), str()))
		}
		return bIDB(o, uint16(r.Pick([]int{1, 1, 1, 101, 0})), uint32(r.Pick([]int{0, 0, 4, 96, 65535, 1 << 20})), bOpts(o, opts...))
	}
	if r.Chance(15) {
		out = cat(out, bDSB(o, 0x544c534b, uint32(r.Pick([]int{0, 3, 4, 5})), rbytes(r, 5), nil))
	}
	if r.Chance(10) {
		out = cat(out, bNRB(o, cat(nrRecord(o, 1, cat([]byte{10, 0, 0, 1}, []byte("host\x00")))), nil))
	}
	nif := 0
	if r.Chance(92) {
		out = cat(out, idb())
		nif++
	}
	ts := func() uint64 {
		return r.U64() >> uint(r.Pick([]int{0, 1, 8, 20, 30, 33, 40}))
	}
	for n := r.Intn(7); n > 0; n-- {
		data := rbytes(r, r.Pick([]int{0, 1, 2, 3, 4, 5, 8, 15, 16, 17}))
		switch x := r.Intn(20); {
		case x < 8:
			var opts [][]byte
			if r.Chance(30) {
				opts = append(opts, bOpt(o, 1, str()))
			}
			if r.Chance(25) {
				opts = append(opts, bOpt(o, 2, rbytes(r, r.Pick([]int{4, 4, 4, 0, 1, 3, 5, 8}))))
			}
			if r.Chance(15) {
				opts = append(opts, bOpt(o, 3, rbytes(r, r.Pick([]int{5, 1, 0, 17}))))
			}
			if r.Chance(15) {
				opts = append(opts, bOpt(o, uint16(4+r.Intn(2)), rbytes(r, r.Pick([]int{8, 8, 8, 0, 4, 7, 9}))))
			}
			if r.Chance(15) {
				opts = append(opts, bOpt(o, 6, rbytes(r, r.Pick([]int{4, 4, 0, 2, 3, 6}))))
			}
			if r.Chance(15) {
				opts = append(opts, bOpt(o, 7, rbytes(r, r.Pick([]int{9, 1, 0}))))
			}
			if r.Chance(8) {
				opts = append(opts, bOpt(o, uint16(r.Pick([]int{8, 9, 100, 0x8000})), str()))
			}
			cl := uint32(len(data))
			pl := cl + uint32(r.Pick([]int{0, 0, 1, 1000}))
			if r.Chance(5) {
				pl = cl - 1
			}
			if r.Chance(5) {
				cl += uint32(r.Pick([]int{1, 4, 100}))
				pl = cl
			}
			ifc := uint32(0)
			if nif > 0 {
				ifc = uint32(r.Intn(nif))
			}
			if r.Chance(4) {
				ifc = uint32(nif)
			}
			out = cat(out, bEPB(o, ifc, ts(), cl, pl, data, bOpts(o, opts...)))
		case x < 10:
			out = cat(out, bPB(o, uint16(r.Intn(nif+1)), ts(), uint32(len(data)), uint32(len(data)+r.Intn(3)), data, nil))
		case x < 12:
			pl := uint32(len(data)) + uint32(r.Pick([]int{0, 0, 0, 5}))
			out = cat(out, bSPB(o, pl, data))
		case x < 14:
			out = cat(out, idb())
			nif++
		case x < 15:
			var opts [][]byte
			if r.Chance(50) {
				opts = append(opts, bOpt(o, 2, o.ts(ts())), bOpt(o, 3, o.ts(ts())))
			}
			if r.Chance(50) {
				opts = append(opts, bOpt(o, 4, o.u64(r.U64())), bOpt(o, 5, rbytes(r, r.Pick([]int{8, 8, 4, 0}))))
			}
			if r.Chance(30) {
				opts = append(opts, bOpt(o, 1, str()))
			}
			out = cat(out, bISB(o, uint32(r.Intn(nif+1)), ts(), bOpts(o, opts...)))
		case x < 17:
			var recs [][]byte
			for k := r.Intn(4); k > 0; k-- {
				switch r.Intn(6) {
				case 0:
					recs = append(recs, nrRecord(o, 1, cat(rbytes(r, 4), []byte("a.example\x00"), []byte("b\x00"))))
				case 1:
					recs = append(recs, nrRecord(o, 2, cat(rbytes(r, 16), []byte("six\x00"))))
				case 2:
					recs = append(recs, nrRecord(o, 3, cat(rbytes(r, 6), []byte("mac\x00"), rbytes(r, 24))))
				case 3:
					recs = append(recs, nrRecord(o, 4, cat(rbytes(r, 8), rbytes(r, 30), []byte{0})))
				case 4:
					recs = append(recs, nrRecord(o, uint16(5+r.Intn(3)), rbytes(r, r.Intn(9))))
				default:
					recs = append(recs, nrRecord(o, 1, rbytes(r, r.Intn(4))))
				}
			}
			var opts []byte
			if r.Chance(30) {
				opts = bOpts(o, bOpt(o, 1, str()))
			}
			out = cat(out, bNRB(o, cat(recs...), opts))
		case x < 18:
			out = cat(out, bDSB(o, 0x544c534b, 4, rbytes(r, 4), nil))
		case x < 19:
			out = cat(out, bBlock(o, uint32(r.Pick([]int{7, 8, 9, 11, 0xBAD, 0x80000001})), rbytes(r, 4*r.Intn(4))))
		default:
			// a new section, sometimes with an unknown version / the other byte order
			o2 := o
			if r.Chance(50) {
				o2 = order{!o.be}
			}
			if r.Chance(40) {
				out = cat(out, bSHBv(o2, uint16(r.Pick([]int{1, 2})), uint16(r.Pick([]int{0, 1})), nil))
			} else {
				out = cat(out, bSHB(o2, nil))
			}
			o = o2
			nif = 0
			if r.Chance(80) {
				out = cat(out, idb())
				nif++
			}
		}
	}
	return out
}

func (e *emitter) mutations(f []byte, o order, maxPerFile int) {
	fl := fields(f, o)
	type mut struct {
		fi int
		v  uint64
	}
	var all []mut
	// byte order inside the file may change per section; fields() handled that, re-derive per field
	for i, x := range fl {
		v := getU(o, f[x.off:x.off+x.size])
		for _, nv := range boundaryValues(x.size, v, x.kind) {
			all = append(all, mut{i, nv})
		}
	}
	pick := all
	if maxPerFile > 0 && len(all) > maxPerFile {
		pick = nil
		for k := 0; k < maxPerFile; k++ {
			pick = append(pick, all[e.r.Intn(len(all))])
		}
	}
	e.emit("reset")
	for _, m := range pick {
		x := fl[m.fi]
		g := append([]byte(nil), f...)
		putU(o, g[x.off:x.off+x.size], m.v)
		e.hexOps(g, isBig(x.kind, m.v), false)
	}
}

func (e *emitter) garbage(n int) {
	r := e.r
	e.emit("reset")
	for k := 0; k < n; k++ {
		var b []byte
		switch r.Intn(5) {
		case 0:
			b = r.Bytes(r.Intn(40))
		case 1: // valid start then garbage
			b = cat(bSHB(leOrder, nil), bIDB(leOrder, 1, 0, nil), r.Bytes(r.Intn(60)))
		case 2: // garbage with small values (plausible lengths)
			b = cat(bSHB(leOrder, nil), bIDB(leOrder, 1, 0, nil))
			for j := r.Intn(40); j > 0; j-- {
				b = append(b, byte(r.Pick([]int{0, 0, 0, 1, 2, 3, 4, 6, 8, 12, 16, 20, 32, 255})))
			}
		case 3: // byte flips / deletions / insertions in a structured file
			o := leOrder
			if r.Bool() {
				o = beOrder
			}
			b = rBlocks(r, o)
			for j := 1 + r.Intn(3); j > 0 && len(b) > 0; j-- {
				p := r.Intn(len(b))
				switch r.Intn(3) {
				case 0:
					b[p] ^= byte(1 << uint(r.Intn(8)))
				case 1:
					b = append(b[:p:p], b[p+1:]...)
				default:
					b = cat(b[:p], []byte{byte(r.U64())}, b[p:])
				}
			}
			// flips in length fields may declare anything: keep the probe-guard in the loop
			e.hexOps(b, true, false)
			continue
		default:
			b = cat([]byte{0x0a, 0x0d, 0x0d, 0x0a}, r.Bytes(r.Intn(40)))
		}
		e.hexOps(b, false, false)
	}
}

func genMode() string {
	for _, a := range os.Args[2:] {
		if a == "c14" || a == "c15" {
			return a
		}
	}
	return "all"
}

func gen(r *lib.Rand, tier string, emit func(string)) {
	e := &emitter{emit: emit, r: r}
	mode := genMode()
	thorough := tier == "thorough"
	scale := 1
	if thorough {
		scale = 8
	}
	emit("reset")
	emit("pcapng probe")

	// ---- exhaustive small scope: data length × comment shape, every cut offset, both APIs
	if mode != "c15" {
		comments := [][][]byte{nil, {{}}, {[]byte("a")}, {[]byte("ab")}, {[]byte("abc")}, {[]byte("abcd")}, {[]byte("abcde")}, {[]byte("first"), {}}, {{}, []byte("x"), {}}}
		for dl := 0; dl <= 5; dl++ {
			for ci, cs := range comments {
				if !thorough && dl > 2 && ci%2 == 1 {
					continue
				}
				f := fileSpec{if0: ifaceSpec{name: []byte("e0"), lt: 1}}
				data := make([]byte, dl)
				for i := range data {
					data[i] = byte(0xd0 + i)
				}
				f.items = []item{{kind: 'P', ts: 1600000000123456789, plen: dl + ci%2, data: data, opts: pktOpts{comments: cs}},
					{kind: 'P', ts: 1600000001000000000, plen: 1, data: []byte{0xee}}}
				e.writeCase(f, "every", []string{"000", "100"})
			}
		}
		// each option kind alone and all together, lengths not a multiple of 4
		u := func(v uint64) *uint64 { return &v }
		q := uint32(7)
		q0 := uint32(0)
		optSets := []pktOpts{
			{flags: &[4]uint32{1, 4, 32, 1 << 31}},
			{hashes: []tagged{{2, []byte{1, 2, 3, 4}}, {0, nil}, {3, []byte{9}}}},
			{drop: u(2)}, {pid: u(0x1234567890abcdef)}, {queue: &q},
			{drop: u(0), pid: u(0), queue: &q0}, // zero-valued numbers are still options
			{verdicts: []tagged{{2, []byte{0, 0, 0, 0, 0, 0, 0, 1}}, {0, nil}}},
			{comments: [][]byte{[]byte("c1"), {}, []byte("c3")}, flags: &[4]uint32{0xffffffff, 0xffffffff, 0xffffffff, 0xffffffff},
				hashes: []tagged{{5, []byte{1, 2, 3}}}, drop: u(^uint64(0)), pid: u(0), queue: &q, verdicts: []tagged{{1, []byte{7}}}},
		}
		for _, os := range optSets {
			f := fileSpec{sect: [4][]byte{[]byte("app"), nil, []byte("hw1"), []byte("linux")}, if0: ifaceSpec{name: []byte("eth0"), filter: []byte("tcp"), lt: 1, snap: 65535}}
			f.items = []item{{kind: 'P', ts: 1, plen: 3, data: []byte{1, 2, 3}, opts: os}, {kind: 'T', idx: 0, times: [3]*int64{}, drop: 5, recv: ^uint64(0)},
				{kind: 'K', ktype: 0x544c534b, data: []byte("k")}, {kind: 'P', ts: 2, plen: 0, data: nil}}
			e.writeCase(f, "every", []string{"000", "100"})
		}
	}

	// ---- random valid files
	nvalid, nsample := 60*scale, 25*scale
	if mode == "c15" {
		nvalid, nsample = 15*scale, 10*scale
	}
	for k := 0; k < nvalid; k++ {
		f := rSpec(r, 5, r.Chance(60))
		cl := []string{cfgs[r.Intn(len(cfgs))]}
		if r.Chance(50) {
			cl = append(cl, cfgs[r.Intn(len(cfgs))])
		}
		w, err := writeReal(f)
		if err != nil {
			continue
		}
		if len(w.file) <= 420 {
			e.writeCase(f, "every", cl)
		} else {
			e.writeCase(f, "sample", cl)
		}
	}
	for k := 0; k < nsample; k++ {
		f := rSpec(r, 30, r.Chance(60))
		if r.Chance(20) { // a large packet / large option
			big := item{kind: 'P', ts: rTime(r), data: rbytes(r, r.Pick([]int{1500, 9000, 65535, 70000})), opts: rOpts(r, true)}
			big.plen = len(big.data)
			if r.Chance(30) {
				big.opts.comments = append(big.opts.comments, rbytes(r, r.Pick([]int{1023, 1024, 1025, 65535})))
			}
			f.items = append(f.items, big)
		}
		e.writeCase(f, "sample", []string{cfgs[r.Intn(len(cfgs))]})
	}

	// ---- hand-built block sequences, both byte orders, plus their mutations
	nblocks, nmut := 150*scale, 12*scale
	if mode == "c14" {
		nblocks, nmut = 40*scale, 3*scale
	}
	for k := 0; k < nblocks; k++ {
		o := leOrder
		if r.Chance(40) {
			o = beOrder
		}
		b := rBlocks(r, o)
		e.hexCase(b, false, r.Chance(30))
		if r.Chance(20) { // cut somewhere
			e.hexOps(b[:r.Intn(len(b)+1)], false, false)
		}
	}
	for k := 0; k < nmut; k++ {
		// mutate a file produced by the real writer (LE), its big-endian twin, and a hand-built one
		f := rSpec(r, 4, true)
		if len(f.items) == 0 || r.Chance(50) {
			f.items = append(f.items, item{kind: 'P', ts: rTime(r), plen: 5, data: []byte{1, 2, 3, 4, 5}, opts: rOpts(r, true)})
		}
		w, err := writeReal(f)
		if err != nil {
			continue
		}
		limit := 0
		if !thorough {
			limit = 160
		}
		switch k % 3 {
		case 0:
			e.mutations(w.file, leOrder, limit)
		case 1:
			be := toBigEndian(w.file)
			e.hexCase(be, false, true)
			e.mutations(be, beOrder, limit)
		default:
			o := leOrder
			if r.Bool() {
				o = beOrder
			}
			e.mutations(rBlocks(r, o), o, limit)
		}
	}
	// ---- every option the reader parses at fixed offsets, with a value shorter than (and exactly as long as) the
	// parsed part, in both byte orders: interface description (I), enhanced packet (E), interface statistics (S)
	if mode != "c14" {
		type fixedOpt struct {
			blk  byte
			code uint16
			min  int
		}
		for _, x := range []fixedOpt{{'I', 11, 1}, {'I', 14, 8}, {'I', 9, 1}, {'E', 2, 4}, {'E', 3, 1}, {'E', 4, 8}, {'E', 5, 8},
			{'E', 6, 4}, {'E', 7, 1}, {'S', 2, 8}, {'S', 3, 8}, {'S', 4, 8}, {'S', 5, 8}} {
			for _, o := range []order{leOrder, beOrder} {
				seen := map[int]bool{}
				for _, l := range []int{0, 1, x.min - 1, x.min} {
					if l < 0 || seen[l] {
						continue
					}
					seen[l] = true
					opt := bOpts(o, bOpt(o, x.code, bytes.Repeat([]byte{0x09}, l)))
					var f []byte
					switch x.blk {
					case 'I':
						f = cat(bSHB(o, nil), bIDB(o, 1, 0, opt), bEPB(o, 0, 1, 1, 1, []byte{7}, nil))
					case 'E':
						f = cat(bSHB(o, nil), bIDB(o, 1, 0, nil), bEPB(o, 0, 1, 1, 1, []byte{7}, opt))
					default:
						f = cat(bSHB(o, nil), bIDB(o, 1, 0, nil), bISB(o, 0, 1, opt), bEPB(o, 0, 1, 1, 1, []byte{7}, nil))
					}
					e.hexCase(f, false, true)
				}
			}
		}
	}
	// ---- garbage
	for k := 0; k < 6*scale; k++ {
		e.garbage(40)
	}
	_ = strconv.Itoa
}
