package main

// Generators for engine `asm`.  Every random choice comes from the *lib.Rand passed in.

import (
	"fmt"

	"verif/harness/lib"
)

type gseg struct {
	conn, dir int
	seq       uint32
	flags     int
	data      []byte
}

func (s gseg) line(ts int) string {
	return fmt.Sprintf("asm seg %d %d %d %d %d %s", s.conn, s.dir, s.seq, s.flags, ts, lib.Hex(s.data))
}

func pickISN(r *lib.Rand, n int) uint32 {
	switch r.Intn(9) {
	case 0:
		return 0
	case 1, 2, 3: // the stream (SYN + n bytes + FIN) straddles the wrap
		return uint32((1 << 32) - 1 - uint64(r.Intn(n+2)))
	case 4:
		return 1 << 30
	case 5:
		return uint32(3*(1<<30) + int64(r.Intn(7)) - 3)
	case 6:
		return uint32((1 << 30) - 3 + uint64(r.Intn(7)))
	case 7:
		return uint32((1 << 32) - 1)
	}
	return uint32(r.U64())
}

func pickLen(r *lib.Rand, tier string) int {
	switch r.Intn(12) {
	case 0:
		return 0
	case 1, 2, 3:
		return 1 + r.Intn(8)
	case 4, 5, 6, 7:
		return 8 + r.Intn(60)
	case 8, 9:
		return 100 + r.Intn(400)
	case 10:
		return 1890 + r.Intn(30)
	}
	return 2000 + r.Intn(5000)
}

// streamSegs builds the multiset of segments of one sender stream.
func streamSegs(r *lib.Rand, conn, dir int, S []byte, isn uint32) (syn []gseg, rest []gseg) {
	n := len(S)
	at := func(off int) uint32 { return isn + 1 + uint32(off) }
	// SYN, with or without data
	m := 0
	if r.Chance(20) && n > 0 {
		m = 1 + r.Intn(min(n, 20))
	}
	syn = append(syn, gseg{conn, dir, isn, 1, S[:m]})
	// retransmitted SYNs
	if r.Chance(20) {
		k := r.Intn(3)
		switch k {
		case 0:
			rest = append(rest, gseg{conn, dir, isn, 1, S[:m]})
		case 1:
			rest = append(rest, gseg{conn, dir, isn, 1, nil})
		case 2:
			m2 := min(n, m+r.Intn(10))
			rest = append(rest, gseg{conn, dir, isn, 1, S[:m2]})
		}
	}
	// partition of S[start:]
	start := m
	if r.Chance(30) {
		start = 0
	}
	sizes := []int{1, 1, 2, 3, 5, 8, 13, 40, 100, 700, 1900, 1901, 3000, 3800, 3801, 5000}
	endKind := r.Intn(10) // 0-4 FIN on last chunk, 5-6 separate FIN, 7 RST on last, 8 separate RST, 9 none
	off := start
	for off < n {
		l := r.Pick(sizes)
		if r.Chance(50) {
			l = 1 + r.Intn(l)
		}
		if off+l > n {
			l = n - off
		}
		fl := 0
		if off+l == n {
			if endKind <= 4 {
				fl = 2
			} else if endKind == 7 {
				fl = 4
			}
		}
		rest = append(rest, gseg{conn, dir, at(off), fl, S[off : off+l]})
		off += l
	}
	if endKind == 5 || endKind == 6 || (n == start && endKind <= 4) {
		rest = append(rest, gseg{conn, dir, at(n), 2, nil})
	} else if endKind == 8 {
		rest = append(rest, gseg{conn, dir, at(n), 4, nil})
	}
	// duplicates and overlapping retransmissions with consistent data
	extra := 0
	if r.Chance(60) {
		extra = 1 + r.Intn(4)
	}
	for i := 0; i < extra && n > 0; i++ {
		if r.Bool() && len(rest) > 0 {
			d := rest[r.Intn(len(rest))]
			d.flags &^= 1
			if r.Chance(50) {
				d.flags = 0
			}
			rest = append(rest, d)
		} else {
			a := r.Intn(n)
			b := a + 1 + r.Intn(min(n-a, 2500))
			fl := 0
			if b == n && r.Chance(30) {
				fl = 2
			}
			rest = append(rest, gseg{conn, dir, at(a), fl, S[a:b]})
		}
	}
	return
}

func shuffle(r *lib.Rand, xs []gseg) {
	for i := len(xs) - 1; i > 0; i-- {
		j := r.Intn(i + 1)
		xs[i], xs[j] = xs[j], xs[i]
	}
}

// order arranges the segments of one stream.
func order(r *lib.Rand, syn, rest []gseg) []gseg {
	switch r.Intn(10) {
	case 0, 1: // in order
	case 2, 3, 4: // local swaps
		for i := 0; i+1 < len(rest); i++ {
			if r.Chance(35) {
				rest[i], rest[i+1] = rest[i+1], rest[i]
			}
		}
	case 5, 6, 7: // any order
		shuffle(r, rest)
	case 8: // reversed
		for i, j := 0, len(rest)-1; i < j; i, j = i+1, j-1 {
			rest[i], rest[j] = rest[j], rest[i]
		}
	case 9: // bursts moved back
		if len(rest) > 2 {
			k := 1 + r.Intn(len(rest)-1)
			rest = append(append([]gseg{}, rest[k:]...), rest[:k]...)
		}
	}
	out := []gseg{}
	switch r.Intn(10) {
	case 0: // SYN never seen
		out = rest
	case 1, 2: // SYN arrives late
		k := r.Intn(len(rest) + 1)
		out = append(out, rest[:k]...)
		out = append(out, syn...)
		out = append(out, rest[k:]...)
	default:
		out = append(append(out, syn...), rest...)
	}
	return out
}

var limitChoices = []int{0, 0, 0, 0, 1, 2, 3, 10}

// genStreams: several connections with declared streams, interleaved, with flushes and limits.
func genStreams(r *lib.Rand, tier string, emit func(string)) {
	emit("reset")
	nconn := []int{1, 1, 1, 2, 2, 3, 5}[r.Intn(7)]
	per, tot := r.Pick(limitChoices), r.Pick(limitChoices)
	if r.Chance(50) {
		emit(fmt.Sprintf("asm opt %d %d", per, tot))
	} else {
		per, tot = 0, 0
	}
	queues := make([][]gseg, 0, nconn)
	cbase := r.Intn(8)
	for c := 0; c < nconn; c++ {
		conn, dir := (cbase+c)%8, r.Intn(2)
		n := pickLen(r, tier)
		S := r.Bytes(n)
		if r.Chance(10) {
			for i := range S { // highly repetitive stream: positions are ambiguous for the oracle
				S[i] = byte(i % 3)
			}
		}
		isn := pickISN(r, n)
		emit(fmt.Sprintf("asm stream %d %d %d %s", conn, dir, isn, lib.Hex(S)))
		syn, rest := streamSegs(r, conn, dir, S, isn)
		queues = append(queues, order(r, syn, rest))
	}
	now := r.Intn(5)
	monotone := r.Chance(80)
	flushP := r.Pick([]int{0, 0, 5, 15, 40})
	for {
		alive := []int{}
		for i, q := range queues {
			if len(q) > 0 {
				alive = append(alive, i)
			}
		}
		if len(alive) == 0 {
			break
		}
		i := alive[r.Intn(len(alive))]
		s := queues[i][0]
		queues[i] = queues[i][1:]
		t := now
		if !monotone {
			t = r.Intn(now + 3)
		}
		emit(s.line(t))
		now += r.Intn(3)
		if r.Chance(flushP) {
			switch r.Intn(6) {
			case 0, 1, 2:
				emit(fmt.Sprintf("asm flusholder %d", max(0, now-r.Intn(6)+1)))
			case 3, 4:
				emit(fmt.Sprintf("asm flush %d %d", max(0, now-r.Intn(6)+1), r.Intn(2)))
			case 5:
				if r.Chance(20) {
					emit("asm flushall")
				} else if r.Chance(20) {
					emit(fmt.Sprintf("asm opt %d %d", r.Pick(limitChoices), r.Pick(limitChoices)))
				}
			}
		}
	}
	if r.Chance(30) {
		emit(fmt.Sprintf("asm flusholder %d", now+1+r.Intn(3)))
	}
	emit("asm flushall")
}

// genLimit: runs of (multi-page) out-of-order packets against page limits (C11 limit bound).
func genLimit(r *lib.Rand, tier string, emit func(string)) {
	emit("reset")
	per, tot := r.Pick([]int{0, 1, 2, 3, 10}), r.Pick([]int{0, 0, 1, 2, 3, 10})
	if per == 0 && tot == 0 {
		per = 10
	}
	emit(fmt.Sprintf("asm opt %d %d", per, tot))
	nconn := 1 + r.Intn(3)
	now := 0
	base := make([]uint32, nconn)
	for c := 0; c < nconn; c++ {
		base[c] = pickISN(r, 100000)
		if r.Chance(70) {
			emit(fmt.Sprintf("asm seg %d 0 %d 1 %d -", c, base[c], now))
		}
	}
	npk := 5 + r.Intn(30)
	for i := 0; i < npk; i++ {
		c := r.Intn(nconn)
		pages := r.Pick([]int{1, 1, 1, 2, 3, 3, 4})
		l := (pages-1)*pageBytes + 1 + r.Intn(pageBytes)
		off := uint32(10 + r.Intn(200000))
		emit(fmt.Sprintf("asm seg %d 0 %d 0 %d %s", c, base[c]+1+off, now, lib.Hex(r.Bytes(l))))
		now += r.Intn(2)
		if r.Chance(5) {
			emit(fmt.Sprintf("asm flusholder %d", now))
		}
	}
	emit("asm flushall")
}

// genWild: arbitrary (inconsistent) segments: random flags, clustered sequence numbers, data that does
// not agree between retransmissions.  Only lifecycle/accounting monitors and the correspondence apply.
func genWild(r *lib.Rand, tier string, emit func(string)) {
	emit("reset")
	if r.Chance(50) {
		emit(fmt.Sprintf("asm opt %d %d", r.Pick(limitChoices), r.Pick(limitChoices)))
	}
	nconn := 1 + r.Intn(3)
	centre := make([]uint32, nconn)
	for i := range centre {
		centre[i] = pickISN(r, 50)
	}
	n := 3 + r.Intn(25)
	now := 0
	for i := 0; i < n; i++ {
		c := r.Intn(nconn)
		seq := centre[c] + uint32(r.Intn(60)) - 20
		if r.Chance(5) {
			seq = uint32(r.U64())
		}
		fl := []int{0, 0, 0, 0, 0, 1, 1, 2, 4, 3, 5, 6, 7}[r.Intn(13)]
		l := []int{0, 1, 2, 3, 5, 10, 30, 2000, 4000}[r.Intn(9)]
		emit(fmt.Sprintf("asm seg %d %d %d %d %d %s", c, r.Intn(8)/7, seq, fl, r.Intn(now+2), lib.Hex(r.Bytes(l))))
		now += r.Intn(3)
		if r.Chance(12) {
			switch r.Intn(4) {
			case 0:
				emit(fmt.Sprintf("asm flusholder %d", r.Intn(now+2)))
			case 1:
				emit(fmt.Sprintf("asm flush %d %d", r.Intn(now+2), r.Intn(2)))
			case 2:
				emit("asm flushall")
			case 3:
				emit(fmt.Sprintf("asm opt %d %d", r.Pick(limitChoices)-r.Intn(2), r.Pick(limitChoices)))
			}
		}
	}
	emit("asm flushall")
}

// genSmallScope: every sequence of `depth` operations over a small alphabet on one connection whose
// 3-byte stream straddles the 2^32 wrap.
func genSmallScope(depth int, emit func(string)) {
	S := []byte("abc")
	isn := uint32(1<<32 - 2) // SYN at 2^32-2, 'a' at 2^32-1, 'b' at 0, 'c' at 1, FIN at 2
	at := func(off int) uint32 { return isn + 1 + uint32(off) }
	type sym struct {
		flush bool
		s     gseg
	}
	alpha := []sym{
		{s: gseg{0, 0, isn, 1, nil}},
		{s: gseg{0, 0, at(0), 0, S[0:1]}},
		{s: gseg{0, 0, at(1), 0, S[1:2]}},
		{s: gseg{0, 0, at(2), 0, S[2:3]}},
		{s: gseg{0, 0, at(0), 0, S[0:2]}},
		{s: gseg{0, 0, at(1), 2, S[1:3]}},
		{s: gseg{0, 0, at(3), 2, nil}},
		{s: gseg{0, 0, isn, 1, S[0:2]}},
		{flush: true},
	}
	idx := make([]int, depth)
	for {
		for _, lim := range [][2]int{{0, 0}, {1, 0}, {2, 0}, {0, 2}} {
			emit("reset")
			emit(fmt.Sprintf("asm stream 0 0 %d %s", isn, lib.Hex(S)))
			if lim != [2]int{0, 0} {
				emit(fmt.Sprintf("asm opt %d %d", lim[0], lim[1]))
			}
			for t, k := range idx {
				if alpha[k].flush {
					emit(fmt.Sprintf("asm flusholder %d", t))
				} else {
					emit(alpha[k].s.line(t))
				}
			}
			emit("asm flushall")
		}
		i := depth - 1
		for i >= 0 {
			idx[i]++
			if idx[i] < len(alpha) {
				break
			}
			idx[i] = 0
			i--
		}
		if i < 0 {
			break
		}
	}
}

func gen(r *lib.Rand, tier string, emit func(string)) {
	depth, nStreams, nLimit, nWild := 4, 2500, 300, 600
	if tier == "thorough" {
		depth, nStreams, nLimit, nWild = 5, 40000, 4000, 8000
	}
	genSmallScope(depth, emit)
	for i := 0; i < nStreams; i++ {
		genStreams(r.Fork(), tier, emit)
	}
	for i := 0; i < nLimit; i++ {
		genLimit(r.Fork(), tier, emit)
	}
	for i := 0; i < nWild; i++ {
		genWild(r.Fork(), tier, emit)
	}
	// malformed operations: both sides must answer bad-op
	emit("reset")
	for _, l := range []string{"asm", "asm seg", "asm seg 0 0 5 0 0 zz", "asm seg 0 2 5 0 0 -", "asm seg 64 0 5 0 0 -", "asm seg 0 0 4294967296 0 0 -",
		"asm seg 0 0 5 8 0 -", "asm seg 0 0 5 0 -1 -", "asm opt x 1", "asm opt 1", "asm flush 1", "asm flush 1 2", "asm flusholder", "asm flusholder -3", "asm flushall 1", "asm bogus", "sbuf clear",
		"asm stream 0 0 5", "asm stream 0 0 4294967296 -", "asm stream 0 0 5 0g"} {
		emit(l)
	}
}

func max(a, b int) int {
	if a > b {
		return a
	}
	return b
}
