// gp-asm: correspondence adapter for engine `asm` (C10, classic half of C11):
// drives the real tcpassembly.Assembler / StreamPool (tcpassembly/assembly.go).
//
//	asm stream <conn> <dir> <isn> <hexS>      declares the sender stream of a connection (oracle input only)
//	asm opt <perconn> <total>
//	asm seg <conn> <dir> <seq> <flags> <ts> <hex>      flags: 1 SYN, 2 FIN, 4 RST
//	asm flush <ts> <closeall> | asm flusholder <ts> | asm flushall
//
// reply: ok {N<key>.<sid> | R<key>.<sid>[hex,skip,flags;…] | C<key>.<sid>}* [f=<flushed> c=<closed>] u=<used> n=<conns> p=<key:counter/linked,…>
package main

import (
	"bytes"
	"fmt"
	"os"
	"runtime/pprof"
	"sort"
	"strings"
	"time"

	"github.com/gopacket/gopacket"
	"github.com/gopacket/gopacket/layers"
	"github.com/gopacket/gopacket/tcpassembly"
	"verif/harness/lib"
)

const pageBytes = 1900 // only used by the oracles to count the pages of a packet

// ---------------------------------------------------------------- real code plumbing

type item struct {
	b     []byte
	skip  int
	start bool
	end   bool
	seen  int
}

type event struct {
	kind  byte // 'N', 'R', 'C'
	key   int
	sid   int
	items []item
}

type stream struct{ key, sid int }

func (s *stream) Reassembled(rs []tcpassembly.Reassembly) {
	ev := event{kind: 'R', key: s.key, sid: s.sid}
	for _, r := range rs {
		ev.items = append(ev.items, item{append([]byte(nil), r.Bytes...), r.Skip, r.Start, r.End, int(r.Seen.Unix() - tsBase)})
	}
	events = append(events, ev)
}
func (s *stream) ReassemblyComplete() {
	events = append(events, event{kind: 'C', key: s.key, sid: s.sid})
}

type factory struct{}

func (factory) New(n, t gopacket.Flow) tcpassembly.Stream {
	k, ok := keyOf[[2]gopacket.Flow{n, t}]
	if !ok {
		k = -1
	}
	s := &stream{k, nextSid}
	nextSid++
	events = append(events, event{kind: 'N', key: k, sid: s.sid})
	return s
}

const tsBase = 1000000

var (
	pool    *tcpassembly.StreamPool
	asm     *tcpassembly.Assembler
	events  []event
	nextSid int
	keyOf   map[[2]gopacket.Flow]int
	flowsOf map[int][2]gopacket.Flow
	dead    bool
	maxPer  int
	maxTot  int
	optOps  int // number of opt operations after the first segment (limit monitors need fixed limits)
	segSeen bool
	sinceFresh int
	orc     map[int]*oracle
)

// reset starts a new case.  Allocating an Assembler costs several milliseconds (its page cache is
// 1024 pages of 1900 bytes), so the previous one is kept when the verif hooks show that it is
// completely empty again (no connection, no page in use) and it neither panicked nor hung; it is
// replaced unconditionally every 200 cases.  With connection.reset clearing every field
// (fix asm-3) an empty assembler carries no observable state from one case to the next.
func reset() {
	reuse := false
	if asm != nil && !dead && sinceFresh < 200 {
		events = events[:0]
		if !guarded(func() {
			defer func() { recover() }()
			asm.FlushAll()
		}) && pool.VerifConnCount() == 0 && asm.VerifPagesUsed() == 0 {
			reuse = true
		}
	}
	if reuse {
		sinceFresh++
		asm.MaxBufferedPagesPerConnection, asm.MaxBufferedPagesTotal = 0, 0
	} else {
		sinceFresh = 0
		pool = tcpassembly.NewStreamPool(factory{})
		asm = tcpassembly.NewAssembler(pool)
	}
	events = nil
	nextSid = 0
	keyOf = map[[2]gopacket.Flow]int{}
	flowsOf = map[int][2]gopacket.Flow{}
	dead = false
	maxPer, maxTot, optOps, segSeen = 0, 0, 0, false
	orc = map[int]*oracle{}
	completeCount = map[int]int{}
	createdCount = 0
}

func flowsFor(conn, dir int) (gopacket.Flow, gopacket.Flow, layers.TCPPort, layers.TCPPort) {
	src := layers.NewIPEndpoint([]byte{10, 0, byte(conn >> 8), byte(conn)})
	dst := layers.NewIPEndpoint([]byte{10, 1, byte(conn >> 8), byte(conn)})
	sp, dp := layers.TCPPort(1000+conn), layers.TCPPort(80)
	if dir == 1 {
		src, dst = dst, src
		sp, dp = dp, sp
	}
	nf, _ := gopacket.FlowFromEndpoints(src, dst)
	tf, _ := gopacket.FlowFromEndpoints(layers.NewTCPPortEndpoint(sp), layers.NewTCPPortEndpoint(dp))
	return nf, tf, sp, dp
}

func ts(t int) time.Time { return time.Unix(tsBase+int64(t), 0) }

// guarded runs f with a watchdog (a wedged assembler must not hang the check).
func guarded(f func()) (hung bool) {
	type res struct{ p interface{} }
	ch := make(chan res, 1)
	go func() {
		defer func() {
			if v := recover(); v != nil {
				ch <- res{v}
			}
		}()
		f()
		ch <- res{nil}
	}()
	select {
	case r := <-ch:
		if r.p != nil {
			panic(r.p)
		}
		return false
	case <-time.After(20 * time.Second):
		return true
	}
}

func mergeItems(in []item) []item {
	var out []item
	for _, r := range in {
		if n := len(out); n > 0 && r.skip == 0 && !r.start && !out[n-1].end {
			out[n-1].b = append(out[n-1].b, r.b...)
			out[n-1].end = r.end
			continue
		}
		out = append(out, item{append([]byte(nil), r.b...), r.skip, r.start, r.end, r.seen})
	}
	return out
}

func showEvents() []string {
	// group by key (stable), keys ascending: callbacks of different connections are independent
	// and Flush* visits the Go map in random order.
	sort.SliceStable(events, func(i, j int) bool { return events[i].key < events[j].key })
	var out []string
	for _, e := range events {
		switch e.kind {
		case 'N':
			out = append(out, fmt.Sprintf("N%d.%d", e.key, e.sid))
		case 'C':
			out = append(out, fmt.Sprintf("C%d.%d", e.key, e.sid))
		case 'R':
			var parts []string
			for _, it := range mergeItems(e.items) {
				fl := ""
				if it.start {
					fl += "S"
				}
				if it.end {
					fl += "E"
				}
				parts = append(parts, fmt.Sprintf("%s,%d,%s", lib.Hex(it.b), it.skip, fl))
			}
			out = append(out, fmt.Sprintf("R%d.%d[%s]", e.key, e.sid, strings.Join(parts, ";")))
		}
	}
	return out
}

func liveKeys() []int {
	var ks []int
	for k := range flowsOf {
		ks = append(ks, k)
	}
	sort.Ints(ks)
	return ks
}

func showPool() []string {
	used := asm.VerifPagesUsed()
	var ps []string
	sum := 0
	for _, k := range liveKeys() {
		f := flowsOf[k]
		c, l, ok := pool.VerifConnPagesOf(f[0], f[1])
		if ok {
			ps = append(ps, fmt.Sprintf("%d:%d/%d", k, c, l))
			sum += l
			if c != l {
				lib.Finding("C11", "asm:pages:counter-vs-list", fmt.Sprintf("connection %d: pages counter %d but %d pages linked", k, c, l))
			}
		}
	}
	if sum != used {
		lib.Finding("C11", "asm:pages:accounting", fmt.Sprintf("pages in use %d but live connections hold %d", used, sum))
	}
	return []string{fmt.Sprintf("u=%d", used), fmt.Sprintf("n=%d", pool.VerifConnCount()), "p=" + strings.Join(ps, ",")}
}

func exec(a []string) string {
	if len(a) < 2 || a[0] != "asm" {
		return "bad-op"
	}
	switch a[1] {
	case "stream":
		if len(a) != 6 {
			return "bad-op"
		}
		c, ok1 := lib.Atou(a[2])
		d, ok2 := lib.Atou(a[3])
		isn, ok3 := lib.Atou(a[4])
		s, ok4 := lib.UnHex(a[5])
		if !ok1 || !ok2 || !ok3 || !ok4 || c >= 64 || d >= 2 || isn >= 1<<32 {
			return "bad-op"
		}
		declare(int(2*c+d), uint32(isn), s)
		return "ok"
	}
	if dead {
		// must mirror the model driver: parse errors first
		if !parses(a) {
			return "bad-op"
		}
		return "dead"
	}
	switch a[1] {
	case "opt":
		if len(a) != 4 {
			return "bad-op"
		}
		p, ok1 := lib.Atoi(a[2])
		q, ok2 := lib.Atoi(a[3])
		if !ok1 || !ok2 {
			return "bad-op"
		}
		asm.MaxBufferedPagesPerConnection, asm.MaxBufferedPagesTotal = p, q
		maxPer, maxTot = p, q
		if segSeen {
			optOps++
		}
		events = events[:0]
		return strings.Join(append([]string{"ok"}, showPool()...), " ")
	case "seg":
		if len(a) != 8 {
			return "bad-op"
		}
		c, ok1 := lib.Atou(a[2])
		d, ok2 := lib.Atou(a[3])
		q, ok3 := lib.Atou(a[4])
		f, ok4 := lib.Atou(a[5])
		t, ok5 := lib.Atou(a[6])
		data, ok6 := lib.UnHex(a[7])
		if !ok1 || !ok2 || !ok3 || !ok4 || !ok5 || !ok6 || c >= 64 || d >= 2 || q >= 1<<32 || f >= 8 || t >= 1000000000 {
			return "bad-op"
		}
		segSeen = true
		key := int(2*c + d)
		nf, tf, sp, dp := flowsFor(int(c), int(d))
		keyOf[[2]gopacket.Flow{nf, tf}] = key
		flowsOf[key] = [2]gopacket.Flow{nf, tf}
		tcp := &layers.TCP{SrcPort: sp, DstPort: dp, Seq: uint32(q), SYN: f&1 != 0, FIN: f&2 != 0, RST: f&4 != 0}
		tcp.Payload = data
		tcp.SetInternalPortsForTesting()
		events = events[:0]
		pre := preSeg(key, uint32(q), int(f), int(t), data)
		if guarded(func() { asm.AssembleWithTimestamp(nf, tcp, ts(int(t))) }) {
			dead = true
			lib.Finding("C11", "asm:hang:assemble", "AssembleWithTimestamp did not return")
			return "hang"
		}
		postSeg(pre)
		return strings.Join(append(append([]string{"ok"}, showEvents()...), showPool()...), " ")
	case "flush", "flusholder":
		var t uint64
		var ok1, ok2 bool
		ca := uint64(1)
		if a[1] == "flush" {
			if len(a) != 4 {
				return "bad-op"
			}
			t, ok1 = lib.Atou(a[2])
			ca, ok2 = lib.Atou(a[3])
		} else {
			if len(a) != 3 {
				return "bad-op"
			}
			t, ok1 = lib.Atou(a[2])
			ok2 = true
		}
		if !ok1 || !ok2 || t >= 1000000000 || ca >= 2 {
			return "bad-op"
		}
		events = events[:0]
		var fl, cl int
		if guarded(func() {
			if a[1] == "flusholder" {
				fl, cl = asm.FlushOlderThan(ts(int(t)))
			} else {
				fl, cl = asm.FlushWithOptions(tcpassembly.FlushOptions{T: ts(int(t)), CloseAll: ca == 1})
			}
		}) {
			dead = true
			lib.Finding("C11", "asm:hang:flush", "FlushWithOptions did not return")
			return "hang"
		}
		postFlush(int(t), ca == 1, false, fl, cl)
		return strings.Join(append(append(append([]string{"ok"}, showEvents()...), fmt.Sprintf("f=%d c=%d", fl, cl)), showPool()...), " ")
	case "flushall":
		if len(a) != 2 {
			return "bad-op"
		}
		events = events[:0]
		before := pool.VerifConnCount()
		var cl int
		if guarded(func() { cl = asm.FlushAll() }) {
			dead = true
			lib.Finding("C11", "asm:hang:flushall", "FlushAll did not return")
			return "hang"
		}
		if cl != before {
			lib.Finding("C11", "asm:flushall:return", fmt.Sprintf("FlushAll returned %d with %d live connections", cl, before))
		}
		postFlush(0, true, true, 0, cl)
		return strings.Join(append(append(append([]string{"ok"}, showEvents()...), fmt.Sprintf("f=0 c=%d", cl)), showPool()...), " ")
	}
	return "bad-op"
}

// parses mirrors the syntactic checks of exec (used once the assembler is dead after a panic).
func parses(a []string) bool {
	num := func(s string, lim uint64) bool { v, ok := lib.Atou(s); return ok && v < lim }
	switch a[1] {
	case "opt":
		if len(a) != 4 {
			return false
		}
		_, ok1 := lib.Atoi(a[2])
		_, ok2 := lib.Atoi(a[3])
		return ok1 && ok2
	case "seg":
		if len(a) != 8 {
			return false
		}
		_, ok := lib.UnHex(a[7])
		return ok && num(a[2], 64) && num(a[3], 2) && num(a[4], 1<<32) && num(a[5], 8) && num(a[6], 1000000000)
	case "flush":
		return len(a) == 4 && num(a[2], 1000000000) && num(a[3], 2)
	case "flusholder":
		return len(a) == 3 && num(a[2], 1000000000)
	case "flushall":
		return len(a) == 2
	}
	return false
}

func runExec(a []string) string {
	reply, panicked := lib.Protect(func() string { return exec(a) })
	if panicked {
		dead = true
		lib.Stat("panic:" + lib.LastPanicSite)
		if lib.LastPanicMsg == "wtf" {
			lib.Finding("C10", "asm:panic:wtf", "panic(\"wtf\") in insertIntoConn reached")
		} else {
			lib.Finding("C10", "asm:panic:"+lib.LastPanicSite, "assembler panicked: "+lib.LastPanicMsg)
		}
	}
	return reply
}

func main() {
	if p := os.Getenv("GPASM_PROF"); p != "" {
		f, _ := os.Create(p)
		pprof.StartCPUProfile(f)
		defer pprof.StopCPUProfile()
	}
	lib.Main(lib.Engine{Name: "asm", Gen: gen, Reset: reset, Exec: runExec})
}

// keep the linker honest about unused imports in partial builds
var _ = bytes.Equal
