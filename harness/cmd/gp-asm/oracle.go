package main

// Implementation-side property oracles (monitors) for C10 and the classic half of C11.
// They are written independently of the assembler's data structures: the only inputs are the
// declared sender stream, the segments fed in, the callbacks observed and the verif hook counters.

import (
	"bytes"
	"fmt"

	"verif/harness/lib"
)

type arrival struct{ off, n, ts int }

// oracle is the independent view of one connection key.
type oracle struct {
	declared   bool
	S          []byte
	isn        uint32
	consistent bool // every segment so far is a slice of S at the position its sequence number says

	// current stream instance
	live      bool
	sid       int
	started   bool         // an item with Start was delivered
	delivered bool         // at least one item was delivered
	cand      map[int]bool // candidate positions (bytes of S accounted for); nil = nothing known yet
	arrived   []bool       // bytes of S that arrived during this instance
	segs      []arrival    // data segments that arrived during this instance
	synSeen   bool
}

var (
	completeCount = map[int]int{} // sid -> number of ReassemblyComplete calls
	createdCount  int
)

func declare(key int, isn uint32, s []byte) {
	orc[key] = &oracle{declared: true, S: s, isn: isn, consistent: true}
}

func getOrc(key int) *oracle {
	o := orc[key]
	if o == nil {
		o = &oracle{}
		orc[key] = o
	}
	return o
}

type preState struct {
	key, flags, t  int
	off, n         int
	hasOff         bool
	usedBefore     int
	pagesBefore    int
	limitReachable bool
	pktPages       int
	data           []byte
}

// preSeg classifies the segment against the declared stream and snapshots the counters.
func preSeg(key int, seq uint32, flags, t int, data []byte) preState {
	o := getOrc(key)
	p := preState{key: key, flags: flags, t: t, n: len(data), data: data}
	p.pktPages = (len(data) + pageBytes - 1) / pageBytes
	if p.pktPages == 0 {
		p.pktPages = 1
	}
	p.usedBefore = asm.VerifPagesUsed()
	if f, ok := flowsOf[key]; ok {
		c, _, _ := pool.VerifConnPagesOf(f[0], f[1])
		p.pagesBefore = c
	}
	p.limitReachable = (maxPer > 0 && p.pagesBefore+p.pktPages >= maxPer) || (maxTot > 0 && p.usedBefore+p.pktPages >= maxTot)
	if len(data) > pageBytes {
		lib.Stat("seg:multi-page")
	}
	if o.declared && o.consistent {
		syn := flags&1 != 0
		end := flags&6 != 0
		var off uint32
		if syn {
			off = seq - o.isn // must be 0
		} else {
			off = seq - o.isn - 1
		}
		ok := int64(off)+int64(len(data)) <= int64(len(o.S)) && (!syn || off == 0)
		if ok && !bytes.Equal(data, o.S[int(off):int(off)+len(data)]) {
			ok = false
		}
		if ok && end && int(off)+len(data) != len(o.S) {
			ok = false
		}
		if !ok {
			o.consistent = false
			lib.Stat("stream:inconsistent-segment")
		} else {
			p.off, p.hasOff = int(off), true
			if uint64(o.isn)+uint64(len(o.S))+1 >= 1<<32 {
				lib.Stat("stream:crosses-wrap")
			}
		}
	}
	return p
}

func (o *oracle) newInstance(sid int) {
	o.live, o.sid = true, sid
	o.started, o.delivered, o.cand, o.synSeen = false, false, nil, false
	o.arrived = make([]bool, len(o.S))
	o.segs = nil
}

func (o *oracle) pos() (int, bool) {
	if len(o.cand) != 1 {
		return 0, false
	}
	for p := range o.cand {
		return p, true
	}
	return 0, false
}

// checkItems replays delivered items against S (C10).  ctx: "seg", "limit", "flush".
func (o *oracle) checkItems(key int, its []item, mayForce bool, ctx string) {
	useS := o.declared && o.consistent
	for i, it := range its {
		if it.skip != 0 {
			if it.skip == -1 {
				lib.Stat("skip:unknown")
			} else {
				lib.Stat("skip:count")
			}
			if !mayForce {
				lib.Finding("C10", "asm:gap:"+ctx+":no-flush-no-limit", fmt.Sprintf("key %d: skip %d emitted by a step that neither flushes nor hits a page limit", key, it.skip))
			}
		}
		if it.skip < -1 {
			lib.Finding("C10", "asm:gap:negative", fmt.Sprintf("key %d: skip %d", key, it.skip))
		}
		if it.skip == -1 && (o.delivered || i > 0) {
			lib.Finding("C10", "asm:gap:unknown-after-data", fmt.Sprintf("key %d: skip -1 although the stream already received data", key))
		}
		if it.start && (o.delivered || i > 0) {
			lib.Finding("C10", "asm:sound:start-not-first", fmt.Sprintf("key %d: Start set on an item that is not the first of the stream", key))
		}
		if useS {
			switch {
			case it.start:
				if it.skip != 0 || len(it.b) > len(o.S) || !bytes.Equal(it.b, o.S[:len(it.b)]) {
					lib.Finding("C10", "asm:sound:start", fmt.Sprintf("key %d: start item %s skip %d is not a prefix of the stream", key, lib.Hex(it.b), it.skip))
					o.consistent = false
				} else {
					o.cand = map[int]bool{len(it.b): true}
				}
			case o.cand == nil:
				// nothing delivered yet and no start: position unknown; any slice of S is acceptable
				if it.skip != -1 {
					lib.Finding("C10", "asm:gap:first-without-start", fmt.Sprintf("key %d: first item of a stream whose start was not seen has skip %d (want -1)", key, it.skip))
				}
				c := map[int]bool{}
				for q := 0; q+len(it.b) <= len(o.S); q++ {
					if bytes.Equal(it.b, o.S[q:q+len(it.b)]) {
						c[q+len(it.b)] = true
					}
				}
				if len(c) == 0 {
					lib.Finding("C10", "asm:sound:data", fmt.Sprintf("key %d: delivered %s is not a slice of the stream", key, lib.Hex(it.b)))
					o.consistent = false
				}
				o.cand = c
			default:
				sk := it.skip
				if sk < 0 {
					sk = 0
				}
				c := map[int]bool{}
				for p := range o.cand {
					q := p + sk
					if q+len(it.b) <= len(o.S) && bytes.Equal(it.b, o.S[q:q+len(it.b)]) {
						c[q+len(it.b)] = true
					}
				}
				if len(c) == 0 {
					kind := "data"
					if pp, ok := o.pos(); ok {
						// classify: duplicated (already delivered) bytes?
						for back := 1; back <= pp; back++ {
							q := pp - back
							if q+len(it.b) <= len(o.S) && len(it.b) > 0 && bytes.Equal(it.b, o.S[q:q+len(it.b)]) {
								kind = "dup"
								break
							}
						}
						lib.Finding("C10", "asm:sound:"+kind, fmt.Sprintf("key %d: at stream position %d skip %d delivered %s, stream has %s", key, pp, it.skip, lib.Hex(it.b), lib.Hex(o.S[min(pp+sk, len(o.S)):min(pp+sk+len(it.b), len(o.S))])))
					} else {
						lib.Finding("C10", "asm:sound:"+kind, fmt.Sprintf("key %d: delivered %s (skip %d) does not continue the stream", key, lib.Hex(it.b), it.skip))
					}
					o.consistent = false
				} else if it.skip > 0 {
					if pp, ok := o.pos(); ok {
						for q := pp; q < pp+it.skip && q < len(o.arrived); q++ {
							if o.arrived[q] {
								lib.Finding("C10", "asm:gap:skips-arrived-data", fmt.Sprintf("key %d: skip %d at position %d passes over byte %d which had arrived", key, it.skip, pp, q))
								break
							}
						}
					}
				}
				o.cand = c
			}
			useS = o.consistent
		}
		if it.start {
			o.started = true
		}
		o.delivered = true
	}
}

// processEvents walks the callbacks of the last operation in order (C11: exactly once, no data
// after completion; C10: replay of the delivered items).  afterNew runs right after a New event.
func processEvents(ctx string, mayForce bool, afterNew func(key int)) {
	for _, e := range events {
		o := getOrc(e.key)
		switch e.kind {
		case 'N':
			createdCount++
			if o.live {
				lib.Finding("C11", "asm:lifecycle:replaced-without-complete", fmt.Sprintf("key %d: new stream %d while stream %d never completed", e.key, e.sid, o.sid))
			}
			o.newInstance(e.sid)
			if afterNew != nil {
				afterNew(e.key)
			}
		case 'R':
			if completeCount[e.sid] > 0 {
				lib.Finding("C11", "asm:lifecycle:data-after-complete", fmt.Sprintf("stream %d received data after ReassemblyComplete", e.sid))
			}
			if !o.live || o.sid != e.sid {
				lib.Finding("C11", "asm:lifecycle:data-to-dead-stream", fmt.Sprintf("key %d: data for stream %d which is not the live stream", e.key, e.sid))
				continue
			}
			if len(e.items) == 0 {
				lib.Finding("C10", "asm:sound:empty-call", "Reassembled called with no items")
			}
			o.checkItems(e.key, e.items, mayForce, ctx)
		case 'C':
			completeCount[e.sid]++
			if completeCount[e.sid] > 1 {
				lib.Finding("C11", "asm:lifecycle:complete-twice", fmt.Sprintf("stream %d completed %d times", e.sid, completeCount[e.sid]))
			}
			if o.live && o.sid == e.sid {
				o.live = false
			} else {
				lib.Finding("C11", "asm:lifecycle:complete-of-dead-stream", fmt.Sprintf("key %d: ReassemblyComplete for stream %d which is not the live stream", e.key, e.sid))
			}
			lib.Stat("complete:" + ctx)
		}
	}
	// pool census: live connections = streams created and not completed
	live := 0
	for _, o := range orc {
		if o.live {
			live++
		}
	}
	if n := pool.VerifConnCount(); n != live {
		lib.Finding("C11", "asm:pool:conn-count", fmt.Sprintf("pool holds %d connections, %d streams are created and not completed", n, live))
	}
}

func postSeg(p preState) {
	o := getOrc(p.key)
	hadNew := false
	for _, e := range events {
		if e.key == p.key && e.kind == 'N' {
			hadNew = true
		}
	}
	// record the arrival in the stream instance that receives it (the new one if one was created)
	record := func(int) {
		if o.declared && o.consistent && p.hasOff && o.live {
			for q := p.off; q < p.off+p.n; q++ {
				o.arrived[q] = true
			}
			if p.n > 0 {
				o.segs = append(o.segs, arrival{p.off, p.n, p.t})
			}
			if p.flags&1 != 0 {
				o.synSeen = true
			}
		}
	}
	if hadNew {
		lib.Stat("seg:new-stream")
	} else {
		record(p.key)
	}
	ctx := "seg"
	if p.limitReachable {
		ctx = "limit"
		lib.Stat("seg:limit-reachable")
	}
	processEvents(ctx, p.limitReachable, record)
	nR := 0
	for _, e := range events {
		if e.kind == 'R' {
			nR++
			if len(e.items) > 1 {
				lib.Stat("seg:released-queued")
			}
		}
	}
	if nR > 1 {
		lib.Finding("C11", "asm:lifecycle:two-calls-per-assemble", "more than one Reassembled call in one Assemble")
	}
	if nR == 0 && o.live {
		lib.Stat("seg:queued-or-ignored")
	} else if nR == 1 {
		lib.Stat("seg:delivered")
	}
	// C10 completeness: after an Assemble step everything contiguous with the delivered data is delivered
	if o.declared && o.consistent && o.live && o.started {
		if pp, ok := o.pos(); ok {
			m := 0
			for m < len(o.arrived) && o.arrived[m] {
				m++
			}
			if pp < m {
				lib.Finding("C10", "asm:complete:contiguous-not-delivered", fmt.Sprintf("key %d: bytes [0,%d) arrived with the SYN but only %d delivered", p.key, m, pp))
			}
			if m == len(o.S) && len(o.S) > 1 {
				lib.Stat("stream:fully-delivered")
				lib.Nontrivial()
			}
		}
	}
	// C11 limit bound (only when the limits were fixed before the first segment)
	if optOps == 0 {
		used := asm.VerifPagesUsed()
		if maxTot > 0 && used > maxTot+p.pktPages {
			lib.Finding("C11", "asm:limit-bound:total", fmt.Sprintf("pages in use %d > MaxBufferedPagesTotal %d + %d pages of the packet", used, maxTot, p.pktPages))
		}
		if f, ok := flowsOf[p.key]; ok && maxPer > 0 {
			if c, _, live := pool.VerifConnPagesOf(f[0], f[1]); live && c > maxPer+p.pktPages {
				lib.Finding("C11", "asm:limit-bound:per-connection", fmt.Sprintf("connection holds %d pages > MaxBufferedPagesPerConnection %d + %d pages of the packet", c, maxPer, p.pktPages))
			}
		}
	}
}

// postFlush: C11 age-flush precision, flush-all emptiness; C10 items of the flush.
func postFlush(T int, closeAll, all bool, fl, cl int) {
	ctx := "flush"
	if all {
		ctx = "flushall"
	}
	// clause 2 of the age property: every call starts with a page older than T; the rest is contiguous
	if !all {
		for _, e := range events {
			if e.kind != 'R' || len(e.items) == 0 {
				continue
			}
			if e.items[0].seen >= T {
				lib.Finding("C11", "asm:age-flush:released-newer", fmt.Sprintf("key %d: flush with cut-off %d released data seen at %d", e.key, T, e.items[0].seen))
			}
			for _, it := range e.items[1:] {
				if it.skip != 0 {
					lib.Finding("C11", "asm:age-flush:released-noncontiguous", fmt.Sprintf("key %d: one flush call skipped twice", e.key))
				}
			}
		}
	}
	processEvents(ctx, true, nil)
	nC := 0
	for _, e := range events {
		if e.kind == 'C' {
			nC++
		}
	}
	if nC != cl {
		lib.Finding("C11", "asm:flush:return", fmt.Sprintf("%s returned closed=%d but %d streams were completed", ctx, cl, nC))
	}
	if all {
		if n := pool.VerifConnCount(); n != 0 {
			lib.Finding("C11", "asm:flushall:conn-left", fmt.Sprintf("%d connections in the pool after FlushAll", n))
		}
		if u := asm.VerifPagesUsed(); u != 0 {
			lib.Finding("C11", "asm:flushall:pages-left", fmt.Sprintf("%d pages in use after FlushAll", u))
		}
		for k, o := range orc {
			if o.live {
				lib.Finding("C11", "asm:flushall:stream-not-completed", fmt.Sprintf("key %d: stream %d not completed by FlushAll", k, o.sid))
			}
		}
		lib.Stat("flushall")
		return
	}
	lib.Stat("flush")
	// clause 1 of the age property: no live connection still sits on data that arrived before T.
	// A data segment [off, off+n) that arrived in this stream instance is still queued iff it lies
	// strictly beyond the delivered position (anything touching it would have been released).
	for k, o := range orc {
		if !(o.live && o.declared && o.consistent) {
			continue
		}
		pp, known := o.pos()
		if !known {
			if o.cand != nil || o.synSeen {
				continue // ambiguous position: nothing can be said
			}
			pp = -1 // nothing delivered, SYN not seen: everything that arrived is still queued
		}
		for _, s := range o.segs {
			if s.ts < T && s.off > pp {
				lib.Finding("C11", "asm:age-flush:old-data-left", fmt.Sprintf("key %d: flush with cut-off %d left queued data [%d,%d) seen at %d (delivered up to %d)", k, T, s.off, s.off+s.n, s.ts, pp))
				break
			}
		}
	}
}

func min(a, b int) int {
	if a < b {
		return a
	}
	return b
}
