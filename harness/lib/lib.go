// Package lib is the shared plumbing of the correspondence harness (DESIGN.md §2.3 C-tie).
//
// An engine binary (cmd/gp-<engine>) offers two sub-commands:
//
//	gen  --seed N --tier quick|thorough            write an ops file to stdout
//	run  [--mon FILE] [--stats FILE] < ops > out   execute the ops on the REAL gopacket code
//
// Ops file: one operation per line; a line "reset" starts a new case (both the
// implementation adapter and the Lean model forget all state); lines starting with '#'
// are comments.  Every non-comment line is answered by exactly one reply line.
// The same ops file is piped to the Lean model driver and the two reply streams are diffed.
//
// While executing, an engine may report implementation-side property findings
// (lib.Finding): these are the standing search for a failing input and the oracle used
// to classify a correspondence mismatch.
package lib

import (
	"bufio"
	"encoding/hex"
	"encoding/json"
	"flag"
	"fmt"
	"hash/fnv"
	"os"
	"runtime/debug"
	"sort"
	"strconv"
	"strings"
	"sync"
	"sync/atomic"
	"time"
)

// ---------------------------------------------------------------- PRNG (splitmix64)

type Rand struct{ s uint64 }

func NewRand(seed uint64) *Rand { return &Rand{s: seed*0x9E3779B97F4A7C15 + 0x1234567} }

func (r *Rand) U64() uint64 {
	r.s += 0x9E3779B97F4A7C15
	z := r.s
	z = (z ^ (z >> 30)) * 0xBF58476D1CE4E5B9
	z = (z ^ (z >> 27)) * 0x94D049BB133111EB
	return z ^ (z >> 31)
}
func (r *Rand) Intn(n int) int {
	if n <= 0 {
		return 0
	}
	return int(r.U64() % uint64(n))
}
func (r *Rand) Bool() bool        { return r.U64()&1 == 1 }
func (r *Rand) Chance(p int) bool { return r.Intn(100) < p } // p percent
func (r *Rand) Pick(xs []int) int { return xs[r.Intn(len(xs))] }
func (r *Rand) Bytes(n int) []byte {
	b := make([]byte, n)
	for i := range b {
		b[i] = byte(r.U64())
	}
	return b
}

// Fork derives an independent stream (so generators compose and replay exactly).
func (r *Rand) Fork() *Rand { return NewRand(r.U64()) }

// ---------------------------------------------------------------- hex helpers

func Hex(b []byte) string {
	if len(b) == 0 {
		return "-"
	}
	return hex.EncodeToString(b)
}

func UnHex(s string) ([]byte, bool) {
	if s == "-" {
		return []byte{}, true
	}
	b, err := hex.DecodeString(s)
	return b, err == nil
}

func Atoi(s string) (int, bool) {
	n, err := strconv.Atoi(s)
	return n, err == nil
}
func Atou(s string) (uint64, bool) {
	n, err := strconv.ParseUint(s, 10, 64)
	return n, err == nil
}
func Itoa(n int) string { return strconv.Itoa(n) }

// ---------------------------------------------------------------- engine plumbing

type Engine struct {
	Name  string
	Gen   func(r *Rand, tier string, emit func(line string))
	Reset func()
	// Exec executes one operation on the real code and returns the canonical reply.
	// A Go panic escaping Exec is recovered by the runner and reported as "panic <kind>".
	Exec func(args []string) string
}

type finding struct {
	Case int    `json:"case"`
	Op   int    `json:"op"`
	Prop string `json:"property"`
	Sig  string `json:"sig"`
	What string `json:"what"`
}

var (
	curCase, curOp  int
	findings        []finding
	stats           = map[string]int{}
	caseNontrivial  bool
	caseHash        = fnv.New64a()
	seenCases       = map[uint64]bool{}
	distinctNontriv int
	samples         []string
	curCaseLines    []string
	outMu           sync.Mutex
	hungLine        string
)

// Finding reports that the implementation violated property prop on the current case.
// sig must identify the failure specifically (site / theorem / input shape), it is what
// KNOWN_FINDINGS.json is matched against.
func Finding(prop, sig, what string) {
	findings = append(findings, finding{curCase, curOp, prop, sig, what})
}

// Stat counts a branch / kind reached (input-distribution evidence).
func Stat(key string) { stats[key]++ }

// Nontrivial marks the current case as non-trivial by the engine's rule.
func Nontrivial() { caseNontrivial = true }

// PanicKind canonicalises a recovered panic value.
func PanicKind(v interface{}) string {
	s := fmt.Sprint(v)
	switch {
	case strings.Contains(s, "index out of range"):
		return "index"
	case strings.Contains(s, "slice bounds out of range"):
		return "slice"
	case strings.Contains(s, "nil pointer dereference"), strings.Contains(s, "nil map"):
		return "nil"
	case strings.Contains(s, "divide by zero"):
		return "div0"
	case strings.Contains(s, "makeslice"), strings.Contains(s, "len out of range"), strings.Contains(s, "cap out of range"):
		return "make"
	default:
		return "explicit"
	}
}

// LastPanicSite is the top-most stack frame inside the gopacket module of the last
// recovered panic (file:line), for site-specific signatures.
var LastPanicSite string
var LastPanicMsg string

func panicSite(stack string) string {
	lines := strings.Split(stack, "\n")
	// the repository may live elsewhere (VERIF_REPO = a scratch worktree): normalise its root to /repo/
	if root := strings.TrimRight(os.Getenv("VERIF_REPO"), "/"); root != "" && root != "/repo" {
		for i := range lines {
			lines[i] = strings.Replace(lines[i], root+"/", "/repo/", 1)
		}
	}
	for _, l := range lines {
		l = strings.TrimSpace(l)
		if i := strings.Index(l, "/repo/"); i >= 0 || strings.Contains(l, "gopacket/") {
			if strings.HasSuffix(strings.Fields(l)[0], ".go") || strings.Contains(l, ".go:") {
				f := strings.Fields(l)[0]
				if j := strings.LastIndex(f, "gopacket/"); j >= 0 && !strings.Contains(f, "/verif/") {
					f = f[j+len("gopacket/"):]
				} else if i >= 0 {
					f = strings.Fields(l[i+len("/repo/"):])[0]
				} else {
					continue
				}
				return f
			}
		}
	}
	return "?"
}

// Protect runs f and converts a panic into ("panic <kind>", true).
func Protect(f func() string) (reply string, panicked bool) {
	defer func() {
		if v := recover(); v != nil {
			LastPanicMsg = fmt.Sprint(v)
			LastPanicSite = panicSite(string(debug.Stack()))
			reply = "panic " + PanicKind(v)
			panicked = true
		}
	}()
	return f(), false
}

func endCase() {
	if len(curCaseLines) > 0 {
		h := caseHash.Sum64()
		if caseNontrivial && !seenCases[h] {
			distinctNontriv++
			if len(samples) < 5 {
				samples = append(samples, strings.Join(curCaseLines, " ; "))
			}
		}
		seenCases[h] = true
	}
	caseNontrivial = false
	caseHash = fnv.New64a()
	curCaseLines = nil
}

func Main(e Engine) {
	if len(os.Args) < 2 {
		fmt.Fprintln(os.Stderr, "usage: gen|run")
		os.Exit(2)
	}
	switch os.Args[1] {
	case "gen":
		fs := flag.NewFlagSet("gen", flag.ExitOnError)
		seed := fs.Uint64("seed", 1, "")
		tier := fs.String("tier", "quick", "")
		fs.Parse(os.Args[2:])
		w := bufio.NewWriterSize(os.Stdout, 1<<20)
		e.Gen(NewRand(*seed), *tier, func(l string) { w.WriteString(l); w.WriteByte('\n') })
		w.Flush()
	case "run":
		fs := flag.NewFlagSet("run", flag.ExitOnError)
		mon := fs.String("mon", "", "")
		st := fs.String("stats", "", "")
		fs.Parse(os.Args[2:])
		in := bufio.NewScanner(os.Stdin)
		in.Buffer(make([]byte, 1<<20), 1<<28)
		w := bufio.NewWriterSize(os.Stdout, 1<<20)
		nops := 0
		curCase = -1
		// per-operation watchdog: an operation that does not return (the real code spins or deadlocks outside the
		// adapter's own guards) ends the run with exit code 67 after everything answered so far has been flushed, so
		// that the check can name the case being executed.
		opLimit := 180 * time.Second
		if v, err := strconv.Atoi(os.Getenv("VERIF_OP_TIMEOUT")); err == nil && v > 0 {
			opLimit = time.Duration(v) * time.Second
		}
		var opStart atomic.Int64
		go func() {
			for {
				time.Sleep(time.Second)
				if t0 := opStart.Load(); t0 != 0 && time.Since(time.Unix(0, t0)) > opLimit {
					outMu.Lock()
					w.Flush()
					fmt.Fprintf(os.Stderr, "verif: operation hung for more than %v in case %d op %d: %s\n", opLimit, curCase, curOp, hungLine)
					os.Exit(67)
				}
			}
		}()
		for in.Scan() {
			line := strings.TrimSpace(in.Text())
			if line == "" || line[0] == '#' {
				continue
			}
			args := strings.Fields(line)
			if args[0] == "reset" {
				endCase()
				curCase++
				curOp = 0
				if e.Reset != nil {
					e.Reset()
				}
				w.WriteString("ok\n")
				continue
			}
			curOp++
			nops++
			caseHash.Write([]byte(line))
			caseHash.Write([]byte{'\n'})
			if len(curCaseLines) < 40 {
				curCaseLines = append(curCaseLines, line)
			}
			hungLine = line
			opStart.Store(time.Now().UnixNano())
			reply, _ := Protect(func() string { return e.Exec(args) })
			opStart.Store(0)
			outMu.Lock()
			w.WriteString(reply)
			w.WriteByte('\n')
			outMu.Unlock()
		}
		endCase()
		w.Flush()
		if *mon != "" {
			f, _ := os.Create(*mon)
			enc := json.NewEncoder(f)
			for _, fd := range findings {
				enc.Encode(fd)
			}
			f.Close()
		}
		if *st != "" {
			keys := make([]string, 0, len(stats))
			for k := range stats {
				keys = append(keys, k)
			}
			sort.Strings(keys)
			hist := map[string]int{}
			for _, k := range keys {
				hist[k] = stats[k]
			}
			out := map[string]interface{}{
				"engine": e.Name, "cases": curCase + 1, "ops": nops,
				"distinct_cases":      len(seenCases),
				"distinct_nontrivial": distinctNontriv,
				"histogram":           hist, "samples": samples,
			}
			f, _ := os.Create(*st)
			json.NewEncoder(f).Encode(out)
			f.Close()
		}
	default:
		fmt.Fprintln(os.Stderr, "usage: gen|run")
		os.Exit(2)
	}
}
