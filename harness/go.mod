module verif/harness

go 1.25.0

require github.com/gopacket/gopacket v0.0.0

replace github.com/gopacket/gopacket => /repo
