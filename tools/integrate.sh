#!/bin/bash
# tools/integrate.sh <engine> <patch=Cxx>...   apply fix patches to /repo (via scratch tree /tmp/wt-int), record them, enable the engine's fragments
set -e
eng=$1; shift
export GOFLAGS=-mod=mod GOPROXY=off
[ -d /tmp/wt-int ] || git -C /repo worktree add -q --detach /tmp/wt-int main   # scratch worktree (remove afterwards: git -C /repo worktree remove --force /tmp/wt-int)
cd /tmp/wt-int && git checkout -q --detach && git reset -q --hard main
for pp in "$@"; do n=${pp%%=*}; git apply --3way /verif/proposed_fixes/$n.diff; git add -A; git commit -q -F /verif/proposed_fixes/$n.msg; echo "applied $n"; done
go build . ./layers ./pcapgo ./reassembly ./tcpassembly
python3 /verif/tools/baseline.py /tmp/wt-int . ./layers | tail -2
cd /repo && git merge -q --ff-only $(git -C /tmp/wt-int rev-parse HEAD)
cd /verif && python3 - "$eng" "$@" <<'PY'
import json,subprocess,os,sys,glob
eng=sys.argv[1]; new=dict(x.split('=') for x in sys.argv[2:])
m=json.load(open('/verif/tools/fixmap.json')); m.update(new); json.dump(m,open('/verif/tools/fixmap.json','w'),indent=1)
log=subprocess.run(['git','-C','/repo','log','--format=%h\t%s'],capture_output=True,text=True).stdout.splitlines()
bysub={l.split('\t',1)[1]:l.split('\t',1)[0] for l in log}
d=json.load(open('/verif/KNOWN_FINDINGS.json'))
for n,pid in new.items():
    msg=open('/verif/proposed_fixes/%s.msg'%n).read()
    sub=msg.splitlines()[0]
    body=' '.join(x.strip() for x in msg.split('\n\n',1)[1].split('\n\n')[0].splitlines()) if '\n\n' in msg else ''
    c=bysub[sub]; what=(sub[5:]+' — '+body)[:400]
    d['findings'].append({"property":pid,"status":"fixed","commit":c,"patch":n,"sig":"(fixed) "+n,"what":what,"line":"fixed: property=%s %s %s"%(pid,c,what)})
json.dump(d,open('/verif/KNOWN_FINDINGS.json','w'),indent=1,ensure_ascii=False)
for f in glob.glob('/verif/props/parts/*.%s.json'%eng):
    pid=os.path.basename(f).split('.')[0]
    fn='/verif/props/%s.json'%pid
    p=json.load(open(fn))
    if eng not in p['parts']: p['parts'].append(eng)
    json.dump(p,open(fn,'w'),indent=1,ensure_ascii=False)
    print('enabled',pid,eng)
PY
