#!/usr/bin/env python3
"""Print the mutation-agent prompt for a property:  tools/mkmutant.py C09 /tmp/mut-C09 3"""
import json, sys, os
ROOT = os.path.dirname(os.path.dirname(os.path.abspath(__file__)))
pid, wt, n = sys.argv[1], sys.argv[2], sys.argv[3]
for l in open(os.path.join(ROOT, "properties.jsonl")):
    p = json.loads(l)
    if p["id"] == pid:
        t = open(os.path.join(ROOT, "tools/prompts/mutant.txt")).read()
        for k, v in {"@WT@": wt, "@ID@": pid, "@TITLE@": p["title"], "@STATEMENT@": p["statement"], "@QUANT@": p["quantifier"]["text"],
                     "@FILES@": ", ".join(p["anchors"]["files"]), "@N@": n}.items():
            t = t.replace(k, v)
        print(t)
