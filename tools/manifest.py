#!/usr/bin/env python3
"""Regenerate /verif/MANIFEST.json from props/*.json (each has a "manifest" object) and properties.jsonl."""
import glob, json, os, subprocess
ROOT = os.path.dirname(os.path.dirname(os.path.abspath(__file__)))
ids = [json.loads(l)["id"] for l in open(os.path.join(ROOT, "properties.jsonl"))]
hooks = json.load(open(os.path.join(ROOT, "tools", "hooks.json")))
checks, engines, na = [], {}, []
allp = json.loads(subprocess.run([os.path.join(ROOT, "check"), "--dump-all"], capture_output=True, text=True).stdout)
for pid in ids:
    p = allp.get(pid)
    if not p or not p.get("manifest") or not p.get("claimed") or p.get("manifest", {}).get("not_applicable"):
        na.append({"property_id": pid, "reason": (p or {}).get("manifest", {}).get("not_applicable", "check not built yet in this framework (planned: DESIGN.md §5 %s)" % pid)})
        continue
    m = p["manifest"]
    checks.append({
        "property_id": pid,
        "quick_cmd": "./check %s --tier quick" % pid,
        "thorough_cmd": "./check %s --tier thorough" % pid,
        "evidence_file": "/verif/evidence/%s.json" % pid,
        "replay_cmd_template": "./check %s --replay {path}" % pid,
        "engine": ",".join(e["name"] for e in p.get("engines", [])) or "lean",
        "level_claimed": {"category": m.get("category", "proof"), "text": m["text"], "design_ref": "DESIGN.md §5 " + pid},
        "level_note": m["note"],
        "technique": m.get("technique", "Lean 4 proof + model/code correspondence"),
    })
    for e in p.get("engines", []):
        en = engines.setdefault(e["name"], {"name": e["name"], "path": "harness/cmd/gp-%s + lean/Driver/%s.lean" % (e["name"], e["name"].capitalize()), "serves_properties": [], "kind_free_text": e.get("about", "")})
        en["serves_properties"].append(pid)
        if e.get("about"):
            en["kind_free_text"] = e["about"]
man = {
    "version": 1,
    "setup_cmd": "./setup.sh",
    "hooks": hooks,
    "engines": list(engines.values()),
    "checks": checks,
    "notes": "See DESIGN.md. Every check regenerates lean/Gp/Gen from /repo's working tree, rebuilds proofs and adapters (-tags verif), runs the model/implementation correspondence and the implementation-side monitors, and matches violations against KNOWN_FINDINGS.json.",
    "not_applicable": na,
}
json.dump(man, open(os.path.join(ROOT, "MANIFEST.json"), "w"), indent=1)
print("checks:", [c["property_id"] for c in checks], "not_applicable:", [n["property_id"] for n in na])
