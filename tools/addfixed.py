#!/usr/bin/env python3
"""tools/addfixed.py <Cxx> <commit> <sig> <what...>  — record a repaired defect in KNOWN_FINDINGS.json (suppresses nothing)."""
import json, sys
pid, commit, sig = sys.argv[1:4]
what = " ".join(sys.argv[4:])
p = "/verif/KNOWN_FINDINGS.json"
d = json.load(open(p))
d["findings"].append({"property": pid, "status": "fixed", "commit": commit, "sig": sig, "what": what,
                      "line": "fixed: property=%s %s %s" % (pid, commit, what)})
json.dump(d, open(p, "w"), indent=1, ensure_ascii=False)
