#!/usr/bin/env python3
"""Regenerate the generated tables of DESIGN.md (between <!-- GEN:name --> and <!-- /GEN:name --> markers)."""
import json, glob, os, re, subprocess
ROOT = os.path.dirname(os.path.dirname(os.path.abspath(__file__)))
def esc(s): return s.replace("|", "\\|").replace("\n", " ")
def fixed():
    d = json.load(open(os.path.join(ROOT, "KNOWN_FINDINGS.json")))
    rows = ["| property | commit | patch | what failed |", "|---|---|---|---|"]
    for f in sorted((x for x in d["findings"] if x["status"] == "fixed"), key=lambda x: (x["property"], x.get("patch", ""))):
        rows.append("| %s | %s | %s | %s |" % (f["property"], f["commit"], f.get("patch", ""), esc(f["what"])[:260]))
    return "\n".join(rows)
def findings():
    rows = ["| property | signature | what fails |", "|---|---|---|"]
    fs = []
    for fn in sorted(glob.glob(os.path.join(ROOT, "known_findings.d", "*.json"))) + [os.path.join(ROOT, "KNOWN_FINDINGS.json")]:
        fs += [x for x in json.load(open(fn)).get("findings", []) if x["status"] == "finding"]
    for f in sorted(fs, key=lambda x: (x["property"], x["sig"])):
        rows.append("| %s | `%s` | %s |" % (f["property"], f["sig"], esc(f.get("what", ""))[:300]))
    return "\n".join(rows)
def claims():
    m = json.load(open(os.path.join(ROOT, "MANIFEST.json")))
    rows = ["| property | engines | obligations (discharged) | correspondence cases (quick) | known findings seen |", "|---|---|---|---|---|"]
    for c in m["checks"]:
        try:
            e = json.load(open(c["evidence_file"]))
            cov = e["coverage"]
            rows.append("| %s | %s | %s (%s) | %s | %d |" % (c["property_id"], c["engine"], cov.get("obligations"), cov.get("discharged"), cov.get("evaluations", "-"), len(cov.get("known_findings_seen", []))))
        except Exception:
            rows.append("| %s | %s | ? | ? | ? |" % (c["property_id"], c["engine"]))
    return "\n".join(rows)
def seeded():
    rows = ["| seeded change | property | needs, to manifest | caught by |", "|---|---|---|---|"]
    for fn in sorted(glob.glob(os.path.join(ROOT, "seeded", "*", "meta.json"))):
        m = json.load(open(fn))
        rows.append("| %s | %s | %s | %s |" % (os.path.basename(os.path.dirname(fn)), m.get("property"), esc(m.get("needs", ""))[:200], esc(m.get("caught_by", "?"))[:200]))
    return "\n".join(rows)
def modelled():
    allp = json.loads(subprocess.run([os.path.join(ROOT, "check"), "--dump-all"], capture_output=True, text=True).stdout)
    rows = ["| property | hand-modelled Go functions (fingerprinted) | source files | regenerated specs / extractors |", "|---|---|---|---|"]
    for pid in sorted(allp):
        p = allp[pid]
        ms = p.get("modelled", [])
        files = sorted(set(m.split(":")[0] for m in ms))
        rows.append("| %s | %d | %s | %s |" % (pid, len(ms), ", ".join(files)[:400], ", ".join(p.get("extract", []) + p.get("extract_bins", []))[:300]))
    return "\n".join(rows)
GEN = {"modelled": modelled, "fixed": fixed, "findings": findings, "claims": claims, "seeded": seeded}
p = os.path.join(ROOT, "DESIGN.md")
s = open(p).read()
for name, fn in GEN.items():
    pat = re.compile(r"(<!-- GEN:%s -->\n).*?(<!-- /GEN:%s -->)" % (name, name), re.S)
    if pat.search(s):
        s = pat.sub(lambda m: m.group(1) + fn() + "\n" + m.group(2), s)
open(p, "w").write(s)
