#!/usr/bin/env python3
"""Fill empty `needs` / `what` of seeded/*/meta.json from the stored meta.txt (layouts differ between sub-agents)."""
import glob, json, os, re
for f in sorted(glob.glob(os.path.join(os.path.dirname(os.path.dirname(os.path.abspath(__file__))), "seeded", "*", "meta.json"))):
    m = json.load(open(f))
    mt = os.path.join(os.path.dirname(f), "meta.txt")
    if not os.path.exists(mt):
        continue
    t = open(mt).read()
    ch = False
    if not m.get("needs"):
        ls = [l.strip(" -*\t") for l in t.splitlines() if re.search(r"\bneeds?\b|manifest|only (when|if)|requires", l, re.I)]
        m["needs"] = " ".join(" ".join(ls).split())[:600] or " ".join(t.split())[:600]
        ch = True
    if not m.get("what"):
        first = [l for l in t.splitlines() if l.strip()]
        m["what"] = " ".join((first[0] if first else "").split()) or " ".join(t.split())[:300]
        ch = True
    if ch:
        json.dump(m, open(f, "w"), indent=1)
