#!/usr/bin/env python3
"""
tools/seedtest.py <seed-id> <Cxx[,Cyy]> <demo-dir> <worktree> [--place PATH --run 'go test …'] [--keep]

Confirms a seeded change delivered by a mutation sub-agent and runs our checks against it:
  1. worktree pristine: demo passes;  2. patch applied: builds, demo FAILS, pinned test suite still passes;
  3. ./check <Cxx> with VERIF_REPO=<worktree> (patch applied) -> VIOLATION expected;  4. worktree reset.
Stores patch.diff, the demonstration and meta.json under /verif/seeded/<seed-id>/ when 1–2 hold.
"""
import json, os, re, shutil, subprocess, sys, time
ROOT = os.path.dirname(os.path.dirname(os.path.abspath(__file__)))
a = sys.argv[1:]
sid, props, demo, wt = a[0], a[1].split(","), a[2], a[3]
place = run = None
if "--place" in a: place = a[a.index("--place") + 1]
if "--run" in a: run = a[a.index("--run") + 1]
env = dict(os.environ, GOFLAGS="-mod=mod", GOPROXY="off")
def sh(cmd, cwd=None, e=None, timeout=3600):
    p = subprocess.run(cmd, shell=True, cwd=cwd, env=e or env, capture_output=True, text=True, timeout=timeout)
    return p.returncode, p.stdout + p.stderr
demofile = [f for f in os.listdir(demo) if f.endswith(".go")]
assert demofile, "no demo"
modmode = None
if os.path.exists(os.path.join(demo, "go.mod")):
    modmode = (demo, "go test -count=1 ./...")
elif os.path.exists(os.path.join(os.path.dirname(demo.rstrip("/")), "go.mod")):
    modmode = (os.path.dirname(demo.rstrip("/")), "go test -count=1 ./%s/" % os.path.basename(demo.rstrip("/")))
src = open(os.path.join(demo, demofile[0])).read() + "\n" + (open(os.path.join(demo, "meta.txt")).read() if os.path.exists(os.path.join(demo, "meta.txt")) else "")
if not place:
    m = re.search(r"(?:[Pp]lace\w*(?: this file)? (?:at|in|as)|cp \S+)\s+(%s/\S+\.go)" % re.escape(wt), src)
    place = m.group(1) if m else None
if not run:
    m = re.search(r"(go (?:test|run) [^\n]*)", src)
    run = m.group(1).strip() if m else None
    if run: run = re.sub(r"\s+(->|#).*$", "", run)
rundir = wt
if modmode and "--place" not in a:
    rundir, run = modmode[0], (a[a.index("--run") + 1] if "--run" in a else modmode[1])
    place = None
else:
    assert place and run, ("cannot find placement/run command", place, run)
print("place:", place, "\nrun:", run, "in", rundir)
sh("git checkout -- . && git clean -fdq", cwd=wt)
# bring the scratch worktree to /repo's current HEAD (later fix: commits), so that only the seeded change differs
head = subprocess.run(["git", "-C", "/repo", "rev-parse", "HEAD"], capture_output=True, text=True).stdout.strip()
sh("git checkout -q --detach %s" % head, cwd=wt)
if place:
    os.makedirs(os.path.dirname(place), exist_ok=True)
    shutil.copy(os.path.join(demo, demofile[0]), place)
rc0, out0 = sh(run, cwd=rundir)
rc, o = sh("git apply %s" % os.path.join(demo, "patch.diff"), cwd=wt)
assert rc == 0, o
rcb, ob = sh("go build . ./layers/... ./pcapgo/... ./reassembly/... ./tcpassembly/... ./ip4defrag/... ./ip6defrag/... ./defrag/...", cwd=wt)
rc1, out1 = sh(run, cwd=rundir)
if place:
    os.remove(place)
    if os.path.isdir(os.path.dirname(place)) and not os.listdir(os.path.dirname(place)): os.rmdir(os.path.dirname(place))
rct, outt = sh("python3 %s/tools/baseline.py %s" % (ROOT, wt))
ok = rc0 == 0 and rcb == 0 and rc1 != 0 and rct == 0
print("pristine demo rc=%d  mutant build rc=%d  mutant demo rc=%d  baseline rc=%d  => %s" % (rc0, rcb, rc1, rct, "CONFIRMED" if ok else "REJECTED"))
if not ok:
    print(out0[-1500:], ob[-800:], out1[-1500:], outt[-800:])
    sh("git checkout -- . && git clean -fdq", cwd=wt)
    sys.exit(1)
results = {}
evd = "/tmp/seed-ev-" + sid
leand = "/tmp/seed-lean-" + sid       # private copy of the Lean project: regenerated Gp/Gen must not disturb checks of /repo
sh("rsync -a --delete %s/lean/ %s/" % (ROOT, leand))
for pid in props:
    # quick tier exactly as registered (the fingerprint-triggered widening is switched off: it would only help)
    e2 = dict(os.environ, VERIF_REPO=wt, VERIF_EVIDENCE_DIR=evd, VERIF_WORK_TAG=".seed-" + sid, VERIF_LEAN_DIR=leand, VERIF_NO_WIDEN="1")
    t0 = time.time()
    rc, o = sh("./check %s --tier quick" % pid, cwd=ROOT, e=e2, timeout=7200)
    viol = [l for l in o.splitlines() if l.startswith("VIOLATION")]
    results[pid] = {"rc": rc, "violations": [v[:300] for v in viol[:6]], "wall_s": round(time.time() - t0)}
    print(pid, "rc=%d" % rc, "%d violation line(s)" % len(viol), "%.0fs" % (time.time() - t0))
    for v in viol[:3]: print("   ", v[:260])
    shutil.rmtree(os.path.join(ROOT, ".work", pid + ".seed-" + sid), ignore_errors=True)
shutil.rmtree(evd, ignore_errors=True)
shutil.rmtree(leand, ignore_errors=True)
sh("git checkout -- . && git clean -fdq", cwd=wt)
d = os.path.join(ROOT, "seeded", sid)
os.makedirs(d, exist_ok=True)
for f in os.listdir(demo):
    if f in ("patch.diff", "meta.txt", "result.txt", "go.mod") or f.endswith(".go"):
        shutil.copy(os.path.join(demo, f), os.path.join(d, f))
caught = [p for p, r in results.items() if r["rc"] == 1 and r["violations"]]
meta = {"property": ",".join(props), "needs": "", "what": "", "demo_place": place.replace(wt, "<worktree>") if place else "separate module (go.mod replaces gopacket with the worktree)", "demo_run": run,
        "confirmed": {"pristine_demo_passes": True, "mutant_builds": True, "mutant_demo_fails": True, "pinned_suite_passes_with_mutant": True},
        "ran": ["tools/seedtest.py %s" % " ".join(a)], "checks": results, "repo_head": head, "tier": "quick, no widening",
        "caught_by": ", ".join("%s: %s" % (p, re.sub(r".*sig=(\S+).*", r"\1", results[p]["violations"][0])) for p in caught) or "NOT CAUGHT"}
mt = os.path.join(demo, "meta.txt")
if os.path.exists(mt):
    t = open(mt).read()
    m = re.search(r"Needs?:\s*(.*?)(?:\n[A-Z][a-z]+:|\Z)", t, re.S)
    meta["needs"] = " ".join(m.group(1).split()) if m else ""
    if not meta["needs"]:   # other layouts: the lines that talk about what it needs / when it manifests
        ls = [l.strip(" -*\t") for l in t.splitlines() if re.search(r"\bneeds?\b|manifest|only (when|if)|requires", l, re.I)]
        meta["needs"] = " ".join(" ".join(ls).split())[:600] or " ".join(t.split())[:600]
    first = [l for l in t.splitlines() if l.strip()]
    meta["what"] = " ".join((first[0] if first else "").split()) or " ".join(t.split())[:300]
json.dump(meta, open(os.path.join(d, "meta.json"), "w"), indent=1)
print("stored", d, "caught_by:", meta["caught_by"])
