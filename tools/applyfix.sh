#!/bin/bash
# tools/applyfix.sh <patch-basename> [pkgs...]   apply proposed_fixes/<name>.diff to /repo, test, commit with <name>.msg
set -e
n=$1; shift
cd /repo
git apply --3way /verif/proposed_fixes/$n.diff || git apply /verif/proposed_fixes/$n.diff
pk="${@:-./...}"
if ! go build . ./layers/... ./pcapgo/... ./reassembly/... ./tcpassembly/... ./ip4defrag/... ./ip6defrag/... ./defrag/... ; then echo BUILD FAILED; git checkout -- .; exit 1; fi
if go test -vet=off -count=1 $pk 2>&1 | grep -v "no test files" | grep -E "^(FAIL|---|panic)" | grep -v "TestEthernetHandle_Close" | grep -v "^FAIL.*pcapgo" ; then echo "TESTS FAILED"; fi
git add -A
git commit -q -F /verif/proposed_fixes/$n.msg
git log --oneline | head -1
