#!/usr/bin/env python3
"""tools/baseline.py <tree>  — run the pinned test suite (BASELINE.json stable_pass) in <tree>; report tests that no longer pass."""
import json, subprocess, sys, os
tree = sys.argv[1] if len(sys.argv) > 1 else "/repo"
pk = sys.argv[2:] or ["./..."]
base = json.load(open("/root/.vp/BASELINE.json"))
want = set(base["stable_pass"])
env = dict(os.environ, GOFLAGS="-mod=mod", GOPROXY="off")
p = subprocess.run(["go", "test", "-json", "-vet=off", "-count=1", "-timeout", "25m"] + pk, cwd=tree, env=env, capture_output=True, text=True)
res = {}
for l in p.stdout.splitlines():
    try:
        e = json.loads(l)
    except Exception:
        continue
    if e.get("Test") and e.get("Action") in ("pass", "fail", "skip"):
        res[e["Package"] + "::" + e["Test"]] = e["Action"]
def run(pk):
    p = subprocess.run(["go", "test", "-json", "-vet=off", "-count=1", "-timeout", "25m"] + pk, cwd=tree, env=env, capture_output=True, text=True)
    out = {}
    for l in p.stdout.splitlines():
        try:
            e = json.loads(l)
        except Exception:
            continue
        if e.get("Test") and e.get("Action") in ("pass", "fail", "skip"):
            out[e["Package"] + "::" + e["Test"]] = e["Action"]
    return out
# tests that are flaky under load (routing::TestRouting needs the sandbox's routing table quiet): retry their package alone
for attempt in range(2):
    failing = sorted(set(t.split("::")[0] for t in want if t in res and res.get(t) != "pass") | set(t.split("::")[0] for t in want if t not in res and t.split("::")[0] in set(k.split("::")[0] for k in res)))
    if not failing:
        break
    for pkg in failing:
        rel = "./" + pkg.replace("github.com/gopacket/gopacket", "").lstrip("/")
        r2 = run([rel])
        for k, v in r2.items():
            if v == "pass" or k not in res:
                res[k] = v
pkgs = set(k.split("::")[0] for k in res)
bad = sorted(t for t in want if t.split("::")[0] in pkgs and res.get(t) != "pass") if pk != ["./..."] else sorted(t for t in want if res.get(t) != "pass")
print("ran %d tests, %d of %d baseline tests pass" % (len(res), sum(1 for t in want if res.get(t) == "pass"), len(want)))
for t in bad:
    print("NOT PASSING:", t, res.get(t))
sys.exit(1 if bad else 0)
