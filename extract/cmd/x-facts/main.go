// x-facts: generated proof obligations for ALL decoders of gopacket/layers (the T-tie of
// C01/C03/C19/C02, DESIGN.md §2.3).  Regenerated from the repository's CURRENT source on every
// run of ./check; writes (only when the content changes)
//
//	<out>/DecoderFacts.lean      discipline facts of every func([]byte, gopacket.PacketBuilder) error
//	<out>/BoundsVCs.lean         min-length verification conditions of every decoder body
//	<out>/GlobalWrites.lean      package-level variables written outside init()/initialisers
//	<out>/BoundsCandidates.txt   candidate inputs (decoder, length) of every VC that does not hold
//
// usage: x-facts --repo /repo --out /verif/lean/Gp/Gen
// exit 0 ok, 2 hard error (the repository does not load/type-check), 3 DRIFT lines printed.
package main

import (
	_ "embed"
	"flag"
	"fmt"
	"go/ast"
	"go/token"
	"go/types"
	"os"
	"path/filepath"
	"sort"
	"strings"

	"golang.org/x/tools/go/packages"
)

const (
	pkgRoot   = "github.com/gopacket/gopacket"
	pkgLayers = "github.com/gopacket/gopacket/layers"
)

//go:embed known_bad.txt
var knownBadTxt string

//go:embed discipline_exceptions.txt
var exceptionsTxt string

func listFile(s string) (items []string, why map[string]string) {
	why = map[string]string{}
	for _, l := range strings.Split(s, "\n") {
		l = strings.TrimSpace(l)
		if l == "" || strings.HasPrefix(l, "#") {
			continue
		}
		name, reason, _ := strings.Cut(l, "\t")
		name = strings.TrimSpace(name)
		items = append(items, name)
		why[name] = strings.TrimSpace(reason)
	}
	return
}

func lstr(s string) string {
	var b strings.Builder
	b.WriteByte('"')
	for _, c := range s {
		switch c {
		case '"':
			b.WriteString("\\\"")
		case '\\':
			b.WriteString("\\\\")
		default:
			b.WriteRune(c)
		}
	}
	b.WriteByte('"')
	return b.String()
}

func lbool(b bool) string {
	if b {
		return "true"
	}
	return "false"
}

func writeIfChanged(path, content string) {
	if old, err := os.ReadFile(path); err == nil && string(old) == content {
		fmt.Println("unchanged", filepath.Base(path))
		return
	}
	if err := os.WriteFile(path, []byte(content), 0o644); err != nil {
		fmt.Println("ERROR", err)
		os.Exit(2)
	}
	fmt.Println("wrote", filepath.Base(path))
}

type funcInfo struct {
	pkg  *packages.Package
	decl *ast.FuncDecl
	name string // "decodeFDDI" or "(*TCP).DecodeFromBytes" rendered as "TCP.DecodeFromBytes"
	recv string // receiver type name or ""
	file string // repository-relative
	line int
}

func relFile(repo string, fset *token.FileSet, pos token.Pos) (string, int) {
	p := fset.Position(pos)
	f := p.Filename
	if r, err := filepath.Rel(repo, f); err == nil && !strings.HasPrefix(r, "..") {
		f = r
	} else if i := strings.Index(f, "/layers/"); i >= 0 {
		f = f[i+1:]
	} else {
		f = filepath.Base(f)
	}
	return f, p.Line
}

func recvName(fd *ast.FuncDecl) string {
	if fd.Recv == nil || len(fd.Recv.List) == 0 {
		return ""
	}
	t := fd.Recv.List[0].Type
	for {
		switch x := t.(type) {
		case *ast.StarExpr:
			t = x.X
			continue
		case *ast.ParenExpr:
			t = x.X
			continue
		case *ast.IndexExpr:
			t = x.X
			continue
		case *ast.Ident:
			return x.Name
		}
		return ""
	}
}

func isByteSlice(t types.Type) bool {
	if t == nil {
		return false
	}
	s, ok := t.Underlying().(*types.Slice)
	if !ok {
		return false
	}
	b, ok := s.Elem().Underlying().(*types.Basic)
	return ok && (b.Kind() == types.Uint8 || b.Kind() == types.Byte)
}

func isNamed(t types.Type, pkg, name string) bool {
	n, ok := t.(*types.Named)
	return ok && n.Obj().Name() == name && n.Obj().Pkg() != nil && n.Obj().Pkg().Path() == pkg
}

// isDecoderSig: func([]byte, gopacket.PacketBuilder) error (receiver ignored)
func isDecoderSig(sig *types.Signature) bool {
	if sig.Params().Len() != 2 || sig.Results().Len() != 1 {
		return false
	}
	if !isByteSlice(sig.Params().At(0).Type()) {
		return false
	}
	if !isNamed(sig.Params().At(1).Type(), pkgRoot, "PacketBuilder") {
		return false
	}
	return sig.Results().At(0).Type().String() == "error"
}

func main() {
	repo := flag.String("repo", "/repo", "")
	out := flag.String("out", "", "")
	flag.Parse()
	if *out == "" {
		fmt.Println("ERROR --out required")
		os.Exit(2)
	}
	absRepo, _ := filepath.Abs(*repo)
	cfg := &packages.Config{
		Mode: packages.NeedName | packages.NeedFiles | packages.NeedSyntax | packages.NeedTypes | packages.NeedTypesInfo | packages.NeedImports | packages.NeedDeps,
		Dir:  absRepo,
		Env:  append(os.Environ(), "GOFLAGS=-mod=mod", "GOPROXY=off"),
	}
	pkgs, err := packages.Load(cfg, pkgRoot, pkgLayers)
	if err != nil {
		fmt.Println("ERROR load:", err)
		os.Exit(2)
	}
	byPath := map[string]*packages.Package{}
	for _, p := range pkgs {
		byPath[p.PkgPath] = p
		for _, e := range p.Errors {
			fmt.Println("ERROR package", p.PkgPath, e)
		}
		if len(p.Errors) > 0 {
			os.Exit(2)
		}
	}
	drift := 0
	root, lay := byPath[pkgRoot], byPath[pkgLayers]
	if root == nil || lay == nil {
		fmt.Println("ERROR packages gopacket / gopacket/layers not found")
		os.Exit(2)
	}

	// ---- collect functions
	var decoders, bodies []funcInfo // decoder-typed funcs of layers; bodies = decoders + DecodeFromBytes methods
	for _, f := range lay.Syntax {
		for _, d := range f.Decls {
			fd, ok := d.(*ast.FuncDecl)
			if !ok || fd.Body == nil {
				continue
			}
			obj, _ := lay.TypesInfo.Defs[fd.Name].(*types.Func)
			if obj == nil {
				continue
			}
			sig := obj.Type().(*types.Signature)
			fi := funcInfo{pkg: lay, decl: fd, recv: recvName(fd)}
			fi.file, fi.line = relFile(absRepo, lay.Fset, fd.Pos())
			fi.name = fd.Name.Name
			if fi.recv != "" {
				fi.name = fi.recv + "." + fd.Name.Name
			}
			if isDecoderSig(sig) {
				decoders = append(decoders, fi)
				bodies = append(bodies, fi)
			} else if fd.Name.Name == "DecodeFromBytes" && sig.Params().Len() >= 1 && isByteSlice(sig.Params().At(0).Type()) {
				bodies = append(bodies, fi)
			}
		}
	}
	sort.Slice(decoders, func(i, j int) bool { return decoders[i].name < decoders[j].name })
	sort.Slice(bodies, func(i, j int) bool { return bodies[i].name < bodies[j].name })
	if len(decoders) < 100 {
		fmt.Printf("DRIFT only %d decoder functions found in package layers (expected ~150)\n", len(decoders))
		drift++
	}

	writeIfChanged(filepath.Join(*out, "DecoderFacts.lean"), genDecoderFacts(decoders))
	vcText, candText := genBounds(bodies)
	writeIfChanged(filepath.Join(*out, "BoundsVCs.lean"), vcText)
	writeIfChanged(filepath.Join(*out, "BoundsCandidates.txt"), candText)
	writeIfChanged(filepath.Join(*out, "GlobalWrites.lean"), genGlobalWrites([]*packages.Package{root, lay}, absRepo))
	if drift > 0 {
		os.Exit(3)
	}
}

// ============================================================ DecoderFacts

// methodCallOnBuilder reports whether call is <expr of type PacketBuilder>.<name>(…)
func builderCall(info *types.Info, call *ast.CallExpr, name string) bool {
	sel, ok := call.Fun.(*ast.SelectorExpr)
	if !ok || sel.Sel.Name != name {
		return false
	}
	t := info.TypeOf(sel.X)
	return t != nil && isNamed(t, pkgRoot, "PacketBuilder")
}

func genDecoderFacts(fs []funcInfo) string {
	exc, why := listFile(exceptionsTxt)
	var sb strings.Builder
	sb.WriteString("/- GENERATED by /verif/extract (x-facts) from the repository's current source. DO NOT EDIT.\n")
	sb.WriteString("   One record per function of type func([]byte, gopacket.PacketBuilder) error in package layers. -/\n")
	sb.WriteString("namespace Gp.Gen.DecoderFacts\n\n")
	sb.WriteString("structure DecoderFact where\n  name : String\n  file : String\n  line : Nat\n")
	sb.WriteString("  /-- every p.NextDecoder(…) call is the operand of a return statement -/\n  nextDecoderOnlyInReturn : Bool\n")
	sb.WriteString("  /-- an AddLayer call precedes every NextDecoder call (or the function delegates to decodingLayerDecoder) -/\n  addLayerBeforeNext : Bool\n")
	sb.WriteString("  callsSetErrorLayer : Bool\n  nextDecoderCalls : Nat\n  delegates : Bool\nderiving Repr\n\n")
	sb.WriteString("def DecoderFact.ok (f : DecoderFact) : Bool :=\n  f.nextDecoderOnlyInReturn && f.addLayerBeforeNext && !f.callsSetErrorLayer\n\n")
	sb.WriteString("def decoderFacts : List DecoderFact := [\n")
	for i, f := range fs {
		info := f.pkg.TypesInfo
		var nexts []*ast.CallExpr
		var addPos []token.Pos
		setErr, delegates := false, false
		inReturn := map[*ast.CallExpr]bool{}
		ast.Inspect(f.decl.Body, func(n ast.Node) bool {
			switch x := n.(type) {
			case *ast.ReturnStmt:
				if len(x.Results) == 1 {
					if c, ok := x.Results[0].(*ast.CallExpr); ok {
						inReturn[c] = true
					}
				}
			case *ast.CallExpr:
				switch {
				case builderCall(info, x, "NextDecoder"):
					nexts = append(nexts, x)
				case builderCall(info, x, "AddLayer"):
					addPos = append(addPos, x.Pos())
				case builderCall(info, x, "SetErrorLayer"):
					setErr = true
				}
				if id, ok := x.Fun.(*ast.Ident); ok && id.Name == "decodingLayerDecoder" {
					delegates = true
				}
			}
			return true
		})
		onlyRet, addBefore := true, true
		for _, c := range nexts {
			if !inReturn[c] {
				onlyRet = false
			}
			ok := delegates
			for _, p := range addPos {
				if p < c.Pos() {
					ok = true
				}
			}
			if !ok {
				addBefore = false
			}
		}
		sep := ","
		if i == len(fs)-1 {
			sep = ""
		}
		fmt.Fprintf(&sb, "  ⟨%s, %s, %d, %s, %s, %s, %d, %s⟩%s\n", lstr(f.name), lstr(f.file), f.line, lbool(onlyRet), lbool(addBefore), lbool(setErr), len(nexts), lbool(delegates), sep)
	}
	sb.WriteString("]\n\n")
	sb.WriteString("/-- Decoders that legitimately fail `ok` (from extract/cmd/x-facts/discipline_exceptions.txt; each one is\n    justified in notes/all.md and is either a known finding or explained there). -/\n")
	sb.WriteString("def disciplineExceptions : List String := [\n")
	for i, e := range exc {
		sep := ","
		if i == len(exc)-1 {
			sep = ""
		}
		fmt.Fprintf(&sb, "  %s%s  -- %s\n", lstr(e), sep, why[e])
	}
	sb.WriteString("]\n\n")
	fmt.Fprintf(&sb, "def decoderCount : Nat := %d\n\nend Gp.Gen.DecoderFacts\n", len(fs))
	return sb.String()
}
