package main

// Min-length analysis (DESIGN.md §2.3 BoundsVCs).  For every decoder body (functions of decoder
// type and DecodeFromBytes methods of package layers) and every []byte variable x in it:
//
//   - guards `if len(x) < K { … return }` (also <=, ==0, K > len(x), || chains, `n := len(x)` aliases,
//     the else branch / the true branch of the converse comparison, && / || short-circuit order) give a
//     lower bound M for len(x) at each program point, valid until x is first reassigned (for an
//     assignment inside a loop or closure: from the start of that loop/closure);
//   - each constant index x[c] yields the VC  c < M ; each slice x[a:b] with constant b the VC  b ≤ M ;
//     x[a:] with constant a the VC  a ≤ M ; binary.*Endian.UintN(x) / (x[a:]) the VC  a+N/8 ≤ M ;
//   - every other index/slice of a []byte (computed bounds, after a reassignment, through a field or
//     pointer) is only COUNTED (unclassified) — nothing is claimed about it.
//
// A VC that does not hold is either listed in known_bad.txt (genuinely unguarded in the tree,
// recorded as a known finding), or listed in outside_analysis.txt (guarded by reasoning the
// pass does not understand: dropped from the VC list and counted as unclassified), or it makes
// the Lean obligation `bounds_ok` fail.

import (
	_ "embed"
	"fmt"
	"go/ast"
	"go/constant"
	"go/token"
	"go/types"
	"sort"
	"strings"
)

//go:embed outside_analysis.txt
var outsideTxt string

type vc struct {
	id, fn, recv, file, kind, expr string
	line, idx, minLen            int
	strict                       bool
}

// env: what is known at a program point — lower bounds of len(x) for byte slices (m) and the
// exact value of integer locals that currently hold a known constant (c).
type env struct {
	m map[*types.Var]int
	c map[*types.Var]int
}

func newEnv() env { return env{map[*types.Var]int{}, map[*types.Var]int{}} }

func (e env) copy() env {
	n := newEnv()
	for k, v := range e.m {
		n.m[k] = v
	}
	for k, v := range e.c {
		n.c[k] = v
	}
	return n
}

type fact struct {
	v *types.Var
	k int
}

func (e env) apply(fs []fact) env {
	for _, f := range fs {
		if f.k > e.m[f.v] {
			e.m[f.v] = f.k
		}
	}
	return e
}

type analyzer struct {
	fi           funcInfo
	info         *types.Info
	fset         *token.FileSet
	kill         map[*types.Var]token.Pos
	lenAlias     map[*types.Var]*types.Var
	vcs          []vc
	unclassified int
	occ          map[string]int
	seen         map[ast.Node]bool
	addrTaken    map[*types.Var]bool // &v appears somewhere (or v is captured and assigned by a closure)
}

func constInt(info *types.Info, e ast.Expr) (int, bool) {
	tv, ok := info.Types[e]
	if !ok || tv.Value == nil {
		return 0, false
	}
	v := constant.ToInt(tv.Value)
	if v.Kind() != constant.Int {
		return 0, false
	}
	i, exact := constant.Int64Val(v)
	if !exact || i < 0 || i > 1<<30 {
		return 0, false
	}
	return int(i), true
}

// cint: e is a constant expression, or an integer local that holds a known constant at this
// point (possibly under an integer conversion).
func (a *analyzer) cint(e ast.Expr, M env) (int, bool) {
	if c, ok := constInt(a.info, e); ok {
		return c, true
	}
	e = unparen(e)
	if c, ok := e.(*ast.CallExpr); ok && len(c.Args) == 1 {
		if tv, ok := a.info.Types[c.Fun]; ok && tv.IsType() {
			if b, ok := tv.Type.Underlying().(*types.Basic); ok && b.Info()&types.IsInteger != 0 {
				if v, ok := a.cint(c.Args[0], M); ok && v < 1<<15 {
					return v, true
				}
			}
		}
		return 0, false
	}
	if b, ok := e.(*ast.BinaryExpr); ok {
		x, xok := a.cint(b.X, M)
		y, yok := a.cint(b.Y, M)
		if xok && yok {
			switch b.Op {
			case token.ADD:
				return x + y, true
			case token.SUB:
				if x >= y {
					return x - y, true
				}
			case token.MUL:
				if x < 1<<15 && y < 1<<15 {
					return x * y, true
				}
			}
		}
		return 0, false
	}
	if v := a.varOf(e); v != nil {
		if c, ok := M.c[v]; ok {
			return c, true
		}
	}
	return 0, false
}

func unparen(e ast.Expr) ast.Expr {
	for {
		p, ok := e.(*ast.ParenExpr)
		if !ok {
			return e
		}
		e = p.X
	}
}

func (a *analyzer) varOf(e ast.Expr) *types.Var {
	id, ok := unparen(e).(*ast.Ident)
	if !ok {
		return nil
	}
	if v, ok := a.info.Uses[id].(*types.Var); ok {
		return v
	}
	if v, ok := a.info.Defs[id].(*types.Var); ok {
		return v
	}
	return nil
}

// lenOf: e is len(x) (possibly under integer conversions) or an alias n of it → x
func (a *analyzer) lenOf(e ast.Expr) *types.Var {
	e = unparen(e)
	if c, ok := e.(*ast.CallExpr); ok && len(c.Args) == 1 {
		if id, ok := c.Fun.(*ast.Ident); ok {
			if id.Name == "len" {
				if _, isBuiltin := a.info.Uses[id].(*types.Builtin); isBuiltin {
					if v := a.varOf(c.Args[0]); v != nil && isByteSlice(v.Type()) {
						return v
					}
					return nil
				}
			}
		}
		// integer conversion T(len(x)): may wrap (uint16(len) wraps at 65536), but the wrapped value
		// never exceeds len(x) when it is non-negative, so every LOWER bound K ≥ 0 derived from it
		// (T(len(x)) ≥ K ⇒ len(x) ≥ K) stays sound — and lower bounds are all this pass derives
		if tv, ok := a.info.Types[c.Fun]; ok && tv.IsType() {
			if b, ok := tv.Type.Underlying().(*types.Basic); ok && b.Info()&types.IsInteger != 0 {
				return a.lenOf(c.Args[0])
			}
		}
		return nil
	}
	if v := a.varOf(e); v != nil {
		return a.lenAlias[v]
	}
	return nil
}

// facts that hold when cond is true / false
func (a *analyzer) facts(cond ast.Expr, truth bool, M env) []fact {
	cond = unparen(cond)
	switch c := cond.(type) {
	case *ast.UnaryExpr:
		if c.Op == token.NOT {
			return a.facts(c.X, !truth, M)
		}
	case *ast.BinaryExpr:
		switch c.Op {
		case token.LOR:
			if !truth {
				return append(a.facts(c.X, false, M), a.facts(c.Y, false, M)...)
			}
			return nil
		case token.LAND:
			if truth {
				return append(a.facts(c.X, true, M), a.facts(c.Y, true, M)...)
			}
			return nil
		}
		op := c.Op
		x, y := c.X, c.Y
		v := a.lenOf(x)
		k, kok := a.cint(y, M)
		if v == nil || !kok {
			// K op len(x)  →  len(x) op' K
			v = a.lenOf(y)
			k, kok = a.cint(x, M)
			if v == nil || !kok {
				return nil
			}
			switch op {
			case token.LSS:
				op = token.GTR
			case token.LEQ:
				op = token.GEQ
			case token.GTR:
				op = token.LSS
			case token.GEQ:
				op = token.LEQ
			}
		}
		if !truth {
			switch op { // negate
			case token.LSS:
				op = token.GEQ
			case token.LEQ:
				op = token.GTR
			case token.GTR:
				op = token.LEQ
			case token.GEQ:
				op = token.LSS
			case token.EQL:
				op = token.NEQ
			case token.NEQ:
				op = token.EQL
			}
		}
		switch op {
		case token.GEQ, token.EQL:
			return []fact{{v, k}}
		case token.GTR:
			return []fact{{v, k + 1}}
		case token.NEQ:
			if k == 0 {
				return []fact{{v, 1}}
			}
		}
	}
	return nil
}

func terminates(b *ast.BlockStmt) bool {
	if b == nil || len(b.List) == 0 {
		return false
	}
	switch s := b.List[len(b.List)-1].(type) {
	case *ast.ReturnStmt, *ast.BranchStmt:
		return true
	case *ast.ExprStmt:
		if c, ok := s.X.(*ast.CallExpr); ok {
			if id, ok := c.Fun.(*ast.Ident); ok && id.Name == "panic" {
				return true
			}
		}
	}
	return false
}

func (a *analyzer) addVC(e ast.Expr, kind string, idx int, strict bool, v *types.Var, M env) {
	pos := a.fset.Position(e.Pos())
	txt := types.ExprString(e)
	key := a.fi.name + ":" + txt + "/" + kind
	a.occ[key]++
	id := fmt.Sprintf("%s:%s#%d", a.fi.name, txt, a.occ[key])
	if kind == "binary" {
		id = fmt.Sprintf("%s:%s/bin#%d", a.fi.name, txt, a.occ[key])
	}
	a.vcs = append(a.vcs, vc{id: id, fn: a.fi.name, recv: a.fi.recv, file: a.fi.file, line: pos.Line, kind: kind, expr: txt, idx: idx, minLen: M.m[v], strict: strict})
}

func (a *analyzer) tracked(v *types.Var, at token.Pos) bool {
	if v == nil || !isByteSlice(v.Type()) {
		return false
	}
	if k, ok := a.kill[v]; ok && at >= k {
		return false
	}
	return true
}

var binWidth = map[string]int{"Uint16": 2, "Uint32": 4, "Uint64": 8, "PutUint16": 2, "PutUint32": 4, "PutUint64": 8}

// access records the VCs of one index/slice/binary expression node (not its children).
func (a *analyzer) access(n ast.Node, M env) {
	if a.seen[n] {
		return
	}
	switch x := n.(type) {
	case *ast.IndexExpr:
		t := a.info.TypeOf(x.X)
		if !isByteSlice(t) {
			return
		}
		a.seen[n] = true
		v := a.varOf(x.X)
		c, ok := a.cint(x.Index, M)
		if !a.tracked(v, x.Pos()) || !ok {
			a.unclassified++
			return
		}
		a.addVC(x, "index", c, true, v, M)
	case *ast.SliceExpr:
		t := a.info.TypeOf(x.X)
		if !isByteSlice(t) {
			return
		}
		a.seen[n] = true
		if x.Low == nil && x.High == nil {
			return
		}
		v := a.varOf(x.X)
		if !a.tracked(v, x.Pos()) {
			a.unclassified++
			return
		}
		if x.High != nil {
			c, ok := a.cint(x.High, M)
			if !ok {
				a.unclassified++
				return
			}
			if x.Low != nil {
				if _, ok := a.cint(x.Low, M); !ok {
					// low computed: low ≤ high is not known
					a.unclassified++
					return
				}
			}
			a.addVC(x, "slice", c, false, v, M)
			return
		}
		c, ok := a.cint(x.Low, M)
		if !ok {
			a.unclassified++
			return
		}
		a.addVC(x, "slice", c, false, v, M)
	case *ast.CallExpr:
		sel, ok := x.Fun.(*ast.SelectorExpr)
		if !ok || len(x.Args) == 0 {
			return
		}
		w, ok := binWidth[sel.Sel.Name]
		if !ok {
			return
		}
		if rt := a.info.TypeOf(sel.X); rt == nil || !strings.Contains(rt.String(), "encoding/binary") {
			return
		}
		a.seen[n] = true
		arg := unparen(x.Args[0])
		if v := a.varOf(arg); v != nil && isByteSlice(v.Type()) {
			if a.tracked(v, x.Pos()) {
				a.addVC(x, "binary", w, false, v, M)
			} else {
				a.unclassified++
			}
			return
		}
		if s, ok := arg.(*ast.SliceExpr); ok && s.High == nil && s.Low != nil {
			if v := a.varOf(s.X); v != nil && isByteSlice(v.Type()) {
				if c, ok := a.cint(s.Low, M); ok && a.tracked(v, x.Pos()) {
					a.addVC(x, "binary", c+w, false, v, M)
				}
			}
		}
	}
}

// expr walks an expression in evaluation order, honouring && / || short-circuit.
func (a *analyzer) expr(e ast.Node, M env) {
	if e == nil {
		return
	}
	ast.Inspect(e, func(n ast.Node) bool {
		switch x := n.(type) {
		case *ast.FuncLit:
			// accesses inside closures: counted, not claimed
			ast.Inspect(x.Body, func(m ast.Node) bool {
				switch y := m.(type) {
				case *ast.IndexExpr:
					if isByteSlice(a.info.TypeOf(y.X)) {
						a.unclassified++
					}
				case *ast.SliceExpr:
					if isByteSlice(a.info.TypeOf(y.X)) {
						a.unclassified++
					}
				}
				return true
			})
			return false
		case *ast.BinaryExpr:
			if x.Op == token.LAND || x.Op == token.LOR {
				a.expr(x.X, M)
				a.expr(x.Y, M.copy().apply(a.facts(x.X, x.Op == token.LAND, M)))
				return false
			}
		case *ast.IndexExpr, *ast.SliceExpr, *ast.CallExpr:
			a.access(n, M)
		}
		return true
	})
}

func (a *analyzer) block(list []ast.Stmt, M env) env {
	for _, s := range list {
		M = a.stmt(s, M)
	}
	return M
}

func (a *analyzer) stmt(s ast.Stmt, M env) env {
	switch x := s.(type) {
	case nil:
		return M
	case *ast.BlockStmt:
		return a.block(x.List, M)
	case *ast.LabeledStmt:
		return a.stmt(x.Stmt, M)
	case *ast.IfStmt:
		if x.Init != nil {
			M = a.stmt(x.Init, M)
		}
		a.expr(x.Cond, M)
		tf, ff := a.facts(x.Cond, true, M), a.facts(x.Cond, false, M)
		a.block(x.Body.List, M.copy().apply(tf))
		bodyTerm := terminates(x.Body)
		elseTerm := false
		if x.Else != nil {
			switch e := x.Else.(type) {
			case *ast.BlockStmt:
				a.block(e.List, M.copy().apply(ff))
				elseTerm = terminates(e)
			default:
				a.stmt(e, M.copy().apply(ff))
			}
		}
		if !bodyTerm {
			a.forget(x.Body, M)
		}
		if x.Else != nil && !elseTerm {
			a.forget(x.Else, M)
		}
		if bodyTerm && !elseTerm {
			return M.copy().apply(ff)
		}
		if elseTerm && !bodyTerm {
			return M.copy().apply(tf)
		}
		return M
	case *ast.ForStmt:
		if x.Init != nil {
			M = a.stmt(x.Init, M)
		}
		a.forget(x.Body, M)
		a.forget(x.Post, M)
		inner := M.copy()
		if x.Cond != nil {
			a.expr(x.Cond, inner)
			inner.apply(a.facts(x.Cond, true, inner))
		}
		a.block(x.Body.List, inner)
		if x.Post != nil {
			a.stmt(x.Post, inner.copy())
		}
		return M
	case *ast.RangeStmt:
		a.expr(x.X, M)
		a.forget(x.Body, M)
		a.block(x.Body.List, M.copy())
		return M
	case *ast.SwitchStmt:
		if x.Init != nil {
			M = a.stmt(x.Init, M)
		}
		a.expr(x.Tag, M)
		for _, cc := range x.Body.List {
			c := cc.(*ast.CaseClause)
			inner := M.copy()
			for _, e := range c.List {
				a.expr(e, inner)
				if x.Tag == nil && len(c.List) == 1 {
					inner.apply(a.facts(e, true, inner))
				}
			}
			a.block(c.Body, inner)
		}
		a.forget(x.Body, M)
		return M
	case *ast.TypeSwitchStmt:
		if x.Init != nil {
			M = a.stmt(x.Init, M)
		}
		a.expr(x.Assign, M)
		for _, cc := range x.Body.List {
			a.block(cc.(*ast.CaseClause).Body, M.copy())
		}
		a.forget(x.Body, M)
		return M
	case *ast.SelectStmt:
		for _, cc := range x.Body.List {
			a.block(cc.(*ast.CommClause).Body, M.copy())
		}
		a.forget(x.Body, M)
		return M
	default:
		a.expr(s, M)
		a.trackConsts(s, M)
		return M
	}
}

// assignedIn: integer variables assigned anywhere inside n
func (a *analyzer) assignedIn(n ast.Node) []*types.Var {
	var out []*types.Var
	if n == nil {
		return nil
	}
	ast.Inspect(n, func(m ast.Node) bool {
		switch x := m.(type) {
		case *ast.AssignStmt:
			for _, l := range x.Lhs {
				if v := a.varOf(l); v != nil {
					out = append(out, v)
				}
			}
		case *ast.IncDecStmt:
			if v := a.varOf(x.X); v != nil {
				out = append(out, v)
			}
		case *ast.RangeStmt:
			for _, e := range []ast.Expr{x.Key, x.Value} {
				if e != nil {
					if v := a.varOf(e); v != nil {
						out = append(out, v)
					}
				}
			}
		case *ast.UnaryExpr:
			if x.Op == token.AND {
				if v := a.varOf(x.X); v != nil {
					out = append(out, v)
				}
			}
		}
		return true
	})
	return out
}

func (a *analyzer) forget(n ast.Node, M env) {
	for _, v := range a.assignedIn(n) {
		delete(M.c, v)
	}
}

// trackConsts updates the known-constant integer locals after a simple statement.
func (a *analyzer) trackConsts(s ast.Stmt, M env) {
	isInt := func(v *types.Var) bool {
		b, ok := v.Type().Underlying().(*types.Basic)
		return ok && b.Info()&types.IsInteger != 0
	}
	switch x := s.(type) {
	case *ast.AssignStmt:
		if len(x.Lhs) != len(x.Rhs) {
			a.forget(x, M)
			return
		}
		type upd struct {
			v  *types.Var
			c  int
			ok bool
		}
		var us []upd
		for i, l := range x.Lhs {
			v := a.varOf(l)
			if v == nil || !isInt(v) {
				continue
			}
			if a.addrTaken[v] {
				us = append(us, upd{v, 0, false})
				continue
			}
			r, rok := a.cint(x.Rhs[i], M)
			switch x.Tok {
			case token.DEFINE, token.ASSIGN:
				us = append(us, upd{v, r, rok})
			case token.ADD_ASSIGN:
				old, ook := M.c[v]
				us = append(us, upd{v, old + r, rok && ook})
			case token.SUB_ASSIGN:
				old, ook := M.c[v]
				us = append(us, upd{v, old - r, rok && ook && old >= r})
			default:
				us = append(us, upd{v, 0, false})
			}
		}
		for _, u := range us {
			if u.ok {
				M.c[u.v] = u.c
			} else {
				delete(M.c, u.v)
			}
		}
	case *ast.IncDecStmt:
		if v := a.varOf(x.X); v != nil {
			if old, ok := M.c[v]; ok && x.Tok == token.INC && !a.addrTaken[v] {
				M.c[v] = old + 1
			} else {
				delete(M.c, v)
			}
		}
	case *ast.DeclStmt:
		if gd, ok := x.Decl.(*ast.GenDecl); ok {
			for _, sp := range gd.Specs {
				if vs, ok := sp.(*ast.ValueSpec); ok {
					for i, id := range vs.Names {
						if v, ok := a.info.Defs[id].(*types.Var); ok && v != nil && isInt(v) && !a.addrTaken[v] {
							if i < len(vs.Values) {
								if c, ok := a.cint(vs.Values[i], M); ok {
									M.c[v] = c
								}
							} else if len(vs.Values) == 0 {
								M.c[v] = 0
							}
						}
					}
				}
			}
		}
	default:
		a.forget(s, M)
	}
}

// prepass: kill positions and len aliases
func (a *analyzer) prepass(body *ast.BlockStmt) {
	assignCount := map[*types.Var]int{}
	aliasCand := map[*types.Var]*types.Var{}
	var stack []ast.Node
	outer := func() ast.Node { // outermost enclosing loop / closure
		for _, n := range stack {
			switch n.(type) {
			case *ast.ForStmt, *ast.RangeStmt, *ast.FuncLit:
				return n
			}
		}
		return nil
	}
	killAt := func(v *types.Var, p token.Pos) {
		if old, ok := a.kill[v]; !ok || p < old {
			a.kill[v] = p
		}
	}
	ast.Inspect(body, func(n ast.Node) bool {
		if n == nil {
			stack = stack[:len(stack)-1]
			return true
		}
		stack = append(stack, n)
		switch x := n.(type) {
		case *ast.AssignStmt:
			for i, l := range x.Lhs {
				id, ok := unparen(l).(*ast.Ident)
				if !ok {
					continue
				}
				var v *types.Var
				isDef := false
				if d, ok := a.info.Defs[id].(*types.Var); ok && d != nil {
					v, isDef = d, true
				} else if u, ok := a.info.Uses[id].(*types.Var); ok {
					v = u
				}
				if v == nil {
					continue
				}
				assignCount[v]++
				if isByteSlice(v.Type()) && !isDef {
					if o := outer(); o != nil {
						killAt(v, o.Pos())
					} else {
						killAt(v, x.End())
					}
				}
				if isByteSlice(v.Type()) && isDef {
					if o := outer(); o != nil {
						// a slice defined inside a loop is re-defined on every iteration: fine, its
						// bounds are re-established by the guards that follow the definition
						_ = o
					}
				}
				if len(x.Lhs) == len(x.Rhs) {
					aliasCand[v] = nil
					save := a.lenAlias
					a.lenAlias = map[*types.Var]*types.Var{}
					if lv := a.lenOf(x.Rhs[i]); lv != nil {
						aliasCand[v] = lv
					}
					a.lenAlias = save
				}
			}
		case *ast.ValueSpec:
			for i, id := range x.Names {
				if v, ok := a.info.Defs[id].(*types.Var); ok && v != nil {
					assignCount[v]++
					if i < len(x.Values) {
						save := a.lenAlias
						a.lenAlias = map[*types.Var]*types.Var{}
						if lv := a.lenOf(x.Values[i]); lv != nil {
							aliasCand[v] = lv
						}
						a.lenAlias = save
					}
				}
			}
		case *ast.IncDecStmt:
			if v := a.varOf(x.X); v != nil {
				assignCount[v] += 2
			}
		case *ast.FuncLit:
			for _, v := range a.assignedIn(x.Body) {
				a.addrTaken[v] = true
			}
		case *ast.UnaryExpr:
			if x.Op == token.AND {
				if v := a.varOf(x.X); v != nil {
					assignCount[v] += 2
					a.addrTaken[v] = true
					if isByteSlice(v.Type()) {
						killAt(v, body.Pos())
					}
				}
			}
		case *ast.RangeStmt:
			for _, e := range []ast.Expr{x.Key, x.Value} {
				if e != nil {
					if v := a.varOf(e); v != nil {
						assignCount[v] += 2
					}
				}
			}
		}
		return true
	})
	for v, x := range aliasCand {
		// an alias is only trusted when the variable is assigned exactly once and the slice it
		// measures is never reassigned
		if x != nil && assignCount[v] == 1 {
			if _, killed := a.kill[x]; !killed {
				a.lenAlias[v] = x
			}
		}
	}
}

func analyze(fi funcInfo) ([]vc, int) {
	a := &analyzer{fi: fi, info: fi.pkg.TypesInfo, fset: fi.pkg.Fset, kill: map[*types.Var]token.Pos{},
		lenAlias: map[*types.Var]*types.Var{}, occ: map[string]int{}, seen: map[ast.Node]bool{}, addrTaken: map[*types.Var]bool{}}
	a.prepass(fi.decl.Body)
	a.block(fi.decl.Body.List, newEnv())
	return a.vcs, a.unclassified
}

func genBounds(fs []funcInfo) (lean, cands string) {
	knownBad, kbWhy := listFile(knownBadTxt)
	outside, _ := listFile(outsideTxt)
	isOutside := map[string]bool{}
	for _, o := range outside {
		isOutside[o] = true
	}
	isKB := map[string]bool{}
	for _, k := range knownBad {
		isKB[k] = true
	}
	var all []vc
	uncl := 0
	nOutside := 0
	for _, f := range fs {
		vcs, u := analyze(f)
		uncl += u
		for _, v := range vcs {
			if isOutside[v.id] {
				nOutside++
				continue
			}
			all = append(all, v)
		}
	}
	holds := func(v vc) bool {
		if v.strict {
			return v.idx < v.minLen
		}
		return v.idx <= v.minLen
	}
	var sb strings.Builder
	sb.WriteString("/- GENERATED by /verif/extract (x-facts) from the repository's current source. DO NOT EDIT.\n")
	sb.WriteString("   Min-length verification conditions of every decoder body of package layers (see extract/cmd/x-facts/bounds.go). -/\n")
	sb.WriteString("namespace Gp.Gen.BoundsVCs\n\n")
	sb.WriteString("structure BoundsVC where\n  id : String\n  fn : String\n  file : String\n  line : Nat\n  kind : String\n")
	sb.WriteString("  /-- index: idx < minLen must hold; slice/binary: idx ≤ minLen -/\n  strict : Bool\n  idx : Nat\n  /-- lower bound of len(x) established by the guards that dominate the access -/\n  minLen : Nat\nderiving Repr\n\n")
	sb.WriteString("def BoundsVC.holds (v : BoundsVC) : Bool :=\n  if v.strict then decide (v.idx < v.minLen) else decide (v.idx ≤ v.minLen)\n\n")
	const chunk = 100
	nch := (len(all) + chunk - 1) / chunk
	for c := 0; c < nch; c++ {
		fmt.Fprintf(&sb, "def boundsVCs_%d : List BoundsVC := [\n", c)
		hi := min(len(all), (c+1)*chunk)
		for i := c * chunk; i < hi; i++ {
			v := all[i]
			sep := ","
			if i == hi-1 {
				sep = ""
			}
			fmt.Fprintf(&sb, "  ⟨%s, %s, %s, %d, %s, %s, %d, %d⟩%s\n", lstr(v.id), lstr(v.fn), lstr(v.file), v.line, lstr(v.kind), lbool(v.strict), v.idx, v.minLen, sep)
		}
		sb.WriteString("]\n\n")
	}
	sb.WriteString("def boundsVCChunks : List (List BoundsVC) := [")
	for c := 0; c < nch; c++ {
		if c > 0 {
			sb.WriteString(", ")
		}
		fmt.Fprintf(&sb, "boundsVCs_%d", c)
	}
	sb.WriteString("]\n\n")
	sb.WriteString("def boundsVCs : List BoundsVC := boundsVCChunks.flatten\n\n")
	sb.WriteString("/-- VC ids of accesses that are genuinely unguarded in the tree and are recorded as known findings\n    (extract/cmd/x-facts/known_bad.txt). -/\n")
	sb.WriteString("def knownBad : List String := [\n")
	for i, k := range knownBad {
		sep := ","
		if i == len(knownBad)-1 {
			sep = ""
		}
		fmt.Fprintf(&sb, "  %s%s  -- %s\n", lstr(k), sep, kbWhy[k])
	}
	sb.WriteString("]\n\n")
	fmt.Fprintf(&sb, "/-- index/slice expressions on byte slices the pass cannot classify (computed bounds, after a reassignment,\n    through fields/pointers, in closures) plus %d VCs guarded by reasoning outside the pass\n    (outside_analysis.txt): counted, NOT claimed. -/\n", nOutside)
	fmt.Fprintf(&sb, "def unclassifiedCount : Nat := %d\n\n", uncl+nOutside)
	fmt.Fprintf(&sb, "def classifiedCount : Nat := %d\n\n", len(all))
	fmt.Fprintf(&sb, "def analysedFunctions : Nat := %d\n\nend Gp.Gen.BoundsVCs\n", len(fs))

	// candidates for every VC that does not hold
	var cb strings.Builder
	cb.WriteString("# GENERATED by x-facts: <fn> <recv or -> <minLen> <idx> <id>   (bounds VCs that do not hold; * = listed in known_bad.txt)\n")
	var lines []string
	for _, v := range all {
		if holds(v) {
			continue
		}
		r := v.recv
		if r == "" {
			r = "-"
		}
		fn := v.fn
		if i := strings.LastIndex(fn, "."); i >= 0 {
			fn = fn[i+1:]
		}
		star := ""
		if isKB[v.id] {
			star = " *"
		}
		lines = append(lines, fmt.Sprintf("%s %s %d %d %s%s", fn, r, v.minLen, v.idx, strings.ReplaceAll(v.id, " ", ""), star))
	}
	sort.Strings(lines)
	for _, l := range lines {
		cb.WriteString(l + "\n")
	}
	nbad := 0
	for _, v := range all {
		if !holds(v) && !isKB[v.id] {
			nbad++
			fmt.Printf("FAILING-VC %s  (%s:%d idx=%d minLen=%d)\n", v.id, v.file, v.line, v.idx, v.minLen)
		}
	}
	fmt.Printf("bounds: %d functions, %d VCs (%d hold), %d unclassified, %d failing unlisted\n", len(fs), len(all), len(all)-len(lines), uncl+nOutside, nbad)
	return sb.String(), cb.String()
}
