package main

// GlobalWrites (DESIGN.md §2.3, C02): package-level variables of gopacket and gopacket/layers that
// are written — assigned directly, through an element/field, by append, ++/--, delete() or as the
// destination of copy() — inside a function that can run after package initialisation.
// Functions named init, and unexported functions that are referenced ONLY from init functions /
// package-level initialisers / other such functions (e.g. layers.initActualTypeData), are
// initialisation code and are excluded.

import (
	"fmt"
	"go/ast"
	"go/token"
	"go/types"
	"sort"
	"strings"

	"golang.org/x/tools/go/packages"
)

type gwrite struct {
	v, fn, file string
	line        int
}

func rootIdent(e ast.Expr) *ast.Ident {
	for {
		switch x := e.(type) {
		case *ast.Ident:
			return x
		case *ast.ParenExpr:
			e = x.X
		case *ast.IndexExpr:
			e = x.X
		case *ast.SliceExpr:
			e = x.X
		case *ast.StarExpr:
			e = x.X
		case *ast.SelectorExpr:
			// pkg.Var or value.field: for a qualified identifier the Sel is the variable
			if id, ok := x.X.(*ast.Ident); ok {
				_ = id
			}
			e = x.X
		default:
			return nil
		}
	}
}

func genGlobalWrites(pkgs []*packages.Package, repo string) string {
	isOurs := map[*types.Package]bool{}
	for _, p := range pkgs {
		isOurs[p.Types] = true
	}
	var writes []gwrite
	for _, p := range pkgs {
		info := p.TypesInfo
		short := p.Types.Name()
		pkgVar := func(e ast.Expr) *types.Var {
			// qualified identifier otherpkg.Var
			if sel, ok := e.(*ast.SelectorExpr); ok {
				if id, ok := sel.X.(*ast.Ident); ok {
					if _, isPkg := info.Uses[id].(*types.PkgName); isPkg {
						if v, ok := info.Uses[sel.Sel].(*types.Var); ok && v.Pkg() != nil && isOurs[v.Pkg()] && v.Parent() == v.Pkg().Scope() {
							return v
						}
						return nil
					}
				}
			}
			id := rootIdent(e)
			if id == nil {
				return nil
			}
			v, ok := info.Uses[id].(*types.Var)
			if !ok || v.Pkg() == nil || !isOurs[v.Pkg()] || v.Parent() != v.Pkg().Scope() {
				return nil
			}
			return v
		}
		// stripped: the root variable of an lvalue, also through selector chains on package vars
		lvalueVar := func(e ast.Expr) *types.Var {
			for {
				if v := pkgVar(e); v != nil {
					return v
				}
				switch x := e.(type) {
				case *ast.ParenExpr:
					e = x.X
				case *ast.IndexExpr:
					e = x.X
				case *ast.SliceExpr:
					e = x.X
				case *ast.StarExpr:
					e = x.X
				case *ast.SelectorExpr:
					e = x.X
				default:
					return nil
				}
			}
		}

		// ---- which functions are initialisation-only
		type fn struct {
			decl *ast.FuncDecl
			obj  *types.Func
		}
		var funcs []fn
		declOf := map[*types.Func]*ast.FuncDecl{}
		for _, f := range p.Syntax {
			if strings.HasSuffix(p.Fset.Position(f.Pos()).Filename, "_test.go") {
				continue
			}
			for _, d := range f.Decls {
				if fd, ok := d.(*ast.FuncDecl); ok && fd.Body != nil {
					if obj, ok := info.Defs[fd.Name].(*types.Func); ok {
						funcs = append(funcs, fn{fd, obj})
						declOf[obj] = fd
					}
				}
			}
		}
		// references: for each unexported top-level function, the set of enclosing functions (nil = package-level initialiser)
		refs := map[*types.Func]map[*types.Func]bool{}
		pkgLevelRef := map[*types.Func]bool{}
		for _, f := range p.Syntax {
			for _, d := range f.Decls {
				var encl *types.Func
				switch x := d.(type) {
				case *ast.FuncDecl:
					encl, _ = info.Defs[x.Name].(*types.Func)
				}
				ast.Inspect(d, func(n ast.Node) bool {
					id, ok := n.(*ast.Ident)
					if !ok {
						return true
					}
					if fo, ok := info.Uses[id].(*types.Func); ok && declOf[fo] != nil {
						if encl == nil {
							pkgLevelRef[fo] = true
						} else {
							if refs[fo] == nil {
								refs[fo] = map[*types.Func]bool{}
							}
							refs[fo][encl] = true
						}
					}
					return true
				})
			}
		}
		initOnly := map[*types.Func]bool{}
		for _, f := range funcs {
			if f.decl.Recv == nil && f.decl.Name.Name == "init" {
				initOnly[f.obj] = true
			}
		}
		for changed := true; changed; {
			changed = false
			for _, f := range funcs {
				if initOnly[f.obj] || f.obj.Exported() || f.decl.Recv != nil {
					continue
				}
				rs := refs[f.obj]
				if len(rs) == 0 && !pkgLevelRef[f.obj] {
					continue // unreferenced: keep as runtime (conservative)
				}
				ok := true
				for r := range rs {
					if !initOnly[r] {
						ok = false
					}
				}
				if ok {
					initOnly[f.obj] = true
					changed = true
				}
			}
		}

		for _, f := range funcs {
			if initOnly[f.obj] {
				continue
			}
			name := f.decl.Name.Name
			if r := recvName(f.decl); r != "" {
				name = r + "." + name
			}
			name = short + "." + name
			add := func(v *types.Var, pos token.Pos) {
				file, line := relFile(repo, p.Fset, pos)
				writes = append(writes, gwrite{v.Pkg().Name() + "." + v.Name(), name, file, line})
			}
			ast.Inspect(f.decl.Body, func(n ast.Node) bool {
				switch x := n.(type) {
				case *ast.AssignStmt:
					if x.Tok == token.DEFINE {
						// := never assigns a package-level variable … unless it redeclares nothing of ours
						for _, l := range x.Lhs {
							if id, ok := l.(*ast.Ident); ok {
								if v, ok := info.Uses[id].(*types.Var); ok && v.Pkg() != nil && isOurs[v.Pkg()] && v.Parent() == v.Pkg().Scope() {
									add(v, x.Pos())
								}
							}
						}
						return true
					}
					for _, l := range x.Lhs {
						if v := lvalueVar(l); v != nil {
							add(v, x.Pos())
						}
					}
				case *ast.IncDecStmt:
					if v := lvalueVar(x.X); v != nil {
						add(v, x.Pos())
					}
				case *ast.CallExpr:
					if id, ok := x.Fun.(*ast.Ident); ok && len(x.Args) > 0 {
						if _, isB := info.Uses[id].(*types.Builtin); isB && (id.Name == "delete" || id.Name == "copy" || id.Name == "clear") {
							if v := lvalueVar(x.Args[0]); v != nil {
								add(v, x.Pos())
							}
						}
					}
				case *ast.RangeStmt:
					if x.Tok == token.ASSIGN {
						for _, e := range []ast.Expr{x.Key, x.Value} {
							if e != nil {
								if v := lvalueVar(e); v != nil {
									add(v, x.Pos())
								}
							}
						}
					}
				}
				return true
			})
		}
	}
	sort.Slice(writes, func(i, j int) bool {
		if writes[i].v != writes[j].v {
			return writes[i].v < writes[j].v
		}
		if writes[i].fn != writes[j].fn {
			return writes[i].fn < writes[j].fn
		}
		return writes[i].line < writes[j].line
	})
	var sb strings.Builder
	sb.WriteString("/- GENERATED by /verif/extract (x-facts) from the repository's current source. DO NOT EDIT.\n")
	sb.WriteString("   Package-level variables of gopacket and gopacket/layers written outside init()/package initialisers:\n")
	sb.WriteString("   (variable, enclosing function).  See extract/cmd/x-facts/globals.go for what counts as a write. -/\n")
	sb.WriteString("namespace Gp.Gen.GlobalWrites\n\n")
	sb.WriteString("def runtimeGlobalWrites : List (String × String) := [\n")
	seen := map[string]bool{}
	var rows []string
	for _, w := range writes {
		k := w.v + "\x00" + w.fn
		if seen[k] {
			continue
		}
		seen[k] = true
		rows = append(rows, fmt.Sprintf("  (%s, %s)", lstr(w.v), lstr(w.fn))+"\x00"+fmt.Sprintf("  -- %s:%d", w.file, w.line))
	}
	for i, r := range rows {
		parts := strings.SplitN(r, "\x00", 2)
		sep := ","
		if i == len(rows)-1 {
			sep = ""
		}
		sb.WriteString(parts[0] + sep + parts[1] + "\n")
	}
	sb.WriteString("]\n\nend Gp.Gen.GlobalWrites\n")
	fmt.Printf("globals: %d runtime writes of package-level variables\n", len(rows))
	return sb.String()
}
