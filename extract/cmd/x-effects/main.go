// x-effects: T-tie of the C02 effect model (lean/Gp/Model/Effects.lean) to the CURRENT source.
//
//	x-effects --repo /repo --out /verif/lean/Gp/Gen
//
// Writes Gp/Gen/Effects.lean with *syntactic facts* about the places where checksum verification
// touches memory, so that the Lean model runs the code AS IT IS NOW and the theorem
// `verify_checksum_readonly` is re-checked against it on every run:
//
//   - for each of TCP/UDP/ICMPv4/ICMPv6/GRE.VerifyChecksum and TCP.ComputeChecksum: how the first
//     operand of the concatenating `append(X, <recv>.Payload...)` is written —
//     plain   X = <recv>.Contents                          (append may write in place: spare capacity)
//     capped  X = <recv>.Contents[:len(<recv>.Contents):len(<recv>.Contents)]  (append must allocate)
//     unknown anything else (treated like plain by the model = worst case; DRIFT is printed)
//   - whether IPv4/IPv6.pseudoheaderChecksum (called from every TCP/UDP/ICMPv6 verification) assigns
//     fields of its receiver, directly or through AddressTo4/AddressTo16;
//   - the constant maximumMTU (size of a pool block, packet.go).
//
// Pure go/parser work (no type checking needed).  Contract of extractor binaries: the file is only
// rewritten when its content changes; a missing anchor prints a DRIFT line and exits 3; hard errors exit 2.
package main

import (
	"flag"
	"fmt"
	"go/ast"
	"go/parser"
	"go/token"
	"os"
	"path/filepath"
	"strings"
)

var drift []string

func parse(repo, rel string) *ast.File {
	fs := token.NewFileSet()
	f, err := parser.ParseFile(fs, filepath.Join(repo, rel), nil, 0)
	if err != nil {
		fmt.Println("ERROR", err)
		os.Exit(2)
	}
	return f
}

// method returns the declaration of func (x *Recv) Name or func (x Recv) Name, and the receiver's name.
func method(f *ast.File, recv, name string) (*ast.FuncDecl, string) {
	for _, d := range f.Decls {
		fd, ok := d.(*ast.FuncDecl)
		if !ok || fd.Name.Name != name || fd.Recv == nil || len(fd.Recv.List) != 1 {
			continue
		}
		t := fd.Recv.List[0].Type
		if st, ok := t.(*ast.StarExpr); ok {
			t = st.X
		}
		if id, ok := t.(*ast.Ident); ok && id.Name == recv {
			rn := "_"
			if len(fd.Recv.List[0].Names) == 1 {
				rn = fd.Recv.List[0].Names[0].Name
			}
			return fd, rn
		}
	}
	return nil, ""
}

func isSel(e ast.Expr, recv, field string) bool {
	s, ok := e.(*ast.SelectorExpr)
	if !ok || s.Sel.Name != field {
		return false
	}
	id, ok := s.X.(*ast.Ident)
	return ok && id.Name == recv
}

func isLenOf(e ast.Expr, recv, field string) bool {
	c, ok := e.(*ast.CallExpr)
	if !ok || len(c.Args) != 1 {
		return false
	}
	id, ok := c.Fun.(*ast.Ident)
	return ok && id.Name == "len" && isSel(c.Args[0], recv, field)
}

// appendDst classifies the concatenating append of a checksum function.
func appendDst(f *ast.File, recv, name string) string {
	fd, rn := method(f, recv, name)
	anchor := recv + "." + name
	if fd == nil || fd.Body == nil {
		drift = append(drift, "function "+anchor+" not found")
		return "unknown"
	}
	res, found := "unknown", 0
	ast.Inspect(fd.Body, func(n ast.Node) bool {
		c, ok := n.(*ast.CallExpr)
		if !ok || len(c.Args) != 2 || !c.Ellipsis.IsValid() {
			return true
		}
		if id, ok := c.Fun.(*ast.Ident); !ok || id.Name != "append" {
			return true
		}
		if !isSel(c.Args[1], rn, "Payload") {
			return true
		}
		found++
		switch x := c.Args[0].(type) {
		case *ast.SelectorExpr:
			if isSel(x, rn, "Contents") {
				res = "plain"
			}
		case *ast.SliceExpr:
			if x.Slice3 && isSel(x.X, rn, "Contents") && x.Low == nil && isLenOf(x.High, rn, "Contents") && isLenOf(x.Max, rn, "Contents") {
				res = "capped"
			}
		}
		return true
	})
	if found != 1 {
		drift = append(drift, fmt.Sprintf("%s: expected exactly one append(X, %s.Payload...), found %d", anchor, rn, found))
		return "unknown"
	}
	if res == "unknown" {
		drift = append(drift, anchor+": first operand of the concatenating append has an unrecognised shape")
	}
	return res
}

// assignsReceiver: does the body assign to a field of the receiver (x.F = …, x.F[i] = …, x.F op= …, x.F++)?
func assignsReceiver(fd *ast.FuncDecl, rn string) bool {
	hit := false
	var root func(e ast.Expr) bool
	root = func(e ast.Expr) bool {
		switch x := e.(type) {
		case *ast.SelectorExpr:
			if id, ok := x.X.(*ast.Ident); ok && id.Name == rn {
				return true
			}
			return root(x.X)
		case *ast.IndexExpr:
			return root(x.X)
		case *ast.SliceExpr:
			return root(x.X)
		case *ast.StarExpr:
			return root(x.X)
		case *ast.ParenExpr:
			return root(x.X)
		}
		return false
	}
	ast.Inspect(fd.Body, func(n ast.Node) bool {
		switch s := n.(type) {
		case *ast.AssignStmt:
			if s.Tok != token.DEFINE {
				for _, l := range s.Lhs {
					hit = hit || root(l)
				}
			}
		case *ast.IncDecStmt:
			hit = hit || root(s.X)
		}
		return true
	})
	return hit
}

func callsMethod(fd *ast.FuncDecl, rn, name string) bool {
	hit := false
	ast.Inspect(fd.Body, func(n ast.Node) bool {
		if c, ok := n.(*ast.CallExpr); ok && isSel(c.Fun, rn, name) {
			hit = true
		}
		return true
	})
	return hit
}

// pseudoWrites: does <recv>.pseudoheaderChecksum write fields of the layer (directly or via conv)?
func pseudoWrites(tcpip, home *ast.File, recv, conv string) bool {
	fd, rn := method(tcpip, recv, "pseudoheaderChecksum")
	if fd == nil || fd.Body == nil {
		drift = append(drift, "function "+recv+".pseudoheaderChecksum not found")
		return true // worst case
	}
	if assignsReceiver(fd, rn) {
		return true
	}
	if callsMethod(fd, rn, conv) {
		cd, crn := method(home, recv, conv)
		if cd == nil || cd.Body == nil {
			drift = append(drift, "function "+recv+"."+conv+" not found")
			return true
		}
		return assignsReceiver(cd, crn)
	}
	return false
}

func constInt(f *ast.File, name string) (string, bool) {
	for _, d := range f.Decls {
		gd, ok := d.(*ast.GenDecl)
		if !ok || gd.Tok != token.CONST {
			continue
		}
		for _, s := range gd.Specs {
			vs := s.(*ast.ValueSpec)
			for i, n := range vs.Names {
				if n.Name == name && i < len(vs.Values) {
					if bl, ok := vs.Values[i].(*ast.BasicLit); ok && bl.Kind == token.INT {
						return bl.Value, true
					}
				}
			}
		}
	}
	return "", false
}

func main() {
	repo := flag.String("repo", "/repo", "")
	out := flag.String("out", "", "")
	flag.Parse()
	if *out == "" {
		fmt.Println("ERROR --out required")
		os.Exit(2)
	}
	tcp, udp := parse(*repo, "layers/tcp.go"), parse(*repo, "layers/udp.go")
	ic4, ic6, gre := parse(*repo, "layers/icmp4.go"), parse(*repo, "layers/icmp6.go"), parse(*repo, "layers/gre.go")
	tcpip, ip4, ip6 := parse(*repo, "layers/tcpip.go"), parse(*repo, "layers/ip4.go"), parse(*repo, "layers/ip6.go")
	pkt := parse(*repo, "packet.go")

	var sb strings.Builder
	sb.WriteString("/- GENERATED by /verif/extract (x-effects) from the repository's current source. DO NOT EDIT. -/\n")
	sb.WriteString("namespace Gp.Gen.Effects\n\n")
	sb.WriteString("/-- How the first operand X of `append(X, l.Payload...)` is written in a checksum function:\n")
	sb.WriteString("    `plain` = `l.Contents`, `capped` = `l.Contents[:len(l.Contents):len(l.Contents)]`, `unknown` = other. -/\n")
	sb.WriteString("inductive AppendDst where\n  | plain | capped | unknown\n  deriving DecidableEq, Repr, Inhabited\n\n")
	mtu, ok := constInt(pkt, "maximumMTU")
	if !ok {
		drift = append(drift, "constant maximumMTU not found in packet.go")
		mtu = "1500"
	}
	fmt.Fprintf(&sb, "/-- packet.go: maximumMTU (size of a pool block) -/\ndef maximumMTU : Nat := %s\n\n", mtu)
	for _, s := range []struct {
		f          *ast.File
		recv, name string
		lean, src  string
	}{
		{tcp, "TCP", "VerifyChecksum", "tcpVerifyAppend", "layers/tcp.go"},
		{udp, "UDP", "VerifyChecksum", "udpVerifyAppend", "layers/udp.go"},
		{ic4, "ICMPv4", "VerifyChecksum", "icmp4VerifyAppend", "layers/icmp4.go"},
		{ic6, "ICMPv6", "VerifyChecksum", "icmp6VerifyAppend", "layers/icmp6.go"},
		{gre, "GRE", "VerifyChecksum", "greVerifyAppend", "layers/gre.go"},
		{tcp, "TCP", "ComputeChecksum", "tcpComputeAppend", "layers/tcp.go"},
	} {
		fmt.Fprintf(&sb, "/-- %s: %s.%s -/\ndef %s : AppendDst := .%s\n\n", s.src, s.recv, s.name, s.lean, appendDst(s.f, s.recv, s.name))
	}
	fmt.Fprintf(&sb, "/-- layers/tcpip.go: IPv4.pseudoheaderChecksum assigns fields of the IPv4 layer (directly or via AddressTo4) -/\ndef ip4PseudoWritesLayer : Bool := %v\n\n", pseudoWrites(tcpip, ip4, "IPv4", "AddressTo4"))
	fmt.Fprintf(&sb, "/-- layers/tcpip.go: IPv6.pseudoheaderChecksum assigns fields of the IPv6 layer (directly or via AddressTo16) -/\ndef ip6PseudoWritesLayer : Bool := %v\n\n", pseudoWrites(tcpip, ip6, "IPv6", "AddressTo16"))
	sb.WriteString("end Gp.Gen.Effects\n")

	target := filepath.Join(*out, "Effects.lean")
	res := sb.String()
	if prev, err := os.ReadFile(target); err != nil || string(prev) != res {
		if err := os.WriteFile(target, []byte(res), 0o644); err != nil {
			fmt.Println("ERROR", err)
			os.Exit(2)
		}
		fmt.Println("wrote", target)
	} else {
		fmt.Println("unchanged", target)
	}
	for _, d := range drift {
		fmt.Println("DRIFT", d)
	}
	if len(drift) > 0 {
		os.Exit(3)
	}
}
