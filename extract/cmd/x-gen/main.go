package main

func main() { run() }
