// x-dlp: T-tie of the parser model (lean/Gp/Model/Parser.lean, engine dlp, property C05) to the
// CURRENT source.
//
//	x-dlp --repo /repo --out /verif/lean/Gp/Gen
//
// Writes Gp/Gen/Dlp.lean with syntactic facts:
//
//   - layers_decoder.go: the function literals inside LayersDecoder that contain the decode loop are
//     located (the generated file has one per provided container type plus the generic one); their
//     bodies are printed with go/printer and the identifier of the container variable (bound by
//     `if dlc, ok := dl.(T); ok` resp. `dlc := dl`) is replaced by a placeholder.  `loopCopiesIdentical`
//     says whether all normalised bodies are the same text, so that the ONE loop modelled in Lean stands
//     for all of them; `loopAssertedTypes` lists the asserted container types in order.  The normalised
//     body is also compared with the text the model was transcribed from (DRIFT if different).
//   - the decode functions NewPacket uses for the common stack (decodeEthernet, decodeDot1Q, decodeIPv4,
//     decodeIPv6, decodeTCP, decodeUDP, decodeDNS, gopacket.decodePayload) and layers.decodingLayerDecoder:
//     the shape `d := &T{}; err := d.DecodeFromBytes(data, p); … AddLayer … ; return p.NextDecoder(…)`
//     with the flags the model's `RegEntry.std` carries (is AddLayer reached when DecodeFromBytes
//     failed; is LayerTypeZero tested before NextDecoder; what is handed to NextDecoder).
//
// Pure go/parser work.  Contract of extractor binaries: the file is only rewritten when its content
// changes; a missing anchor prints a DRIFT line and exits 3; hard errors exit 2.
package main

import (
	"bytes"
	"crypto/sha1"
	"flag"
	"fmt"
	"go/ast"
	"go/parser"
	"go/printer"
	"go/token"
	"os"
	"path/filepath"
	"strings"
)

var drift []string

// the loop body Gp.Parser.loop was transcribed from (container variable = ‹C›)
const modelledLoop = `{
	*decoded = (*decoded)[:0]
	typ := first
	decoder := firstDec
	for {
		if err := decoder.DecodeFromBytes(data, df); err != nil {
			return LayerTypeZero, err
		}
		*decoded = append(*decoded, typ)
		typ = decoder.NextLayerType()
		if data = decoder.LayerPayload(); len(data) == 0 {
			break
		}
		if decoder, ok = ‹C›.Decoder(typ); !ok {
			return typ, nil
		}
	}
	return LayerTypeZero, nil
}`

func parse(fs *token.FileSet, repo, rel string) *ast.File {
	f, err := parser.ParseFile(fs, filepath.Join(repo, rel), nil, 0)
	if err != nil {
		fmt.Println("ERROR", err)
		os.Exit(2)
	}
	return f
}

func funcDecl(f *ast.File, name string) *ast.FuncDecl {
	for _, d := range f.Decls {
		if fd, ok := d.(*ast.FuncDecl); ok && fd.Recv == nil && fd.Name.Name == name {
			return fd
		}
	}
	return nil
}

func printNode(fs *token.FileSet, n ast.Node) string {
	var b bytes.Buffer
	cfg := printer.Config{Mode: printer.RawFormat, Tabwidth: 8}
	if err := cfg.Fprint(&b, fs, n); err != nil {
		fmt.Println("ERROR", err)
		os.Exit(2)
	}
	return b.String()
}

// rename every identifier `from` in n to `to` (on a copy-free basis: restored by the caller)
func renameIdents(n ast.Node, from, to string) []*ast.Ident {
	var changed []*ast.Ident
	ast.Inspect(n, func(x ast.Node) bool {
		if id, ok := x.(*ast.Ident); ok && id.Name == from {
			id.Name = to
			changed = append(changed, id)
		}
		return true
	})
	return changed
}

func hasFor(n ast.Node) bool {
	found := false
	ast.Inspect(n, func(x ast.Node) bool {
		if _, ok := x.(*ast.ForStmt); ok {
			found = true
		}
		return !found
	})
	return found
}

// returned function literal of a statement list (the last `return func…`)
func returnedLit(stmts []ast.Stmt) *ast.FuncLit {
	for _, s := range stmts {
		if r, ok := s.(*ast.ReturnStmt); ok && len(r.Results) == 1 {
			if fl, ok := r.Results[0].(*ast.FuncLit); ok {
				return fl
			}
		}
	}
	return nil
}

type loopCopy struct {
	asserted string // container type asserted, "" for the generic copy
	cvar     string
	text     string
}

func normaliseWS(s string) string {
	lines := strings.Split(s, "\n")
	for i, l := range lines {
		// drop trailing comments and trailing blanks
		if j := strings.Index(l, "//"); j >= 0 {
			l = l[:j]
		}
		lines[i] = strings.TrimRight(l, " \t")
	}
	return strings.Join(lines, "\n")
}

func loopCopies(fs *token.FileSet, f *ast.File) []loopCopy {
	fd := funcDecl(f, "LayersDecoder")
	if fd == nil {
		drift = append(drift, "layers_decoder.go: func LayersDecoder not found")
		return nil
	}
	var out []loopCopy
	generic := ""
	for _, s := range fd.Body.List {
		switch st := s.(type) {
		case *ast.IfStmt:
			// if dlc, ok := dl.(T); ok { return func… }
			as, ok := st.Init.(*ast.AssignStmt)
			if !ok || len(as.Lhs) != 2 || len(as.Rhs) != 1 {
				continue
			}
			ta, ok := as.Rhs[0].(*ast.TypeAssertExpr)
			if !ok {
				continue
			}
			fl := returnedLit(st.Body.List)
			if fl == nil || !hasFor(fl.Body) {
				continue
			}
			cv := as.Lhs[0].(*ast.Ident).Name
			ch := renameIdents(fl.Body, cv, "‹C›")
			txt := normaliseWS(printNode(fs, fl.Body))
			for _, id := range ch {
				id.Name = cv
			}
			out = append(out, loopCopy{printNode(fs, ta.Type), cv, txt})
		case *ast.AssignStmt:
			// dlc := dl
			if len(st.Lhs) == 1 && len(st.Rhs) == 1 && st.Tok == token.DEFINE {
				if id, ok := st.Lhs[0].(*ast.Ident); ok {
					if r, ok := st.Rhs[0].(*ast.Ident); ok && r.Name == "dl" {
						generic = id.Name
					}
				}
			}
		case *ast.ReturnStmt:
			if len(st.Results) == 1 {
				if fl, ok := st.Results[0].(*ast.FuncLit); ok && hasFor(fl.Body) {
					cv := generic
					if cv == "" {
						cv = "dl"
					}
					ch := renameIdents(fl.Body, cv, "‹C›")
					txt := normaliseWS(printNode(fs, fl.Body))
					for _, id := range ch {
						id.Name = cv
					}
					out = append(out, loopCopy{"", cv, txt})
				}
			}
		}
	}
	return out
}

// ---------------------------------------------------------------- decode wrappers

type wrapper struct {
	name, file string
	found      bool
	delegates  bool   // return decodingLayerDecoder(d, data, p)
	addOnErr   bool   // AddLayer is reached when DecodeFromBytes returned an error
	zeroStops  bool   // `if next == gopacket.LayerTypeZero { return nil }` before NextDecoder
	next       string // what is handed to NextDecoder: "NextLayerType", "none" (no NextDecoder call), or the expression text
	extraAdd   bool   // more than one AddLayer call (decodeIPv6 adds the hop-by-hop header too)
	std        bool   // the function has the modelled shape at all
}

func callName(e ast.Expr) (recv, name string, call *ast.CallExpr) {
	c, ok := e.(*ast.CallExpr)
	if !ok {
		return "", "", nil
	}
	switch f := c.Fun.(type) {
	case *ast.SelectorExpr:
		if id, ok := f.X.(*ast.Ident); ok {
			return id.Name, f.Sel.Name, c
		}
		return "?", f.Sel.Name, c
	case *ast.Ident:
		return "", f.Name, c
	}
	return "", "", nil
}

func classify(fs *token.FileSet, f *ast.File, file, name string) wrapper {
	w := wrapper{name: name, file: file}
	fd := funcDecl(f, name)
	if fd == nil || fd.Body == nil {
		drift = append(drift, file+": func "+name+" not found")
		return w
	}
	w.found = true
	decodeIdx, errCheckIdx, firstAdd, adds := -1, -1, -1, 0
	w.next = "none"
	nexts := 0
	var visit func(stmts []ast.Stmt, top bool)
	idx := 0
	visit = func(stmts []ast.Stmt, top bool) {
		for _, s := range stmts {
			cur := idx
			idx++
			switch st := s.(type) {
			case *ast.AssignStmt:
				if len(st.Rhs) == 1 {
					if _, n, _ := callName(st.Rhs[0]); n == "DecodeFromBytes" && decodeIdx < 0 {
						decodeIdx = cur
					}
				}
			case *ast.ExprStmt:
				if _, n, _ := callName(st.X); n == "AddLayer" {
					adds++
					if firstAdd < 0 && top {
						firstAdd = cur
					}
				}
			case *ast.IfStmt:
				cond := printNode(fs, st.Cond)
				if st.Init != nil {
					if as, ok := st.Init.(*ast.AssignStmt); ok && len(as.Rhs) == 1 {
						if _, n, _ := callName(as.Rhs[0]); n == "DecodeFromBytes" && decodeIdx < 0 {
							decodeIdx = cur
						}
					}
				}
				if cond == "err != nil" && errCheckIdx < 0 && top {
					errCheckIdx = cur
				}
				if strings.Contains(cond, "LayerTypeZero") && strings.Contains(cond, "==") {
					w.zeroStops = true
				}
				visit(st.Body.List, false)
				if st.Else != nil {
					if b, ok := st.Else.(*ast.BlockStmt); ok {
						visit(b.List, false)
					}
				}
			case *ast.ReturnStmt:
				if len(st.Results) == 1 {
					_, n, c := callName(st.Results[0])
					switch n {
					case "NextDecoder":
						nexts++
						arg := printNode(fs, c.Args[0])
						if _, an, _ := callName(c.Args[0]); an == "NextLayerType" {
							arg = "NextLayerType"
						} else if id, ok := c.Args[0].(*ast.Ident); ok && id.Name == "next" {
							arg = "NextLayerType" // next := d.NextLayerType()
						}
						if w.next == "none" || w.next == arg {
							w.next = arg
						} else {
							w.next = w.next + " | " + arg
						}
					case "decodingLayerDecoder":
						w.delegates = true
					}
				}
			}
		}
	}
	visit(fd.Body.List, true)
	w.extraAdd = adds > 1
	if w.delegates {
		w.std = true
		return w
	}
	w.std = decodeIdx >= 0 && errCheckIdx >= decodeIdx && firstAdd > decodeIdx
	w.addOnErr = firstAdd >= 0 && errCheckIdx >= 0 && firstAdd < errCheckIdx
	return w
}

func lstr(s string) string { return `"` + strings.ReplaceAll(strings.ReplaceAll(s, `\`, `\\`), `"`, `\"`) + `"` }

func lbool(b bool) string {
	if b {
		return "true"
	}
	return "false"
}

func main() {
	repo := flag.String("repo", "/repo", "")
	out := flag.String("out", "", "")
	flag.Parse()
	if *out == "" {
		fmt.Println("ERROR --out required")
		os.Exit(2)
	}
	fs := token.NewFileSet()
	ld := parse(fs, *repo, "layers_decoder.go")
	copies := loopCopies(fs, ld)
	identical := len(copies) > 0
	for _, c := range copies {
		if c.text != copies[0].text {
			identical = false
		}
	}
	var asserted []string
	generic := 0
	for _, c := range copies {
		if c.asserted == "" {
			generic++
		} else {
			asserted = append(asserted, c.asserted)
		}
	}
	body := ""
	if len(copies) > 0 {
		body = copies[0].text
	}
	sha := fmt.Sprintf("%x", sha1.Sum([]byte(body)))[:16]
	want := normaliseWS(modelledLoop)
	matches := body == want
	if !matches {
		drift = append(drift, "layers_decoder.go: the decode loop differs from the text the Lean model was transcribed from")
	}

	type target struct{ file, name string }
	targets := []target{
		{"layers/base.go", "decodingLayerDecoder"},
		{"layers/ethernet.go", "decodeEthernet"},
		{"layers/dot1q.go", "decodeDot1Q"},
		{"layers/ip4.go", "decodeIPv4"},
		{"layers/ip6.go", "decodeIPv6"},
		{"layers/tcp.go", "decodeTCP"},
		{"layers/udp.go", "decodeUDP"},
		{"layers/dns.go", "decodeDNS"},
		{"base.go", "decodePayload"},
	}
	var ws []wrapper
	for _, t := range targets {
		f := parse(fs, *repo, t.file)
		if t.name == "decodingLayerDecoder" {
			// the wrapper itself: DecodeFromBytes; err → return; AddLayer; Zero test; NextDecoder(next)
			w := classify(fs, f, t.file, t.name)
			w.delegates = false
			ws = append(ws, w)
			continue
		}
		ws = append(ws, classify(fs, f, t.file, t.name))
	}

	var b strings.Builder
	b.WriteString("/- GENERATED by /verif/extract (x-dlp) from the repository's current source. DO NOT EDIT.\n")
	b.WriteString("   Facts about layers_decoder.go (the copies of the decode loop) and about the decode functions\n")
	b.WriteString("   NewPacket uses for the common stack. -/\n")
	b.WriteString("namespace Gp.Gen.Dlp\n\n")
	b.WriteString("/-- number of function literals in LayersDecoder that contain the decode loop -/\n")
	fmt.Fprintf(&b, "def loopCopies : Nat := %d\n\n", len(copies))
	b.WriteString("/-- container types asserted by the specialised copies, in source order -/\n")
	var as []string
	for _, a := range asserted {
		as = append(as, lstr(a))
	}
	fmt.Fprintf(&b, "def loopAssertedTypes : List String := [%s]\n\n", strings.Join(as, ", "))
	fmt.Fprintf(&b, "def loopGenericCopies : Nat := %d\n\n", generic)
	b.WriteString("/-- all copies are the same text once the container variable is replaced by a placeholder -/\n")
	fmt.Fprintf(&b, "def loopCopiesIdentical : Bool := %s\n\n", lbool(identical))
	b.WriteString("/-- the (normalised) loop is the text Gp.Parser.loop was transcribed from -/\n")
	fmt.Fprintf(&b, "def loopMatchesModel : Bool := %s\n\n", lbool(matches))
	fmt.Fprintf(&b, "def loopBodySha : String := %s\n\n", lstr(sha))
	b.WriteString("structure Wrapper where\n  name : String\n  file : String\n  found : Bool\n  /-- has the modelled shape: fresh object, DecodeFromBytes, error check, AddLayer, NextDecoder -/\n  std : Bool\n  delegates : Bool\n  addOnErr : Bool\n  zeroStops : Bool\n  next : String\n  extraAdd : Bool\nderiving Repr, DecidableEq\n\n")
	b.WriteString("def wrappers : List Wrapper := [\n")
	for i, w := range ws {
		sep := ","
		if i == len(ws)-1 {
			sep = ""
		}
		fmt.Fprintf(&b, "  ⟨%s, %s, %s, %s, %s, %s, %s, %s, %s⟩%s\n", lstr(w.name), lstr(w.file), lbool(w.found), lbool(w.std), lbool(w.delegates),
			lbool(w.addOnErr), lbool(w.zeroStops), lstr(w.next), lbool(w.extraAdd), sep)
	}
	b.WriteString("]\n\n")
	b.WriteString("theorem loop_copies_identical : loopCopiesIdentical = true := by decide\n\n")
	b.WriteString("end Gp.Gen.Dlp\n")

	path := filepath.Join(*out, "Dlp.lean")
	old, _ := os.ReadFile(path)
	if string(old) != b.String() {
		if err := os.WriteFile(path, []byte(b.String()), 0o644); err != nil {
			fmt.Println("ERROR", err)
			os.Exit(2)
		}
		fmt.Println("wrote", path)
	} else {
		fmt.Println("unchanged", path)
	}
	for _, d := range drift {
		fmt.Println("DRIFT", d)
	}
	if len(drift) > 0 {
		os.Exit(3)
	}
}
