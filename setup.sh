#!/bin/bash
# MANIFEST.setup_cmd: build the framework from files on disk only (offline).
set -u
cd "$(dirname "$0")"
export GOFLAGS=-mod=mod GOPROXY=off
unset GOTOOLCHAIN GOSUMDB 2>/dev/null || true
rc=0
# Lean: every Props module and every model driver named in props/*.json
targets=$(python3 - <<'PY'
import json,subprocess
mods,exes=set(),set()
for p in json.loads(subprocess.run(['./check','--dump-all'],capture_output=True,text=True).stdout).values():
    mods|=set(p.get('lean_modules',[]))
    for e in p.get('engines',[]):
        if e.get('model',True): exes.add('gpm_'+e['name'])
print(' '.join(sorted(mods)+sorted(exes)))
PY
)
# regenerate Gp/Gen first so that the build matches the repository's current tree
(cd extract && go build -o bin/x-gen ./cmd/x-gen) || rc=1
for s in extract/specs/*.json; do
  ./extract/bin/x-gen --repo "${VERIF_REPO:-/repo}" --spec "$s" --out lean/Gp/Gen || true
done
for b in $(python3 -c "
import json,subprocess
bs=set()
for p in json.loads(subprocess.run(['./check','--dump-all'],capture_output=True,text=True).stdout).values():
    bs|=set(p.get('extract_bins',[]))
print(' '.join(sorted(bs)))"); do
  (cd extract && go build -o bin/$b ./cmd/$b && ./bin/$b --repo "${VERIF_REPO:-/repo}" --out ../lean/Gp/Gen) || true
done
# build targets one by one: a target that fails here is reported by its own check, it must not break setup
for t in $targets; do
  (cd lean && lake build $t >/tmp/verif-setup-lake.log 2>&1) || { echo "setup: lean target $t failed (will be reported by its check)"; tail -5 /tmp/verif-setup-lake.log; }
done
# Go adapters: warm the build cache
(cd harness && for d in cmd/*/; do go build -tags verif -o bin/$(basename $d) ./$d || echo "setup: adapter $d failed to build (will be reported by its check)"; done)
exit $rc
