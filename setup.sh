#!/bin/bash
# MANIFEST.setup_cmd: build the framework from files on disk only (offline).
set -u
cd "$(dirname "$0")"
export GOFLAGS=-mod=mod GOPROXY=off
unset GOTOOLCHAIN GOSUMDB 2>/dev/null || true
rc=0
# Lean: every Props module and every model driver named in props/*.json
targets=$(python3 - <<'PY'
import json,subprocess
mods,exes=set(),set()
for p in json.loads(subprocess.run(['./check','--dump-all'],capture_output=True,text=True).stdout).values():
    mods|=set(p.get('lean_modules',[]))
    for e in p.get('engines',[]):
        if e.get('model',True): exes.add('gpm_'+e['name'])
print(' '.join(sorted(mods)+sorted(exes)))
PY
)
# regenerate Gp/Gen first so that the build matches the repository's current tree
(cd extract && go build -o bin/x-gen ./cmd/x-gen) || rc=1
for s in extract/specs/*.json; do
  ./extract/bin/x-gen --repo "${VERIF_REPO:-/repo}" --spec "$s" --out lean/Gp/Gen || true
done
for b in $(python3 -c "
import json,subprocess
bs=set()
for p in json.loads(subprocess.run(['./check','--dump-all'],capture_output=True,text=True).stdout).values():
    bs|=set(p.get('extract_bins',[]))
print(' '.join(sorted(bs)))"); do
  (cd extract && go build -o bin/$b ./cmd/$b && ./bin/$b --repo "${VERIF_REPO:-/repo}" --out ../lean/Gp/Gen) || true
done
(cd lean && lake build $targets) || rc=1
# Go adapters: warm the build cache
(cd harness && for d in cmd/*/; do go build -tags verif -o bin/$(basename $d) ./$d || exit 1; done) || rc=1
exit $rc
